"""Reference model of `cij run-static` (C18).  Never imports cij.

What the statement fixes, written from the statement:

* the static equation of state is the *second-order finite-strain* least-squares fit of the input energies, i.e. the
  quadratic in the Eulerian strain f(V) = ((V_ref/V)^(2/3) - 1)/2 closest to the data in the least-squares sense.  The
  space {a0 + a1 f + a2 f^2} does not depend on V_ref (f for another reference volume is an affine function of f), so the
  fit is unique; it is the three-parameter second-order Birch-Murnaghan family E0 + 9/2 V0 B0 f0^2.
* P = -dF/dV of that fit, analytically:  F(V) = q(f(V)),  F' = q' f',  F'' = q'' f'^2 + q' f'',
  F''' = 3 q'' f' f'' + q' f'''  (q''' = 0).
* every tabulated modulus column is fitted the same way (quadratic in f, least squares) and evaluated at the row volume.
* unit factors by hand from CODATA (scipy.constants).
* Voigt/Reuss/Hill through mc.ref.tensor_ref (full-tensor traces), velocities from rho v^2 = M.

Tolerances (DESIGN section 5): the command may differentiate numerically on an n-point volume grid and interpolate.
`node_bound` is the Taylor-remainder bound of a centred / one-sided difference quotient computed from the reference's
own F''' / F''; `spline_bound` propagates node bounds through the cubic not-a-knot spline operator (linear in the data,
so the bound is sum |cardinal_i(v)| * bound_i + the spline's own error on exact data); `lagrange4` is an own 4-point
Lagrange inverse interpolation used only to size the interpolation error of V(P), F(P) in pressure mode; `lagrange_box`
repeats it with every node pressure moved to either end of its bound (worst case over the box of admissible node pressures).
"""
import math
import re

import numpy
from scipy import constants as sc

from mc.ref import tensor_ref

# ----------------------------------------------------------------------------- units (CODATA via scipy.constants)

RY_J = sc.physical_constants["Rydberg constant times hc in J"][0]
A0_M = sc.physical_constants["Bohr radius"][0]
EV_J = sc.physical_constants["electron volt"][0]
N_A = sc.physical_constants["Avogadro constant"][0]

EV_PER_RY = RY_J / EV_J                                  # Ry -> eV
ANG3_PER_BOHR3 = (A0_M * 1e10) ** 3                      # bohr^3 -> A^3
GPA_PER_AU = RY_J / A0_M ** 3 / 1e9                      # Ry/bohr^3 -> GPa
GCM3_PER_AU = 1.0 / (N_A * (A0_M * 1e2) ** 3)            # (g/mol)/bohr^3 -> g/cm^3   (one cell = M/N_A gram in V a0^3 cm^3)
KMS_PER_SQRT_GPA_GCM3 = math.sqrt(1e9 / 1e3) / 1e3       # sqrt(GPa/(g/cm^3)) -> km/s  (= 1 exactly)

PAIRS21 = [(a, b) for a in range(1, 7) for b in range(a, 7)]
VRH_NAMES = ["bm_V", "bm_R", "bm_VRH", "G_V", "G_R", "G_VRH"]
VEL_NAMES = ["v_p", "v_s", "v_phi"]


# ----------------------------------------------------------------------------- fits

def strain(vref, v):
    return 0.5 * ((vref / numpy.asarray(v, float)) ** (2.0 / 3.0) - 1.0)


def _strain_derivs(vref, v):
    """f', f'', f''' with respect to V"""
    v = numpy.asarray(v, float)
    a = vref ** (2.0 / 3.0)
    return (-(1.0 / 3.0) * a * v ** (-5.0 / 3.0), (5.0 / 9.0) * a * v ** (-8.0 / 3.0), -(40.0 / 27.0) * a * v ** (-11.0 / 3.0))


def lsq_quadratic(x, y):
    """least-squares a0 + a1 x + a2 x^2 (QR/SVD solve of the centred, scaled design matrix: no normal equations)"""
    x = numpy.asarray(x, float)
    y = numpy.asarray(y, float)
    if len(x) < 3:
        raise ValueError("need at least three points")
    m, s = x.mean(), (x.max() - x.min()) or 1.0
    t = (x - m) / s
    A = numpy.stack([numpy.ones_like(t), t, t * t], axis=1)
    b, *_ = numpy.linalg.lstsq(A, y, rcond=None)
    # back to powers of x:  t = (x - m)/s
    a2 = b[2] / s ** 2
    a1 = b[1] / s - 2.0 * m * b[2] / s ** 2
    a0 = b[0] - b[1] * m / s + b[2] * m * m / s ** 2
    return numpy.array([a0, a1, a2])


class StrainFit:
    """y(V) = a0 + a1 f + a2 f^2, least squares on (vols, values); f relative to `vref` (default: first volume)."""

    def __init__(self, vols, values, vref=None):
        self.vols = numpy.asarray(vols, float)
        self.values = numpy.asarray(values, float)
        self.vref = float(self.vols[0] if vref is None else vref)
        self.a = lsq_quadratic(strain(self.vref, self.vols), self.values)

    def __call__(self, v):
        f = strain(self.vref, v)
        return self.a[0] + f * (self.a[1] + f * self.a[2])

    def deriv(self, v, k=1):
        f = strain(self.vref, v)
        q1 = self.a[1] + 2.0 * self.a[2] * f
        q2 = 2.0 * self.a[2]
        f1, f2, f3 = _strain_derivs(self.vref, v)
        if k == 1:
            return q1 * f1
        if k == 2:
            return q2 * f1 * f1 + q1 * f2
        if k == 3:
            return 3.0 * q2 * f1 * f2 + q1 * f3
        raise ValueError(k)

    def pressure(self, v):
        return -self.deriv(v, 1)

    def residual(self):
        return float(numpy.abs(self(self.vols) - self.values).max())


def sup_abs(fn, lo, hi, samples=33):
    """sup of |fn| over [lo, hi] (arrays of equal shape) by dense sampling: the functions here (second/third volume
    derivative of a quadratic in f) are smooth with at most one sign change of their derivative on the ranges used"""
    lo, hi = numpy.asarray(lo, float), numpy.asarray(hi, float)
    out = numpy.zeros(lo.shape)
    for s in numpy.linspace(0.0, 1.0, samples):
        out = numpy.maximum(out, numpy.abs(fn(lo + s * (hi - lo))))
    return out


def node_bound(fit, grid):
    """bound on |difference quotient - F'| at the nodes of an ordered grid: centred quotient over [v[i-1], v[i+1]] in the
    interior (h^2/6 sup|F'''| with h the larger of the two half spans, plus |h_+ - h_-|/2 sup|F''| if the grid is not
    uniform), one-sided quotient over the end cell at the two ends (h/2 sup|F''|).  Same units as F/V."""
    g = numpy.asarray(grid, float)
    n = len(g)
    if n < 3:
        raise ValueError("grid too short")
    out = numpy.zeros(n)
    lo, hi = numpy.minimum(g[:-2], g[2:]), numpy.maximum(g[:-2], g[2:])
    hm, hp = numpy.abs(g[1:-1] - g[:-2]), numpy.abs(g[2:] - g[1:-1])
    h = numpy.maximum(hm, hp)
    out[1:-1] = h * h / 6.0 * sup_abs(lambda v: fit.deriv(v, 3), lo, hi) + numpy.abs(hp - hm) / 2.0 * sup_abs(lambda v: fit.deriv(v, 2), lo, hi)
    for i, j in ((0, 1), (n - 1, n - 2)):
        a, b = min(g[i], g[j]), max(g[i], g[j])
        out[i] = (b - a) / 2.0 * sup_abs(lambda v: fit.deriv(v, 2), numpy.array([a]), numpy.array([b]))[0]
    return out


def spline_cardinals(grid, v_eval):
    """matrix C with (cubic not-a-knot interpolating spline of data y on `grid`)(v_eval) = C @ y"""
    from scipy.interpolate import make_interp_spline
    g = numpy.asarray(grid, float)
    o = numpy.argsort(g)
    C = make_interp_spline(g[o], numpy.eye(len(g)), k=3)(numpy.asarray(v_eval, float))
    out = numpy.zeros_like(C)
    out[:, o] = C
    return out


def spline_bound(fit, grid, v_eval):
    """bound on |spline(difference-quotient pressures on grid)(v) - P(v)|: node bounds propagated through the (linear)
    spline operator + the spline's own interpolation error on the exact node pressures"""
    C = spline_cardinals(grid, v_eval)
    nb = node_bound(fit, grid)
    exact_nodes = fit.pressure(numpy.asarray(grid, float))
    own = numpy.abs(C @ exact_nodes - fit.pressure(numpy.asarray(v_eval, float)))
    return numpy.abs(C) @ nb + own


def lagrange4(x_nodes, y_nodes, x_new):
    """4-point Lagrange interpolation of y(x) at x_new on the four nodes bracketing each x_new (two on either side,
    shifted inwards at the ends).  x_nodes strictly monotonic.  Returns (values, weights (m,4), first node index (m,))
    with indices referring to the ascending-x ordering; also returns that ordering."""
    x = numpy.asarray(x_nodes, float)
    o = numpy.argsort(x)
    xs = x[o]
    ys = numpy.asarray(y_nodes, float)[o]
    if not numpy.all(numpy.diff(xs) > 0):
        raise ValueError("nodes not strictly monotonic")
    xn = numpy.asarray(x_new, float)
    k = numpy.clip(numpy.searchsorted(xs, xn, side="right") - 1, 0, len(xs) - 2)
    i0 = numpy.clip(k - 1, 0, len(xs) - 4)
    W = numpy.zeros((len(xn), 4))
    for a in range(4):
        w = numpy.ones(len(xn))
        for b in range(4):
            if a != b:
                w = w * (xn - xs[i0 + b]) / (xs[i0 + a] - xs[i0 + b])
        W[:, a] = w
    idx = i0[:, None] + numpy.arange(4)[None, :]
    vals = (W * ys[idx]).sum(axis=1)
    return vals, W, idx, o


def lagrange_weights(xn, x):
    """weights (m,4) of the cubic through the abscissae xn (m,4) evaluated at x (m,)"""
    xn = numpy.asarray(xn, float)
    x = numpy.asarray(x, float)
    W = numpy.ones(xn.shape)
    for a in range(4):
        for b in range(4):
            if a != b:
                W[:, a] = W[:, a] * (x - xn[:, b]) / (xn[:, a] - xn[:, b])
    return W


def lagrange_box(p_nodes4, p_bound4, y_nodes4, p_new):
    """all 16 inverse interpolations with the four node abscissae moved to either end of [p - bound, p + bound]:
    yields (weights (m,4), interpolated y (m,)) per corner.  The interpolated value is monotonic in each node abscissa as
    long as the nodes keep their order, so the extremes over the box are attained at corners."""
    import itertools
    for signs in itertools.product((-1.0, 1.0), repeat=4):
        W = lagrange_weights(p_nodes4 + numpy.array(signs)[None, :] * p_bound4, p_new)
        yield W, (W * y_nodes4).sum(axis=1)


# ----------------------------------------------------------------------------- symmetry fill (standard setting)

def system_tensor(system, c):
    """full invariant tensor {pair: value} of `system` determined by the supplied components c (dict pair -> value or
    array), from the exact invariant subspace of the Laue class (mc.ref.laue_ref: group average of the rotation action
    on the 21 components; standard setting: z principal axis, x two-fold axis, monoclinic unique axis y) -- not from any
    packaged relations file.  The supplied components must determine the tensor (rank = dimension of the subspace);
    supplied components that are themselves symmetry-related are reconciled in the least-squares sense."""
    if system in (None,):
        return dict(c)
    from mc.ref import laue_ref
    rows, _ = laue_ref.invariant_basis(system)
    B = numpy.array([[float(x) for x in r] for r in rows])            # d x 21
    given = [p for p in PAIRS21 if p in c]
    cols = [PAIRS21.index(p) for p in given]
    A = B[:, cols].T                                                   # len(given) x d
    if numpy.linalg.matrix_rank(A) < B.shape[0]:
        raise ValueError(f"the supplied components {given} do not determine a {system} tensor")
    Y = numpy.array([numpy.broadcast_to(numpy.asarray(c[p], float), numpy.shape(numpy.asarray(c[given[0]], float))) for p in given])
    shape = Y.shape[1:]
    X, *_ = numpy.linalg.lstsq(A, Y.reshape(len(given), -1), rcond=None)
    full = (B.T @ X).reshape((21,) + shape)
    out = {}
    for k, p in enumerate(PAIRS21):
        v = full[k]
        if not numpy.any(B[:, k] != 0):
            v = numpy.zeros(shape)                                     # vanishes identically in this class
        out[p] = v if shape else float(v)
    return out


def _system_tensor_explicit(system, c):
    """full invariant tensor {pair: value} of `system` from its independent entries (dict pair -> value/array).
    Standard setting: z principal axis, x two-fold axis.  Systems: None, orthorhombic, cubic, trigonal7, hexagonal.
    Hand-written textbook forms, used by the selftest as a cross-check of system_tensor."""
    if system in (None, "triclinic"):
        return dict(c)
    z = 0.0 * numpy.asarray(c[(1, 1)], float)
    t = {p: z for p in PAIRS21}
    if system == "orthorhombic":
        for p in [(1, 1), (2, 2), (3, 3), (1, 2), (1, 3), (2, 3), (4, 4), (5, 5), (6, 6)]:
            t[p] = c[p]
        return t
    if system == "cubic":
        for p in [(1, 1), (2, 2), (3, 3)]:
            t[p] = c[(1, 1)]
        for p in [(1, 2), (1, 3), (2, 3)]:
            t[p] = c[(1, 2)]
        for p in [(4, 4), (5, 5), (6, 6)]:
            t[p] = c[(4, 4)]
        return t
    if system in ("hexagonal", "trigonal7"):
        t[(1, 1)] = t[(2, 2)] = c[(1, 1)]
        t[(3, 3)] = c[(3, 3)]
        t[(1, 2)] = c[(1, 2)]
        t[(1, 3)] = t[(2, 3)] = c[(1, 3)]
        t[(4, 4)] = t[(5, 5)] = c[(4, 4)]
        t[(6, 6)] = (c[(1, 1)] - c[(1, 2)]) / 2.0
        if system == "trigonal7":
            t[(1, 4)] = c[(1, 4)]; t[(2, 4)] = -c[(1, 4)]; t[(5, 6)] = c[(1, 4)]
            t[(1, 5)] = c[(1, 5)]; t[(2, 5)] = -c[(1, 5)]; t[(4, 6)] = -c[(1, 5)]
        return t
    raise ValueError(system)


# ----------------------------------------------------------------------------- the model of one run

class StaticModel:
    """energies: (vols bohr^3, energies Ry); table: None or dict(vols, table {pair: GPa array}, cellmass g/mol);
    system: None or a name; cellmass: None or the --cellmass value."""

    def __init__(self, vols, energies, table=None, system=None, cellmass=None):
        self.vols = numpy.asarray(vols, float)
        self.energies = numpy.asarray(energies, float)
        self.eos = StrainFit(self.vols, self.energies)
        self.table = table
        self.system = system
        self.mass = None
        if table is not None:
            self.mass = float(table["cellmass"])
        if cellmass is not None:
            self.mass = float(cellmass)
        self.fits = {}
        if table is not None:
            full = system_tensor(system, {p: numpy.asarray(v, float) for p, v in table["table"].items()})
            for p, col in full.items():
                if numpy.any(numpy.asarray(col) != 0):
                    self.fits[p] = StrainFit(table["vols"], col)

    # quantities at volumes given in bohr^3; results in the printed units
    def F_ev(self, v):
        return self.eos(v) * EV_PER_RY

    def P_gpa(self, v):
        return self.eos.pressure(v) * GPA_PER_AU

    def density(self, v):
        return self.mass / numpy.asarray(v, float) * GCM3_PER_AU

    def moduli(self, v):
        return {p: f(v) for p, f in self.fits.items()}

    def aggregates(self, v):
        """{name: array} for the six averages and the three velocities at the volumes v (bohr^3)"""
        v = numpy.atleast_1d(numpy.asarray(v, float))
        mods = self.moduli(v)
        out = {k: numpy.zeros(len(v)) for k in VRH_NAMES + VEL_NAMES}
        rho = self.density(v)
        for i in range(len(v)):
            c6 = tensor_ref.c6_from_dict({p: val[i] for p, val in mods.items()})
            r = tensor_ref.vrh(tensor_ref.full_from_voigt(c6))
            for name, key in zip(VRH_NAMES, ("KV", "KR", "KH", "GV", "GR", "GH")):
                out[name][i] = r[key]
            for name, m in (("v_p", r["KH"] + 4.0 * r["GH"] / 3.0), ("v_s", r["GH"]), ("v_phi", r["KH"])):
                # a non-positive modulus (table extrapolated far outside its volumes) has no velocity: NaN = "undefined"
                out[name][i] = math.sqrt(m / rho[i]) * KMS_PER_SQRT_GPA_GCM3 if m / rho[i] > 0 else float("nan")
        return out

    def volume_at(self, p_gpa, lo=None, hi=None):
        """root of P(V) = p on [lo, hi] (default: the input volume range stretched by 1.2), by bisection-type search"""
        from scipy.optimize import brentq
        lo = self.vols.min() / 1.2 if lo is None else lo
        hi = self.vols.max() * 1.2 if hi is None else hi
        return brentq(lambda v: float(self.P_gpa(v)) - p_gpa, lo, hi, xtol=1e-13, rtol=1e-14)


# ----------------------------------------------------------------------------- stdout table

_NUM = re.compile(r"^[+-]?(\d+\.?\d*|\.\d+)([eE][+-]?\d+)?$")


class TableError(Exception):
    pass


def half_unit(tok):
    """half a unit in the last printed digit of a decimal token"""
    t = tok.lstrip("+-")
    exp = 0
    parts = re.split(r"[eE]", t)
    if len(parts) == 2:
        t, exp = parts[0], int(parts[1])
    dec = len(t.split(".")[1]) if "." in t else 0
    return 0.5 * 10.0 ** (exp - dec)


def parse_table(text):
    """pandas `DataFrame.to_string()` layout: one header line with the column names, then one line per row starting
    with the index label.  Returns {"names": [...], "index": [int...], "tokens": {name: [str...]}, "values": {name: array}}.
    Non-finite tokens (nan, inf) are kept as such in `values`."""
    lines = [l for l in text.split("\n") if l.strip()]
    if len(lines) < 2:
        raise TableError("no table on standard output (%d non-empty lines)" % len(lines))
    names = lines[0].split()
    if len(set(names)) != len(names):
        raise TableError("duplicate column names %r" % names)
    tokens = {n: [] for n in names}
    index = []
    for l in lines[1:]:
        parts = l.split()
        if len(parts) != len(names) + 1:
            raise TableError("row %r has %d fields for %d columns" % (l[:60], len(parts) - 1, len(names)))
        if not re.fullmatch(r"\d+", parts[0]):
            raise TableError("row label %r is not an integer" % parts[0])
        index.append(int(parts[0]))
        for n, t in zip(names, parts[1:]):
            if not (_NUM.match(t) or t.lower().lstrip("+-") in ("nan", "inf")):
                raise TableError("token %r in column %s is not a number" % (t, n))
            tokens[n].append(t)
    values = {n: numpy.array([float(t) for t in tokens[n]]) for n in names}
    return {"names": names, "index": index, "tokens": tokens, "values": values}


# ----------------------------------------------------------------------------- selftest

def selftest():
    ok = True
    # units against textbook values
    ok &= abs(EV_PER_RY - 13.605693) < 1e-6
    ok &= abs(ANG3_PER_BOHR3 - 0.148184711) < 1e-8
    ok &= abs(GPA_PER_AU - 14710.5078) < 1e-3
    ok &= abs(GCM3_PER_AU - 11.2058730) < 1e-5      # 1 amu/bohr^3 = 1.66053907e-24 g / 1.48184711e-25 cm^3
    ok &= KMS_PER_SQRT_GPA_GCM3 == 1.0
    # a second-order Birch-Murnaghan energy is reproduced exactly, whatever the reference volume; P = 3 B0 f (1+2f)^(5/2)
    v0, b0, e0 = 300.0, 0.0136, -120.0
    vols = numpy.array([318.0, 304.0, 288.0, 272.0, 255.0, 238.0])
    f0 = strain(v0, vols)
    en = e0 + 4.5 * v0 * b0 * f0 ** 2
    for vref in (None, 300.0, 411.7):
        fit = StrainFit(vols, en, vref)
        ok &= fit.residual() < 1e-11
        vv = numpy.linspace(200.0, 380.0, 7)
        ff = strain(v0, vv)
        ok &= bool(numpy.allclose(fit.pressure(vv), 3.0 * b0 * ff * (1.0 + 2.0 * ff) ** 2.5, rtol=1e-9, atol=1e-14))
    # least-squares character: residual orthogonal to 1, f, f^2; invariance under the reference volume
    en2 = en + 1e-3 * numpy.sin(1.0 + 2.0 * numpy.arange(6))
    fa, fb = StrainFit(vols, en2), StrainFit(vols, en2, 287.3)
    r = fa(vols) - en2
    fx = strain(fa.vref, vols)
    ok &= all(abs(float(r @ fx ** k)) < 1e-10 for k in range(3)) and abs(r).max() > 1e-5
    ok &= bool(numpy.allclose(fa(vv), fb(vv), rtol=0, atol=1e-10))
    # analytic derivatives against high-order differences
    h = 1e-2
    for k in (1, 2, 3):
        g = (lambda v: fa(v)) if k == 1 else (lambda v, k=k: fa.deriv(v, k - 1))
        num = (-g(vv + 2 * h) + 8 * g(vv + h) - 8 * g(vv - h) + g(vv - 2 * h)) / (12 * h)
        ok &= bool(numpy.allclose(fa.deriv(vv, k), num, rtol=1e-6, atol=1e-12))
    # node bound really bounds numpy.gradient quotients, and is not slack by more than a factor 4 in the interior
    for n in (11, 101):
        grid = numpy.linspace(238 / 1.2, 318 * 1.2, n)
        q = -numpy.gradient(fa(grid)) / numpy.gradient(grid)
        err = numpy.abs(q - fa.pressure(grid))
        nb = node_bound(fa, grid)
        ok &= bool(numpy.all(err <= nb * (1 + 1e-9) + 1e-13)) and bool(numpy.all(nb[1:-1] <= 4 * err[1:-1] + 1e-12))
        # spline operator = scipy's interpolating spline; bound holds
        from scipy.interpolate import InterpolatedUnivariateSpline
        s = InterpolatedUnivariateSpline(grid, q)(vols)
        ok &= bool(numpy.allclose(spline_cardinals(grid, vols) @ q, s, rtol=1e-10, atol=1e-13))
        ok &= bool(numpy.all(numpy.abs(s - fa.pressure(vols)) <= spline_bound(fa, grid, vols) + 1e-13))
    # Lagrange: cubic reproduced, weights sum to one
    x = numpy.array([0.0, 1.0, 2.5, 3.0, 4.2, 6.0])
    val, W, idx, o = lagrange4(x, x ** 3 - x, numpy.array([0.3, 2.7, 5.5]))
    ok &= bool(numpy.allclose(val, numpy.array([0.3, 2.7, 5.5]) ** 3 - numpy.array([0.3, 2.7, 5.5]))) and bool(numpy.allclose(W.sum(axis=1), 1))
    # table parser
    t = parse_table("     V    F\n0  1.50 -2.0\n1  2.25  3.0e+01\n")
    ok &= t["names"] == ["V", "F"] and t["index"] == [0, 1] and t["values"]["F"][1] == 30.0 and half_unit("2.25") == 0.005 and half_unit("3.0e+01") == 0.5
    # symmetry fill: cubic and trigonal tensors are invariant (3-fold about z for trigonal, 4-fold about x for cubic)
    base = {p: 10.0 + 3.0 * n for n, p in enumerate(PAIRS21)}
    base[(1, 1)] = 300.0; base[(3, 3)] = 280.0; base[(4, 4)] = 80.0
    for system, ang, axis in (("trigonal7", 2 * math.pi / 3, 2), ("hexagonal", 0.777, 2), ("cubic", math.pi / 2, 0), ("cubic", math.pi / 2, 2)):
        c6 = tensor_ref.c6_from_dict(system_tensor(system, base))
        C = tensor_ref.full_from_voigt(c6)
        R = numpy.eye(3)
        i, j = [a for a in range(3) if a != axis]
        R[i, i] = R[j, j] = math.cos(ang); R[i, j] = -math.sin(ang); R[j, i] = math.sin(ang)
        ok &= bool(numpy.allclose(tensor_ref.rotate(C, R), C, atol=1e-10))
    # the Laue-class fill against the hand-written forms, and its invariance under the generators for every class
    indep = {"monoclinic": [(1, 1), (2, 2), (3, 3), (1, 2), (1, 3), (2, 3), (4, 4), (5, 5), (6, 6), (1, 5), (2, 5), (3, 5), (4, 6)],
             "orthorhombic": [(1, 1), (2, 2), (3, 3), (1, 2), (1, 3), (2, 3), (4, 4), (5, 5), (6, 6)],
             "tetragonal7": [(1, 1), (3, 3), (1, 2), (1, 3), (4, 4), (6, 6), (1, 6)], "tetragonal6": [(1, 1), (3, 3), (1, 2), (1, 3), (4, 4), (6, 6)],
             "trigonal7": [(1, 1), (3, 3), (1, 2), (1, 3), (4, 4), (1, 4), (1, 5)], "trigonal6": [(1, 1), (3, 3), (1, 2), (1, 3), (4, 4), (1, 4)],
             "hexagonal": [(1, 1), (3, 3), (1, 2), (1, 3), (4, 4)], "cubic": [(1, 1), (1, 2), (4, 4)]}
    sub = lambda system: {p: base[p] for p in indep[system]}
    for system in ("orthorhombic", "cubic", "hexagonal", "trigonal7"):
        t1, t2 = system_tensor(system, sub(system)), _system_tensor_explicit(system, base)
        ok &= all(abs(t1[p] - t2[p]) < 1e-9 for p in PAIRS21)

    def rot(axis, ang):
        R = numpy.eye(3)
        i, j = [a for a in range(3) if a != axis]
        R[i, i] = R[j, j] = math.cos(ang); R[i, j] = -math.sin(ang); R[j, i] = math.sin(ang)
        return R
    gens = {"monoclinic": [rot(1, math.pi)], "orthorhombic": [rot(2, math.pi), rot(0, math.pi)], "tetragonal7": [rot(2, math.pi / 2)],
            "tetragonal6": [rot(2, math.pi / 2), rot(0, math.pi)], "trigonal7": [rot(2, 2 * math.pi / 3)],
            "trigonal6": [rot(2, 2 * math.pi / 3), rot(0, math.pi)], "hexagonal": [rot(2, math.pi / 3), rot(0, math.pi)],
            "cubic": [rot(2, math.pi / 2), rot(0, math.pi / 2)]}
    nonzero = {"monoclinic": 13, "orthorhombic": 9, "tetragonal7": 11, "tetragonal6": 9, "trigonal7": 15, "trigonal6": 12, "hexagonal": 9, "cubic": 9}
    for system, rs in gens.items():
        t = system_tensor(system, sub(system))
        C = tensor_ref.full_from_voigt(tensor_ref.c6_from_dict(t))
        ok &= all(bool(numpy.allclose(tensor_ref.rotate(C, R), C, atol=1e-9)) for R in rs)
        ok &= sum(1 for p in PAIRS21 if t[p] != 0) == nonzero[system]
        ok &= all(abs(t[p] - base[p]) < 1e-9 for p in indep[system])
    t7 = system_tensor("tetragonal7", sub("tetragonal7"))
    ok &= abs(t7[(2, 6)] + t7[(1, 6)]) < 1e-12 and abs(t7[(1, 6)] - base[(1, 6)]) < 1e-9 and t7[(1, 6)] != 0
    # array-valued input, subset input
    arr = {p: numpy.array([1.0, 2.0]) * v for p, v in base.items() if p in [(1, 1), (3, 3), (1, 2), (1, 3), (4, 4), (6, 6), (1, 6)]}
    ta = system_tensor("tetragonal7", arr)
    ok &= bool(numpy.allclose(ta[(2, 6)], -arr[(1, 6)])) and bool(numpy.allclose(ta[(2, 2)], arr[(1, 1)])) and bool(numpy.allclose(ta[(1, 4)], 0))
    return bool(ok) and tensor_ref.selftest()
