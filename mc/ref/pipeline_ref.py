"""Reference pipeline (C05, C06, C07, C12, C13, C15): own parsers for both input files, own static fit of V*c in
Eulerian strain, own axial-strain rule, own instance of qha.calculator.Calculator fed by qha's own reader,
sam_ref for the phonon tensor.  qha is trusted as a library; how cij drives it is not.  Never imports cij."""
import os
import re

import numpy
import yaml
from scipy import constants as sc

from mc.ref import sam_ref

_RY_J = sc.physical_constants["Rydberg constant times hc in J"][0]
_A0 = sc.physical_constants["Bohr radius"][0]
GPA_PER_AU = _RY_J / _A0 ** 3 / 1e9          # GPa per (Ry/bohr^3)
ANG3_PER_BOHR3 = (_A0 * 1e10) ** 3
PAIRS21 = [(a, b) for a in range(1, 7) for b in range(a, 7)]
_STD2V = {"11": 1, "22": 2, "33": 3, "23": 4, "32": 4, "13": 5, "31": 5, "12": 6, "21": 6}


# ----------------------------------------------------------------------------- parsing

def parse_phonon_file(path):
    with open(path) as fp:
        lines = fp.read().split("\n")
    i = 0
    while not re.fullmatch(r"\s*\d+\s+\d+\s+\d+\s+\d+\s+\d+\s*", lines[i]):
        i += 1
    nv, nq, npm, nm, na = map(int, lines[i].split())
    i += 1
    vols, ens, prs = [], [], []
    freqs = numpy.zeros((nv, nq, npm))
    coords = []
    for a in range(nv):
        while lines[i].strip() == "":
            i += 1
        m = re.search(r"P\s*=\s*(\S+)\s+V\s*=\s*(\S+)\s+E\s*=\s*(\S+)", lines[i])
        prs.append(float(m.group(1))); vols.append(float(m.group(2))); ens.append(float(m.group(3)))
        i += 1
        cq = []
        for q in range(nq):
            cq.append(tuple(float(x) for x in lines[i].split()))
            i += 1
            for k in range(npm):
                freqs[a, q, k] = float(lines[i])
                i += 1
        coords.append(cq)
    while lines[i].strip() not in ("weight", "weights"):
        i += 1
    i += 1
    weights = []
    for q in range(nq):
        w = lines[i].split()
        weights.append(float(w[3]))
        i += 1
    return {"nv": nv, "nq": nq, "np": npm, "nm": nm, "na": na, "pressures": numpy.array(prs), "vols": numpy.array(vols),
            "energies": numpy.array(ens), "freqs": freqs, "weights": numpy.array(weights), "coords": coords}


def column_pair(name):
    m = re.fullmatch(r"\D*(\d+)", name)
    if not m:
        return None
    d = m.group(1)
    if len(d) == 2:
        a, b = int(d[0]), int(d[1])
    elif len(d) == 4:
        a, b = _STD2V[d[:2]], _STD2V[d[2:]]
    else:
        return None
    return (min(a, b), max(a, b))


def parse_static_file(path):
    with open(path) as fp:
        lines = fp.read().split("\n")
    vref, nv, mass = lines[1].split()[:3]
    nv = int(nv)
    names = lines[2].split()
    pairs = [column_pair(n) for n in names[1:]]
    rows = numpy.array([[float(x) for x in lines[3 + i].split()] for i in range(nv)])
    lattice = None
    if len(lines) > 3 + nv and lines[3 + nv].strip() != "":
        lattice = numpy.array([[float(x) for x in lines[4 + nv + i].split()] for i in range(nv)])
    return {"vref": float(vref), "nv": nv, "cellmass": float(mass), "vols": rows[:, 0],
            "table": {p: rows[:, 1 + k] for k, p in enumerate(pairs)}, "order": pairs, "lattice": lattice}


def merge(user, default):
    out = dict(default)
    for k, v in user.items():
        if isinstance(v, dict) and isinstance(default.get(k), dict):
            out[k] = merge(v, default[k])
        else:
            out[k] = v
    return out


def effective_config(settings_path, repo_root):
    with open(settings_path) as fp:
        user = yaml.safe_load(fp)
    with open(os.path.join(repo_root, "cij", "data", "default", "settings.yaml")) as fp:
        default = yaml.safe_load(fp)
    return merge(user, default)


# ----------------------------------------------------------------------------- numerics

def eulerian(v0, v):
    return 0.5 * ((v0 / numpy.asarray(v, float)) ** (2.0 / 3.0) - 1.0)


def lsq_poly(x, y, deg):
    """least-squares polynomial coefficients (increasing powers) by a normal-equation-free QR solve"""
    A = numpy.vander(numpy.asarray(x, float), deg + 1, increasing=True)
    coef, *_ = numpy.linalg.lstsq(A, numpy.asarray(y, float), rcond=None)
    return coef


def polyval_inc(coef, x, der=0):
    c = numpy.array(coef, float)
    for _ in range(der):
        c = c[1:] * numpy.arange(1, len(c))
    x = numpy.asarray(x, float)
    out = numpy.zeros_like(x)
    for k in range(len(c) - 1, -1, -1):
        out = out * x + c[k]
    return out


def fit_vc(vols, values, v_array):
    """least-squares cubic in Eulerian strain of V*c(V), returned as c on v_array, plus dln(c)/dlnV analytically"""
    f = eulerian(vols[0], vols)
    fa = eulerian(vols[0], v_array)
    coef = lsq_poly(f, vols * values, 3)
    g = polyval_inc(coef, fa)
    dg_df = polyval_inc(coef, fa, 1)
    df_dv = -(1.0 / 3.0) * (vols[0] / v_array) ** (2.0 / 3.0) / v_array
    val = g / v_array
    dval_dv = dg_df * df_dv / v_array - g / v_array ** 2
    return val, dval_dv * v_array / val


def centred_fraction(a):
    """(a[k+1]-a[k-1])/(a[k+1]+a[k-1]) with the end values repeated (one-sided at the ends)"""
    t = numpy.concatenate(([a[0]], a, [a[-1]]))
    return (t[2:] - t[:-2]) / (t[2:] + t[:-2])


class Pipeline:
    def __init__(self, dirpath, repo_root, settings_name="settings.yaml", spectrum="interp", laws=None, fill=None):
        """spectrum: 'analytic' (laws given: exact omega, gamma, V dgamma/dV on the fine grid) or 'interp' (caller
        supplies arrays later through set_spectrum)."""
        import qha.calculator
        from qha.settings import DEFAULT_SETTINGS
        self.cfg = effective_config(os.path.join(dirpath, settings_name), repo_root)
        self.ph = parse_phonon_file(os.path.join(dirpath, self.cfg["qha"]["input"]))
        self.st = parse_static_file(os.path.join(dirpath, self.cfg["elast"]["input"]))
        s = dict(DEFAULT_SETTINGS)
        s.update(self.cfg["qha"]["settings"])
        s["input"] = os.path.join(dirpath, self.cfg["qha"]["input"])
        q = qha.calculator.Calculator(s)
        try:
            q.read_input()
        except ValueError:
            # qha's own reader only understands plain decimals in the P= V= E= headers; for other (valid) spellings the
            # reference hands it a canonical re-spelling of exactly the numbers its own parser read
            s["input"] = self._canonical_copy(s["input"])
            q = qha.calculator.Calculator(s)
            q.read_input()
        if not (numpy.array_equal(q.volumes, self.ph["vols"]) and numpy.array_equal(q.static_energies, self.ph["energies"])
                and numpy.array_equal(numpy.asarray(q.frequencies), self.ph["freqs"]) and numpy.array_equal(q.q_weights, self.ph["weights"])):
            raise RuntimeError("reference parser and qha's reader disagree on the phonon file")
        q.refine_grid()
        self.q = q
        self.v = numpy.array(q.finer_volumes_bohr3)
        self.t = numpy.array(q.temperature_array)
        self.p_tv = numpy.array(q.p_tv_au)
        self.cv = numpy.array(q.cv_tv_au)
        self.p_desired = numpy.array(q.desired_pressures)
        self.p_reach_gpa = float(numpy.array(q.p_tv_gpa)[:, -1].min())
        self.p_desired_max_gpa = float(numpy.array(q.desired_pressures_gpa).max())
        self.laws = laws
        self._static_pressure()
        self._strains()
        self.filled = fill(self.st["table"]) if fill else dict(self.st["table"])

    def _canonical_copy(self, path):
        with open(path) as fp:
            text = fp.read().split("\n")
        out = []
        k = 0
        for line in text:
            if re.search(r"P\s*=\s*\S+\s+V\s*=\s*\S+\s+E\s*=\s*\S+", line):
                out.append(f" P= {self.ph['pressures'][k]:.14f}      V= {float(self.ph['vols'][k])!r}      E= {float(self.ph['energies'][k])!r}")
                k += 1
            else:
                out.append(line)
        if k != self.ph["nv"]:
            raise RuntimeError("canonical copy: volume headers not found")
        new = path + ".refcopy"
        with open(new, "w") as fp:
            fp.write("\n".join(out))
        return new

    # -- pieces
    def _static_pressure(self):
        vols, v = self.ph["vols"], self.v
        coef = lsq_poly(eulerian(vols[0], vols), self.ph["energies"], 3)
        fa = eulerian(vols[0], v)
        e = polyval_inc(coef, fa)
        de_df = polyval_inc(coef, fa, 1)
        df_dv = -(1.0 / 3.0) * (vols[0] / v) ** (2.0 / 3.0) / v
        self.ps_analytic = -de_df * df_dv
        self.ps_grid = -numpy.gradient(e) / numpy.gradient(v)

    def _strains(self):
        n = len(self.v)
        if self.st["lattice"] is None:
            self.e_analytic = self.e_grid = numpy.full((n, 3), 1.0 / 3.0)
            return
        ea, eg = numpy.zeros((n, 3)), numpy.zeros((n, 3))
        for i in range(3):
            a, dlna = fit_vc(self.st["vols"], self.st["lattice"][:, i], self.v)
            ea[:, i] = dlna
            eg[:, i] = centred_fraction(a)
        self.e_analytic = ea / ea.sum(axis=1, keepdims=True)
        self.e_grid = eg / eg.sum(axis=1, keepdims=True)

    def static_modulus(self, pair):
        """tabulated GPa -> atomic units, LSQ cubic of V*c in Eulerian strain, on the fine grid"""
        val, _ = fit_vc(self.st["vols"], self.filled[pair] / GPA_PER_AU, self.v)
        return val

    def analytic_spectrum(self):
        from mc import duck as D
        x = numpy.log(self.v / D.V0)
        nq, npm = self.ph["nq"], self.ph["np"]
        f = numpy.zeros((len(self.v), nq, npm)); g = numpy.zeros_like(f); b = numpy.zeros_like(f)
        for q in range(nq):
            for m in range(npm):
                law = self.laws[q][m]
                if law is None:
                    continue
                w0, g0, bb = law
                f[:, q, m] = w0 * numpy.exp(-g0 * x - 0.5 * bb * x * x); g[:, q, m] = g0 + bb * x; b[:, q, m] = bb
        return f, g, b

    def tensor(self, which="grid", spectrum=None, frames=None):
        """sam_ref tensor with strains/static pressure taken analytically ('analytic') or on the grid ('grid')"""
        f, g, b = spectrum if spectrum is not None else self.analytic_spectrum()
        ps = self.ps_grid if which == "grid" else self.ps_analytic
        sp = sam_ref.Spectrum(f, g, b, self.ph["weights"], self.t, self.v, self.ph["na"], self.p_tv - ps[None, :], self.cv)
        return sam_ref.Tensor(sp, frame=frames), (self.e_grid if which == "grid" else self.e_analytic)

    def moduli(self, pairs, spectrum=None, frames=None):
        """{pair: (iso_grid, adi_grid, iso_analytic, adi_analytic, static)}"""
        tg, eg = self.tensor("grid", spectrum, frames)
        ta, ea = self.tensor("analytic", spectrum, frames)
        out = {}
        for p in pairs:
            s = self.static_modulus(p)[None, :]
            out[p] = (s + tg.value(p, eg, False), s + tg.value(p, eg, True),
                      s + ta.value(p, ea, False), s + ta.value(p, ea, True), s)
        return out
