"""Reference SAM-Cij phonon tensor (C02, C04, C05, C12): closed-form non-shear terms (validated against
fph_ref's numerical derivatives of the free energy in selftest) and the strain-energy recursion for
shear-type keys.  Double precision, numpy only, never imports cij.

Spectrum arrays: freq, gamma, vdg of shape (ntv, nq, np); weights (nq,); t (nt,); v (ntv,).
Units: cm^-1, bohr^3, K, Rydberg."""
import itertools

import numpy
from scipy import constants as sc

_RY_J = sc.physical_constants["Rydberg constant times hc in J"][0]
HC = sc.h * sc.c * 100 / _RY_J
KB = sc.k / _RY_J

V2S = {1: (0, 0), 2: (1, 1), 3: (2, 2), 4: (1, 2), 5: (0, 2), 6: (0, 1)}
S2V = {(0, 0): 1, (1, 1): 2, (2, 2): 3, (1, 2): 4, (2, 1): 4, (0, 2): 5, (2, 0): 5, (0, 1): 6, (1, 0): 6}


def vp(i, j, k, l):
    a, b = S2V[(i, j)], S2V[(k, l)]
    return (min(a, b), max(a, b))


def multiplicity(pair):
    a, b = pair
    return (1 if a == b else 2) * (1 if a <= 3 else 2) * (1 if b <= 3 else 2)


class Spectrum:
    def __init__(self, freq, gamma, vdg, weights, t, v, na, dp, cv):
        """dp = P_total(T,V) - P_static(V) (nt,ntv); cv heat capacity (nt,ntv)"""
        self.t = numpy.asarray(t, float)
        self.v = numpy.asarray(v, float)
        self.dp = numpy.asarray(dp, float)
        self.cv = numpy.asarray(cv, float)
        w = numpy.asarray(weights, float)
        w = w / w.sum()
        mask = numpy.ones(freq.shape[1:], bool)
        mask[0, :3] = False
        W = (w[:, None] * mask)[None, :, :]                     # (1,nq,np)
        f = numpy.where(mask[None], freq, 1.0)
        g = numpy.where(mask[None], gamma, 0.0)
        b = numpy.where(mask[None], vdg, 0.0)
        V = self.v
        self.P_zp = HC / (2 * V) * (W * g * f).sum(axis=(1, 2))
        self.A_zp = HC / (2 * V) * (W * (g * g - b) * f).sum(axis=(1, 2))
        nt = len(self.t)
        self.P_th = numpy.zeros((nt, len(V)))
        self.A_th = numpy.zeros((nt, len(V)))
        self.G2 = numpy.zeros((nt, len(V)))   # k_B * sum gamma*Q2  (= V dP/dT)
        for a, T in enumerate(self.t):
            if T == 0:
                continue
            Q = HC * f / (KB * T)
            with numpy.errstate(over="ignore", under="ignore", invalid="ignore"):
                em = numpy.exp(-Q)
                n = em / (-numpy.expm1(-Q))            # 1/(e^Q - 1)
                Q1 = Q * n
                Q2 = Q * Q * n * (n + 1.0)
            Q2 = numpy.where(numpy.isfinite(Q2), Q2, 0.0)
            self.P_th[a] = KB * T / V * (W * g * Q1).sum(axis=(1, 2))
            self.A_th[a] = KB * T / V * (W * ((g * g - b) * Q1 - g * g * Q2)).sum(axis=(1, 2))
            self.G2[a] = KB * (W * g * Q2).sum(axis=(1, 2))

    def nonshear(self, i, j, ei, ej, adiabatic=False):
        """phonon c_iijj on (nt,ntv) for axial fractions ei, ej (ntv,)"""
        if i == j:
            val = (self.A_zp / (5 * ei * ei) + self.P_zp / (3 * ei))[None, :] \
                + self.A_th / (5 * ei * ei)[None, :] + self.P_th / (3 * ei)[None, :]
        else:
            val = (self.A_zp / (15 * ei * ej))[None, :] + self.A_th / (15 * ei * ej)[None, :] + self.dp
        if adiabatic:
            val = val + self.gap(ei, ej)
        return val

    def gap(self, ei, ej):
        """T V (dP/dT)^2 / (9 ei ej C_V), zero at T=0"""
        dPdT = self.G2 / self.v[None, :]
        g = self.t[:, None] * self.v[None, :] * dPdT ** 2 / (9 * (ei * ej)[None, :] * self.cv)
        g[self.t == 0, :] = 0.0
        return g


def fictitious_strain(pair):
    (i, j), (k, l) = V2S[pair[0]], V2S[pair[1]]
    e = numpy.zeros((3, 3))
    e[i, j] = e[j, i] = 1.0
    e[k, l] = e[l, k] = 1.0
    return e


class Tensor:
    """Phonon tensor by the strain-energy recursion.  frame(pair) -> 3x3 real orthonormal eigenbasis of the
    pair's fictitious strain (supplied by the caller, validated here)."""

    def __init__(self, spectrum, frame=None):
        self.sp = spectrum
        self.frame = frame or (lambda pair: numpy.linalg.eigh(fictitious_strain(pair))[1])
        self.cache = {}
        self.calls = 0

    def value(self, pair, e, adiabatic=False):
        pair = (min(pair), max(pair))
        key = (pair, numpy.round(e, 13).tobytes(), adiabatic)
        if key in self.cache:
            return self.cache[key]
        self.calls += 1
        a, b = pair
        if b <= 3:
            out = self.sp.nonshear(a - 1, b - 1, e[:, a - 1], e[:, b - 1], adiabatic)
        else:
            # shear-type: adiabatic value := isothermal value, fed by isothermal dependencies
            eps = fictitious_strain(pair)
            T = numpy.asarray(self.frame(pair), float)
            lam = numpy.diag(T.T @ eps @ T)
            if not (numpy.allclose(T.T @ T, numpy.eye(3), atol=1e-10)
                    and numpy.allclose(T.T @ eps @ T, numpy.diag(lam), atol=1e-10)):
                raise ValueError(f"frame for {pair} is not an orthonormal eigenbasis")
            erot = numpy.stack([numpy.diag(T.T @ numpy.diag(row) @ T) for row in e])
            E_rot = 0.0
            for x, y in itertools.product(range(3), repeat=2):
                if abs(lam[x]) < 1e-9 or abs(lam[y]) < 1e-9:
                    continue
                E_rot = E_rot + 0.5 * lam[x] * lam[y] * self.value((x + 1, y + 1), erot, False)
            E_known = 0.0
            nz = [(i, j) for i in range(3) for j in range(3) if eps[i, j] != 0]
            for (i, j), (k, l) in itertools.product(nz, nz):
                p2 = vp(i, j, k, l)
                if p2 == pair:
                    continue
                E_known = E_known + 0.5 * eps[i, j] * eps[k, l] * self.value(p2, e, False)
            (i, j), (k, l) = V2S[a], V2S[b]
            out = 2 * (E_rot - E_known) / (eps[i, j] * eps[k, l]) / multiplicity(pair)
        self.cache[key] = out
        return out


def selftest():
    """closed forms against fph_ref (numerical differentiation of F at 40 digits)"""
    from mc.ref import fph_ref as F
    import math
    V0 = 300.0
    laws = [[None, None, None, (250.0, 1.1, 0.3), (610.0, -0.4, -0.7), (45.0, 2.0, 0.0)],
            [(333.0, 0.9, 0.5), (1400.0, 1.6, 0.2), (88.0, 0.0, 1.0), (500.0, 1.3, 0.0), (720.0, 0.7, -0.2), (950.0, 1.9, 0.9)]]
    w = [1.0, 3.0]
    t = numpy.array([0.0, 40.0, 900.0])
    v = numpy.array([270.0, 300.0, 345.0])
    x = numpy.log(v / V0)
    freq = numpy.zeros((3, 2, 6)); gam = numpy.zeros_like(freq); vdg = numpy.zeros_like(freq)
    for q in range(2):
        for m in range(6):
            if laws[q][m] is None:
                continue
            w0, g0, b = laws[q][m]
            freq[:, q, m] = w0 * numpy.exp(-g0 * x - 0.5 * b * x * x); gam[:, q, m] = g0 + b * x; vdg[:, q, m] = b
    sp = Spectrum(freq, gam, vdg, w, t, v, 2, numpy.zeros((3, 3)), numpy.ones((3, 3)))
    ok = True
    for a, T in enumerate(t):
        for c, Vv in enumerate(v):
            d = F.free_energy_derivatives(laws, w, V0, float(T), float(Vv))
            for name, got, s in (("P_zp", sp.P_zp[c], d["SP_zp"]), ("A_zp", sp.A_zp[c], d["SA_zp"]),
                                 ("P_th", sp.P_th[a, c], d["SP_th"]), ("A_th", sp.A_th[a, c], d["SA_th"]),
                                 ("dPdT", sp.G2[a, c] / Vv, d["SdPdT"])):
                ok &= abs(got - d[name]) <= 1e-9 * s + 1e-300
    return bool(ok)
