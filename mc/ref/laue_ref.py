"""Reference model for C08/C09: elastic tensors invariant under the rotations of the nine Laue classes.

Never imports cij.  Everything here is exact: rotation matrices are sympy matrices over Q(sqrt 3), the
21x21 action on the Voigt 21-vector, the Reynolds projector and every rank are computed in exact
arithmetic (sympy / fractions.Fraction).

Standard setting (stated in C08): principal axis z, two-fold axis x where present, unique axis y for
monoclinic.  Inversion acts trivially on a 4th-rank tensor (four factors of -1), so the proper rotations
of each Laue class suffice:

  system        Laue class   rotation group used   generators                         order
  triclinic     -1           1                     (none)                              1
  monoclinic    2/m          2                     C2(y)                               2
  orthorhombic  mmm          222                   C2(z), C2(x)                        4
  tetragonal7   4/m          4                     C4(z)                               4
  tetragonal6   4/mmm        422                   C4(z), C2(x)                        8
  trigonal7     -3           3                     C3(z)                               3
  trigonal6     -3m          32                    C3(z), C2(x)                        6
  hexagonal     6/mmm        622                   C6(z), C2(x)                        12
  cubic         m-3m         432                   C4(z), C3([111])                    24

(6/m, rotation group 6 of order 6, gives the same elastic tensor shape as 6/mmm; selftest() checks it.)

The 21 components are ordered as PAIRS21 = (1,1),(1,2),...,(6,6) (upper triangle of the Voigt matrix,
row-major), names c11, c12, ..., c66.  A rotation R acts by C'_abcd = R_ai R_bj R_ck R_dl C_ijkl; the
tensor is invariant under the group when C' = C for every element.
"""
from __future__ import annotations

import itertools
import re
from collections import deque
from fractions import Fraction
from functools import lru_cache

import sympy
from sympy import Rational, sqrt

SYSTEMS = ["triclinic", "monoclinic", "orthorhombic", "tetragonal7", "tetragonal6",
           "trigonal7", "trigonal6", "hexagonal", "cubic"]
EXPECTED_ORDER = {"triclinic": 1, "monoclinic": 2, "orthorhombic": 4, "tetragonal7": 4, "tetragonal6": 8,
                  "trigonal7": 3, "trigonal6": 6, "hexagonal": 12, "cubic": 24}
EXPECTED_DIM = {"triclinic": 21, "monoclinic": 13, "orthorhombic": 9, "tetragonal7": 7, "tetragonal6": 6,
                "trigonal7": 7, "trigonal6": 6, "hexagonal": 5, "cubic": 3}
EXPECTED_NONVANISHING = {"triclinic": 21, "monoclinic": 13, "orthorhombic": 9, "tetragonal7": 11,
                         "tetragonal6": 9, "trigonal7": 15, "trigonal6": 12, "hexagonal": 9, "cubic": 9}

V2S = {1: (0, 0), 2: (1, 1), 3: (2, 2), 4: (1, 2), 5: (0, 2), 6: (0, 1)}
S2V = {}
for _v, (_i, _j) in V2S.items():
    S2V[(_i, _j)] = _v
    S2V[(_j, _i)] = _v
PAIRS21 = [(a, b) for a in range(1, 7) for b in range(a, 7)]
NAMES = ["c%d%d" % p for p in PAIRS21]
INDEX = {n: k for k, n in enumerate(NAMES)}


class LaueRefError(Exception):
    """The reference model met something it does not understand (never a property violation)."""


# --------------------------------------------------------------------------- rotations

def _rz(c, s):
    return sympy.ImmutableMatrix([[c, -s, 0], [s, c, 0], [0, 0, 1]])


C2X = sympy.ImmutableMatrix([[1, 0, 0], [0, -1, 0], [0, 0, -1]])
C2Y = sympy.ImmutableMatrix([[-1, 0, 0], [0, 1, 0], [0, 0, -1]])
C2Z = _rz(-1, 0)
C4Z = _rz(0, 1)
C3Z = _rz(Rational(-1, 2), sqrt(3) / 2)
C6Z = _rz(Rational(1, 2), sqrt(3) / 2)
C3_111 = sympy.ImmutableMatrix([[0, 0, 1], [1, 0, 0], [0, 1, 0]])     # x -> y -> z -> x
C4X = sympy.ImmutableMatrix([[1, 0, 0], [0, 0, -1], [0, 1, 0]])

GENERATORS = {
    "triclinic": [],
    "monoclinic": [C2Y],
    "orthorhombic": [C2Z, C2X],
    "tetragonal7": [C4Z],
    "tetragonal6": [C4Z, C2X],
    "trigonal7": [C3Z],
    "trigonal6": [C3Z, C2X],
    "hexagonal": [C6Z, C2X],
    "cubic": [C4Z, C3_111],
}
# alternative generating sets used by selftest() only
ALT_GENERATORS = {
    "hexagonal-6/m": [C6Z],
    "cubic-4z4x": [C4Z, C4X],
}


def _canon(m):
    return sympy.ImmutableMatrix(m.applyfunc(lambda e: sympy.expand(e)))


def close_group(gens):
    """BFS closure: states = group elements, transitions = (element, generator) products.
    Returns (elements in BFS order, number of transitions)."""
    e = _canon(sympy.eye(3))
    seen = {e: 0}
    order = [e]
    frontier = deque([e])
    transitions = 0
    gens = [_canon(g) for g in gens]
    while frontier:
        g = frontier.popleft()
        for h in gens:
            transitions += 1
            p = _canon(h * g)
            if p not in seen:
                seen[p] = len(order)
                order.append(p)
                frontier.append(p)
                if len(order) > 48:
                    raise LaueRefError("group closure exceeded 48 elements: generators are not a point group")
    return order, transitions


@lru_cache(maxsize=None)
def group(system):
    if system not in GENERATORS and system not in ALT_GENERATORS:
        raise LaueRefError(f"unknown system {system!r}")
    gens = GENERATORS.get(system) if system in GENERATORS else ALT_GENERATORS[system]
    els, tr = close_group(gens)
    for g in els:   # proper rotations: g g^T = 1, det g = +1 (exact)
        if _canon(g * g.T) != _canon(sympy.eye(3)) or sympy.expand(g.det()) != 1:
            raise LaueRefError(f"{system}: closure produced a matrix that is not a proper rotation")
    return tuple(els), tr


# --------------------------------------------------------------------------- action on the 21-vector

def _orbit_tuples():
    """for each of the 21 components, one representative (i,j,k,l) and the index map (i,j,k,l)->component"""
    comp = {}
    for i, j, k, l in itertools.product(range(3), repeat=4):
        a, b = S2V[(i, j)], S2V[(k, l)]
        a, b = min(a, b), max(a, b)
        comp[(i, j, k, l)] = PAIRS21.index((a, b))
    rep = {}
    for t, q in sorted(comp.items()):
        rep.setdefault(q, t)
    return comp, rep


_COMP, _REP = _orbit_tuples()


def action_matrix(R):
    """Exact 21x21 matrix M with (C')_p = sum_q M[p,q] C_q for C'_abcd = R_ai R_bj R_ck R_dl C_ijkl."""
    nz = [[(i, R[a, i]) for i in range(3) if R[a, i] != 0] for a in range(3)]
    M = [[0] * 21 for _ in range(21)]
    for p in range(21):
        a, b, c, d = _REP[p]
        for (i, ra), (j, rb), (k, rc), (l, rd) in itertools.product(nz[a], nz[b], nz[c], nz[d]):
            M[p][_COMP[(i, j, k, l)]] += ra * rb * rc * rd
    return sympy.ImmutableMatrix(21, 21, lambda r, c: sympy.expand(M[r][c]))


@lru_cache(maxsize=None)
def actions(system):
    els, _ = group(system)
    return tuple(action_matrix(g) for g in els)


@lru_cache(maxsize=None)
def reynolds(system):
    """Group average of the action; exact.  Its entries are rational (the groups are closed under
    sqrt3 -> -sqrt3), which is asserted."""
    acts = actions(system)
    P = sympy.zeros(21, 21)
    for M in acts:
        P = P + M
    P = (P / len(acts)).applyfunc(sympy.expand)
    for e in P:
        if not e.is_Rational:
            raise LaueRefError(f"{system}: Reynolds projector has the irrational entry {e}")
    return sympy.ImmutableMatrix(P)


@lru_cache(maxsize=None)
def invariant_basis(system):
    """Reduced row echelon basis of the invariant subspace (= column space of the Reynolds projector):
    tuple of d rows, each a tuple of 21 Fractions; plus the tuple of pivot component indices.
    In this basis the coefficient of row k is the value of the pivot component k (independent parameter)."""
    P = reynolds(system)
    rref, piv = P.T.rref()
    d = len(piv)
    rows = tuple(tuple(Fraction(int(rref[r, c].p), int(rref[r, c].q)) for c in range(21)) for r in range(d))
    return rows, tuple(piv)


def dimension(system):
    return len(invariant_basis(system)[0])


@lru_cache(maxsize=None)
def nonvanishing(system):
    """indices of the components that are not identically zero on the invariant subspace"""
    rows, _ = invariant_basis(system)
    return tuple(j for j in range(21) if any(r[j] != 0 for r in rows))


def tensor_from_params(system, params):
    """Invariant 21-vector from the d independent parameters (values of the pivot components).
    params: sequence of d numbers (Fraction/float).  Returns a list of 21 numbers."""
    rows, piv = invariant_basis(system)
    if len(params) != len(rows):
        raise LaueRefError(f"{system}: {len(rows)} parameters expected, {len(params)} given")
    out = []
    for j in range(21):
        acc = 0
        for r, p in zip(rows, params):
            if r[j] != 0:
                acc = acc + (r[j] * p if isinstance(p, Fraction) else float(r[j]) * p)
        out.append(acc)
    return out


# --------------------------------------------------------------------------- sufficiency oracle

def _reduce(vec, echelon):
    """reduce vec (list of Fractions) against echelon [(pivot, vector)], return the reduced vector"""
    v = list(vec)
    for piv, b in echelon:
        if v[piv] != 0:
            f = v[piv]
            v = [x - f * y for x, y in zip(v, b)]
    return v


def subset_rank(system, subset):
    """rank of the coordinate projection of the invariant subspace onto the components in `subset`
    (iterable of component indices 0..20).  Exact (Fractions)."""
    rows, _ = invariant_basis(system)
    d = len(rows)
    echelon = []
    for j in sorted(set(subset)):
        col = [rows[r][j] for r in range(d)]
        v = _reduce(col, echelon)
        piv = next((i for i, x in enumerate(v) if x != 0), None)
        if piv is not None:
            f = v[piv]
            echelon.append((piv, [x / f for x in v]))
    return len(echelon)


def is_sufficient(system, subset):
    """S together with invariance determines the tensor  <=>  the projection onto S is injective on the
    invariant subspace  <=>  rank == dimension."""
    return subset_rank(system, subset) == dimension(system)


@lru_cache(maxsize=None)
def rank_table(system):
    """rank for EVERY subset of the non-vanishing components of `system`: bytes of length 2^n indexed by the
    bit mask over nonvanishing(system) (bit t <-> nonvanishing(system)[t]).  Depth-first search over the
    subset tree carrying the exact echelon form (states = subsets, transitions = 'add component t')."""
    nv = nonvanishing(system)
    n = len(nv)
    if n > 16:
        raise LaueRefError(f"{system}: 2^{n} subsets is not enumerated (use subset_rank on the subsets needed)")
    rows, _ = invariant_basis(system)
    d = len(rows)
    cols = [[rows[r][j] for r in range(d)] for j in nv]
    table = bytearray(1 << n)

    def rec(t, mask, echelon):
        if t == n:
            table[mask] = len(echelon)
            return
        rec(t + 1, mask, echelon)
        v = _reduce(cols[t], echelon)
        piv = next((i for i, x in enumerate(v) if x != 0), None)
        if piv is None:
            rec(t + 1, mask | (1 << t), echelon)
        else:
            f = v[piv]
            rec(t + 1, mask | (1 << t), echelon + [(piv, [x / f for x in v])])

    rec(0, 0, [])
    return bytes(table)


def mask_to_subset(system, mask):
    nv = nonvanishing(system)
    return [nv[t] for t in range(len(nv)) if mask >> t & 1]


def subset_to_mask(system, subset):
    nv = nonvanishing(system)
    m = 0
    for j in subset:
        m |= 1 << nv.index(j)
    return m


def minimal_sufficient_size(system):
    return dimension(system)


# --------------------------------------------------------------------------- own parser of relation files
#
# grammar actually present in the nine packaged files (and in the user-written files the checks generate):
#   line   := expr ('=' expr)+            a chain: every member equals the first
#   expr   := ['+'|'-'] term (('+'|'-') term)*
#   term   := factor (('*'|'/') factor)*
#   factor := NUMBER | SYMBOL | '(' expr ')' | '-' factor
#   SYMBOL := c[1-6][1-6] with first index <= second       NUMBER := digits ['.' digits]
# every expr must be LINEAR in the symbols (products need a constant factor, divisors must be non-zero
# constants).  Anything else raises LaueRefError.

_TOKEN = re.compile(r"\s*(?:(?P<num>\d+(?:\.\d+)?)|(?P<sym>[A-Za-z_][A-Za-z_0-9]*)|(?P<op>[-+*/()=]))")


def _tokenize(text, where):
    pos = 0
    out = []
    text = text.rstrip()
    while pos < len(text):
        m = _TOKEN.match(text, pos)
        if not m:
            raise LaueRefError(f"{where}: cannot tokenize at {text[pos:]!r}")
        pos = m.end()
        if m.group("num") is not None:
            out.append(("num", Fraction(m.group("num"))))
        elif m.group("sym") is not None:
            s = m.group("sym")
            if not re.fullmatch(r"c[1-6][1-6]", s) or s not in INDEX:
                raise LaueRefError(f"{where}: unknown symbol {s!r} (expected c11..c66 with first index <= second)")
            out.append(("sym", s))
        else:
            out.append(("op", m.group("op")))
    return out


class _Lin:
    """linear form: coefficients on the 21 symbols + constant"""
    __slots__ = ("co", "k")

    def __init__(self, co=None, k=Fraction(0)):
        self.co = dict(co or {})
        self.k = Fraction(k)

    def is_const(self):
        return all(v == 0 for v in self.co.values())

    def add(self, o, sign=1):
        co = dict(self.co)
        for s, v in o.co.items():
            co[s] = co.get(s, Fraction(0)) + sign * v
        return _Lin(co, self.k + sign * o.k)

    def scale(self, f):
        return _Lin({s: v * f for s, v in self.co.items()}, self.k * f)


class _Parser:
    def __init__(self, toks, where):
        self.t = toks
        self.i = 0
        self.where = where

    def peek(self):
        return self.t[self.i] if self.i < len(self.t) else (None, None)

    def take(self):
        tok = self.peek()
        self.i += 1
        return tok

    def expr(self):
        kind, val = self.peek()
        sign = 1
        if kind == "op" and val in "+-":
            self.take()
            sign = -1 if val == "-" else 1
        acc = self.term().scale(sign)
        while True:
            kind, val = self.peek()
            if kind == "op" and val in ("+", "-"):
                self.take()
                acc = acc.add(self.term(), 1 if val == "+" else -1)
            else:
                return acc

    def term(self):
        acc = self.factor()
        while True:
            kind, val = self.peek()
            if kind == "op" and val == "*":
                self.take()
                f = self.factor()
                if f.is_const():
                    acc = acc.scale(f.k)
                elif acc.is_const():
                    acc = f.scale(acc.k)
                else:
                    raise LaueRefError(f"{self.where}: product of two non-constant expressions (not linear)")
            elif kind == "op" and val == "/":
                self.take()
                f = self.factor()
                if not f.is_const() or f.k == 0:
                    raise LaueRefError(f"{self.where}: division by a non-constant or zero")
                acc = acc.scale(1 / f.k)
            else:
                return acc

    def factor(self):
        kind, val = self.take()
        if kind == "num":
            return _Lin(k=val)
        if kind == "sym":
            return _Lin({val: Fraction(1)})
        if kind == "op" and val == "-":
            return self.factor().scale(-1)
        if kind == "op" and val == "(":
            e = self.expr()
            kind, val = self.take()
            if not (kind == "op" and val == ")"):
                raise LaueRefError(f"{self.where}: missing ')'")
            return e
        raise LaueRefError(f"{self.where}: unexpected token {val!r}")


def parse_relations(text, where="<relations>"):
    """Relation text -> list of (coefficient row of 21 Fractions, source text).  Each chained equality
    `e0 = e1 = ... = ek` gives the k equations e0 - ei = 0.  Blank lines give nothing.
    Raises LaueRefError on anything outside the grammar, on non-linear input and on an inhomogeneous
    equation (a non-zero constant), because the statement is about linear subspaces."""
    eqs = []
    for ln, line in enumerate(text.splitlines(), 1):
        if not line.strip():
            continue
        w = f"{where}:{ln}"
        toks = _tokenize(line, w)
        parts, cur = [], []
        for tok in toks:
            if tok == ("op", "="):
                parts.append(cur)
                cur = []
            else:
                cur.append(tok)
        parts.append(cur)
        if len(parts) < 2 or any(not p for p in parts):
            raise LaueRefError(f"{w}: not a chained equality: {line!r}")
        forms = []
        for p in parts:
            ps = _Parser(p, w)
            f = ps.expr()
            if ps.i != len(p):
                raise LaueRefError(f"{w}: trailing tokens in {line!r}")
            forms.append(f)
        for f in forms[1:]:
            d = forms[0].add(f, -1)
            if d.k != 0:
                raise LaueRefError(f"{w}: inhomogeneous relation in {line!r}")
            row = [Fraction(0)] * 21
            for s, v in d.co.items():
                row[INDEX[s]] = v
            if all(x == 0 for x in row):
                raise LaueRefError(f"{w}: vacuous relation in {line!r}")
            eqs.append((tuple(row), line.strip()))
    return eqs


def relations_matrix(eqs):
    """sympy Matrix (m x 21, exact rationals) of the parsed equations (m may be 0)."""
    if not eqs:
        return sympy.zeros(0, 21)
    return sympy.Matrix([[Rational(x.numerator, x.denominator) for x in row] for row, _ in eqs])


def relations_nullspace(eqs):
    """basis (list of 21x1 sympy column vectors) of {x : A x = 0}; the whole space when there is no relation"""
    A = relations_matrix(eqs)
    if A.rows == 0:
        return [sympy.eye(21)[:, k] for k in range(21)]
    return A.nullspace()


def user_relations_text(system):
    """A user-written relations file equivalent to the correct relations of `system`, derived from the
    invariant subspace (NOT from the packaged files): one line per dependent component, expressed by the
    independent (pivot) components, last component first, e.g. `c66 = c11/2 - c12/2`, `c24 = -c14`, `0 = c16`."""
    rows, piv = invariant_basis(system)
    lines = []
    for j in reversed(range(21)):
        if j in piv:
            continue
        terms = []
        for r, p in zip(rows, piv):
            f = r[j]
            if f == 0:
                continue
            mag = abs(f)
            t = NAMES[p] if mag == 1 else (f"{NAMES[p]}/{mag.denominator}" if mag.numerator == 1
                                           else f"{mag.numerator}*{NAMES[p]}/{mag.denominator}")
            terms.append(("-" if f < 0 else "+", t))
        if not terms:
            lines.append(f"0 = {NAMES[j]}")
        else:
            s = ("-" if terms[0][0] == "-" else "") + terms[0][1]
            for sg, t in terms[1:]:
                s += f" {sg} {t}"
            lines.append(f"{NAMES[j]} = {s}")
    return "\n".join(lines) + ("\n" if lines else "")


# --------------------------------------------------------------------------- selftest

def selftest(verbose=False):
    ok = True

    def chk(cond, what):
        nonlocal ok
        if not cond:
            ok = False
            print("laue_ref selftest FAILED:", what)
        elif verbose:
            print("ok:", what)

    I21 = sympy.eye(21)
    for s in SYSTEMS:
        els, tr = group(s)
        chk(len(els) == EXPECTED_ORDER[s], f"{s}: group order {len(els)} == {EXPECTED_ORDER[s]}")
        chk(tr == len(els) * len(GENERATORS[s]), f"{s}: BFS transitions")
        # closed under products and inverses (transpose)
        elset = set(els)
        chk(all(_canon(a * b) in elset for a in els for b in els), f"{s}: closed under products")
        chk(all(_canon(a.T) in elset for a in els), f"{s}: closed under inverses")
        acts = actions(s)
        # representation property on generators x elements
        gens = [_canon(g) for g in GENERATORS[s]]
        for g in gens:
            Mg = action_matrix(g)
            for a, Ma in list(zip(els, acts))[:6]:
                chk((Mg * Ma).applyfunc(sympy.expand) == action_matrix(_canon(g * a)), f"{s}: M(g a) == M(g) M(a)")
        P = reynolds(s)
        chk((P * P) == P, f"{s}: projector idempotent")
        chk(all((M * P).applyfunc(sympy.expand) == P for M in acts), f"{s}: M(g) P == P")
        chk(P.rank() == EXPECTED_DIM[s] and P.trace() == EXPECTED_DIM[s], f"{s}: dimension {P.rank()}")
        rows, piv = invariant_basis(s)
        chk(len(rows) == EXPECTED_DIM[s], f"{s}: basis size")
        for r in rows:
            v = sympy.Matrix([Rational(x.numerator, x.denominator) for x in r])
            chk(all((M * v).applyfunc(sympy.expand) == v for M in acts), f"{s}: basis vector invariant")
        chk(len(nonvanishing(s)) == EXPECTED_NONVANISHING[s], f"{s}: non-vanishing count {len(nonvanishing(s))}")
    # action against a direct full-tensor rotation of a generic integer tensor (independent formula: explicit
    # 3x3x3x3 array, all 81 components)
    gen = [Rational(7 * k * k + 3 * k + 11, 1) for k in range(21)]
    for R in (C6Z, C3_111, C2Y, _canon(C4X * C3Z)):
        C = {t: gen[q] for t, q in _COMP.items()}
        Cp = {}
        for a, b, c, d in itertools.product(range(3), repeat=4):
            Cp[(a, b, c, d)] = sympy.expand(sum(R[a, i] * R[b, j] * R[c, k] * R[d, l] * C[(i, j, k, l)]
                                                for i, j, k, l in itertools.product(range(3), repeat=4)
                                                if R[a, i] != 0 and R[b, j] != 0 and R[c, k] != 0 and R[d, l] != 0))
        # the rotated tensor keeps the minor/major symmetries, and agrees with the 21x21 action
        chk(all(Cp[t] == Cp[_REP[q]] for t, q in _COMP.items()), "rotated tensor keeps the index symmetries")
        v = (action_matrix(R) * sympy.Matrix(gen)).applyfunc(sympy.expand)
        chk(all(v[q] == Cp[_REP[q]] for q in range(21)), "21x21 action == explicit rotation")
    # same tensor shape from alternative generators
    for alt, s in (("hexagonal-6/m", "hexagonal"), ("cubic-4z4x", "cubic")):
        els, _ = group(alt)
        chk(len(els) == (6 if alt.startswith("hex") else 24), f"{alt}: order {len(els)}")
        chk(reynolds(alt) == reynolds(s), f"{alt}: same projector as {s}")
    # textbook shapes (hand-written, independent of the machinery above)
    def vec(d):
        return tuple(Fraction(d.get(n, 0)) for n in NAMES)
    hexa = [vec({"c11": 1, "c22": 1, "c66": Fraction(1, 2)}), vec({"c12": 1, "c66": Fraction(-1, 2)}),
            vec({"c13": 1, "c23": 1}), vec({"c33": 1}), vec({"c44": 1, "c55": 1})]
    chk(sorted(invariant_basis("hexagonal")[0]) == sorted(hexa), "hexagonal basis == textbook")
    cub = [vec({"c11": 1, "c22": 1, "c33": 1}), vec({"c12": 1, "c13": 1, "c23": 1}), vec({"c44": 1, "c55": 1, "c66": 1})]
    chk(sorted(invariant_basis("cubic")[0]) == sorted(cub), "cubic basis == textbook")
    tri7 = hexa + [vec({"c14": 1, "c24": -1, "c56": 1}), vec({"c15": 1, "c25": -1, "c46": -1})]
    chk(sorted(invariant_basis("trigonal7")[0]) == sorted(tri7), "trigonal7 basis == textbook (c14=-c24=c56, c15=-c25=-c46)")
    tet7 = [vec({"c11": 1, "c22": 1}), vec({"c12": 1}), vec({"c13": 1, "c23": 1}), vec({"c33": 1}),
            vec({"c44": 1, "c55": 1}), vec({"c66": 1}), vec({"c16": 1, "c26": -1})]
    chk(sorted(invariant_basis("tetragonal7")[0]) == sorted(tet7), "tetragonal7 basis == textbook (c16=-c26)")
    mono_nv = {"c11", "c12", "c13", "c15", "c22", "c23", "c25", "c33", "c35", "c44", "c46", "c55", "c66"}
    chk({NAMES[j] for j in nonvanishing("monoclinic")} == mono_nv, "monoclinic (unique axis y) non-vanishing set")
    # sufficiency: hand counts (cubic: one of each class: 7^3; hexagonal 1*3*3*10; tetragonal6 27; trigonal6 90*7)
    def count(s):
        t = rank_table(s)
        d = dimension(s)
        return sum(1 for r in t if r == d)
    chk(count("cubic") == 343, "cubic sufficient subsets 343")
    chk(count("hexagonal") == 90, "hexagonal sufficient subsets 90")
    chk(count("tetragonal6") == 27, "tetragonal6 sufficient subsets 27")
    chk(count("tetragonal7") == 81, "tetragonal7 sufficient subsets 81")
    chk(count("trigonal6") == 630, "trigonal6 sufficient subsets 630")
    chk(count("orthorhombic") == 1 and count("monoclinic") == 1, "orthorhombic/monoclinic: only the full set")
    # rank table against sympy's rank on a stride of masks
    for s in ("hexagonal", "trigonal7"):
        rows, _ = invariant_basis(s)
        B = sympy.Matrix([[Rational(x.numerator, x.denominator) for x in r] for r in rows])
        t = rank_table(s)
        for mask in range(1, len(t), max(1, len(t) // 37)):
            S = mask_to_subset(s, mask)
            chk(B[:, S].rank() == t[mask] == subset_rank(s, S), f"{s}: rank of mask {mask}")
    chk(is_sufficient("triclinic", range(21)) and not is_sufficient("triclinic", range(20)), "triclinic sufficiency")
    # parser: grammar and loud failures
    eqs = parse_relations("c14 = -c24 = c56\nc66 = (c11 - c12) / 2\nc16 = c26 = 0\n\n")
    chk(len(eqs) == 5, "parser: 5 equations")
    want = [{"c14": 1, "c24": 1}, {"c14": 1, "c56": -1}, {"c66": 1, "c11": Fraction(-1, 2), "c12": Fraction(1, 2)},
            {"c16": 1, "c26": -1}, {"c16": 1}]
    chk([r for r, _ in eqs] == [vec(w) for w in want], "parser: coefficients")
    chk([r for r, _ in parse_relations("2*c66 = c11 - c12\n0 = c16\nc24 = -c14\nc66 = c11/2 - 0.5*c12")] ==
        [vec({"c66": 2, "c11": -1, "c12": 1}), vec({"c16": -1}), vec({"c24": 1, "c14": 1}),
         vec({"c66": 1, "c11": Fraction(-1, 2), "c12": Fraction(1, 2)})], "parser: user spellings")
    for bad in ("c11 = c77", "c11 = c21", "c11", "c11 = ", "c11 = c12 * c13", "c11 = 1", "c11 = c12 / c13",
                "c11 = sqrt(c12)", "c11 == c12", "c11 = c12 ^ 2", "c11 = (c12", "c11 = c11", "C11 = c22", "c11 = c12 # x"):
        try:
            parse_relations(bad)
            chk(False, f"parser accepts {bad!r}")
        except LaueRefError:
            pass
    # user-written text is equivalent to the invariant subspace
    for s in SYSTEMS:
        eqs = parse_relations(user_relations_text(s), f"user:{s}")
        ns = relations_nullspace(eqs)
        chk(len(ns) == EXPECTED_DIM[s], f"{s}: user relations nullity")
        A = relations_matrix(eqs)
        rows, _ = invariant_basis(s)
        if A.rows:
            chk(all((A * sympy.Matrix([Rational(x.numerator, x.denominator) for x in r])).is_zero_matrix for r in rows),
                f"{s}: invariant basis satisfies the user relations")
    return ok


if __name__ == "__main__":
    import sys
    import time
    t0 = time.time()
    r = selftest(verbose="-v" in sys.argv)
    print("laue_ref selftest", "ok" if r else "FAILED", f"{time.time() - t0:.1f}s")
    for s in SYSTEMS:
        print(s, "order", len(group(s)[0]), "dim", dimension(s), "nonvanishing", [NAMES[j] for j in nonvanishing(s)],
              "pivots", [NAMES[j] for j in invariant_basis(s)[1]])
