"""Reference for C01/C02/C12: the vibrational free energy itself, differentiated numerically at
40 digits (mpmath).  No closed-form derivative is written down here: P_ph, A and dP/dT come from
mp.diff of  F_ph(T,V) = sum_q w_q sum_m [ hc w/2 + k_B T ln(1 - exp(-hc w / k_B T)) ].

Units: frequencies in cm^-1, volumes in bohr^3, energies in Rydberg.  hc and k_B are built by hand from
CODATA h, c, k and the Rydberg energy in joule (scipy.constants); nothing is taken from cij or pint.
Mode law (analytic so that gamma and V dgamma/dV are exact):
    ln w(V) = ln w0 - g0*x - b*x^2/2,  x = ln(V/V0)   =>  gamma = g0 + b*x,  V dgamma/dV = b
"""
from functools import lru_cache

import mpmath as mp
from scipy import constants as sc

mp.mp.dps = 40

_RY_J = mp.mpf(repr(sc.physical_constants["Rydberg constant times hc in J"][0]))
HC = mp.mpf(repr(sc.h)) * mp.mpf(repr(sc.c)) * 100 / _RY_J      # Ry per cm^-1
KB = mp.mpf(repr(sc.k)) / _RY_J                                    # Ry per K


def omega(w0, g0, b, V0, V):
    x = mp.log(mp.mpf(V) / V0)
    return mp.mpf(w0) * mp.exp(-mp.mpf(g0) * x - mp.mpf(b) * x * x / 2)


def f_zp(w0, g0, b, V0, V):
    return HC * omega(w0, g0, b, V0, V) / 2


def f_th(w0, g0, b, V0, T, V):
    T = mp.mpf(T)
    if T == 0:
        return mp.mpf(0)
    return KB * T * mp.log1p(-mp.exp(-HC * omega(w0, g0, b, V0, V) / (KB * T)))


@lru_cache(maxsize=None)
def mode_terms(w0, g0, b, V0, T, V):
    """Per-mode derivative terms at (T,V) as floats:
    (dFzp/dV, d2Fzp/dV2, dFth/dV, d2Fth/dV2, d2Fth/dTdV)"""
    Vm = mp.mpf(V)
    z1 = mp.diff(lambda v: f_zp(w0, g0, b, V0, v), Vm, 1)
    z2 = mp.diff(lambda v: f_zp(w0, g0, b, V0, v), Vm, 2)
    if T == 0:
        t1 = t2 = t12 = mp.mpf(0)
    else:
        t1 = mp.diff(lambda v: f_th(w0, g0, b, V0, T, v), Vm, 1)
        t2 = mp.diff(lambda v: f_th(w0, g0, b, V0, T, v), Vm, 2)
        t12 = mp.diff(lambda t, v: f_th(w0, g0, b, V0, t, v), (mp.mpf(T), Vm), (1, 1))
    return tuple(float(x) for x in (z1, z2, t1, t2, t12))


def free_energy_derivatives(modes, weights, V0, T, V):
    """modes[q][m] = (w0, g0, b) or None for an excluded (Gamma acoustic) mode; weights[q] > 0.
    Returns dict of floats: P_zp, A_zp, P_th, A_th, dPdT (all per cell, Rydberg atomic units)."""
    W = sum(weights)
    acc = [0.0] * 5
    ab = [0.0] * 5
    for q, row in enumerate(modes):
        wq = weights[q] / W
        for m in row:
            if m is None:
                continue
            t = mode_terms(float(m[0]), float(m[1]), float(m[2]), float(V0), float(T), float(V))
            # thermal terms carry a relative error ~Q*d for a relative error d in hc/k_B: weight by max(1,Q)
            qf = 1.0
            if T > 0:
                qf = max(1.0, float(HC * omega(m[0], m[1], m[2], V0, V) / (KB * mp.mpf(T))))
            for i in range(5):
                acc[i] += wq * t[i]
                ab[i] += wq * abs(t[i]) * (qf if i >= 2 else 1.0)
    z1, z2, t1, t2, t12 = acc
    P_zp, P_th = -z1, -t1
    # S_*: sums of absolute per-mode contributions (thermal ones weighted by max(1,Q)) = scale for error propagation
    return {"P_zp": P_zp, "A_zp": V * z2 - P_zp, "P_th": P_th, "A_th": V * t2 - P_th, "dPdT": -t12,
            "SP_zp": ab[0], "SA_zp": V * ab[1] + ab[0], "SP_th": ab[2], "SA_th": V * ab[3] + ab[2], "SdPdT": ab[4]}


def selftest():
    """Numeric derivatives against textbook closed forms (which cij is *not* compared with)."""
    ok = True
    for (w0, g0, b, T, V) in [(300.0, 1.3, 0.4, 300.0, 310.0), (1500.0, -0.5, 0.0, 2.0, 280.0), (30.0, 0.0, 1.0, 5000.0, 300.0)]:
        V0 = 300.0
        z1, z2, t1, t2, t12 = mode_terms(w0, g0, b, V0, T, V)
        w = float(omega(w0, g0, b, V0, V))
        x = float(mp.log(mp.mpf(V) / V0))
        g = g0 + b * x
        hc, kb = float(HC), float(KB)
        Q = hc * w / (kb * T)
        import math
        n = 1.0 / math.expm1(Q) if Q < 600 else 0.0
        ok &= abs(z1 - (-hc * w * g / (2 * V))) <= 1e-12 * abs(z1) + 1e-30
        ok &= abs(t1 - (-hc * w * g * n / V)) <= 1e-10 * abs(t1) + 1e-30
        # d/dT of P_th = hc w g n / V  ->  (k/V) g Q^2 e^Q/(e^Q-1)^2
        q2 = Q * Q * math.exp(Q) * n * n if Q < 600 else Q * Q * math.exp(-Q)
        ok &= abs(-t12 - kb * g * q2 / V) <= 1e-10 * abs(t12) + 1e-30
    return bool(ok)
