"""Reference readers/writers for the text files cij exchanges with the outside world.
Written from the shipped examples and the property statements; never imports cij.

Sections
  1. column-name -> canonical Voigt pair
  2. phonon data file ("input01"): parser
  3. static table ("input02" / elast.dat): writer + parser
  4. what a symmetry fill of a static table must contain (per crystal system)
(Other property modules add their own sections below: output tables, matdyn files, ...)

Everything is deliberately boring: line by line, whitespace split, float(token).
A layout the parser does not understand raises FormatError (never guessed around).
"""
from __future__ import annotations

import re

# =========================================================================== 1. Voigt keys

V2S = {1: (1, 1), 2: (2, 2), 3: (3, 3), 4: (2, 3), 5: (1, 3), 6: (1, 2)}
S2V = {}
for _v, (_i, _j) in V2S.items():
    S2V[(_i, _j)] = _v
    S2V[(_j, _i)] = _v

VOIGT_PAIRS = [(a, b) for a in range(1, 7) for b in range(a, 7)]      # the 21, Voigt order


class FormatError(Exception):
    """The text is not in the layout this reference understands."""


def voigt_key(name: str):
    """Canonical Voigt pair (a <= b) of a column name such as c11, C11, c_11, C1123, c21;
    None for a name that carries no index digits (e.g. "V")."""
    m = re.fullmatch(r"[^0-9]*([0-9]+)", name.strip())
    if not m:
        return None
    d = [int(ch) for ch in m.group(1)]
    if len(d) == 2:
        a, b = d
        if not (1 <= a <= 6 and 1 <= b <= 6):
            raise FormatError(f"Voigt index out of range in {name!r}")
    elif len(d) == 4:
        try:
            a, b = S2V[(d[0], d[1])], S2V[(d[2], d[3])]
        except KeyError:
            raise FormatError(f"standard index out of range in {name!r}")
    else:
        raise FormatError(f"{name!r}: expected 2 or 4 index digits")
    return (min(a, b), max(a, b))


def name_2digit(pair, prefix="c"):
    return f"{prefix}{pair[0]}{pair[1]}"


def name_4digit(pair, prefix="C", variant=0):
    """4-digit spelling of a Voigt pair. variant 0: canonical (ij kl, i<=j, k<=l, first pair first);
    variant 1: both index pairs reversed and the two pairs swapped (same component by the minor and
    major symmetries)."""
    (i, j), (k, l) = V2S[pair[0]], V2S[pair[1]]
    if variant == 0:
        return f"{prefix}{i}{j}{k}{l}"
    return f"{prefix}{l}{k}{j}{i}"


# =========================================================================== 2. phonon data file

_INT5 = re.compile(r"^\s*(\d+)\s+(\d+)\s+(\d+)\s+(\d+)\s+(\d+)\s*$")
_LABELLED = re.compile(r"([A-Za-z])\s*=\s*(\S+)")


def parse_phonon(text: str) -> dict:
    """Parse the phonon data file.  Layout: free comment lines; the first line made of exactly five
    non-negative integers is `nv nq np nm na`; then per volume a line with `P= .. V= .. E= ..`
    (read by label, any order), then per q-point one line with three coordinates followed by np lines
    with one frequency each; then a line `weight` (or `weights`) followed by nq lines `x y z w`.
    Blank lines are allowed between blocks only.  Anything but blank lines after the last weight line
    is an error."""
    lines = text.splitlines()
    pos = 0
    n = len(lines)

    def nxt(what, skip_blank=False):
        nonlocal pos
        while pos < n:
            ln = lines[pos]
            pos += 1
            if skip_blank and ln.strip() == "":
                continue
            return ln
        raise FormatError(f"end of file while reading {what}")

    hdr = None
    while pos < n:
        m = _INT5.match(lines[pos])
        pos += 1
        if m:
            hdr = tuple(int(g) for g in m.groups())
            break
    if hdr is None:
        raise FormatError("no `nv nq np nm na` line")
    nv, nq, np_, nm, na = hdr
    labels_line = lines[pos - 2].split() if pos >= 2 else []

    volumes = []
    for iv in range(nv):
        ln = nxt(f"P/V/E line of volume {iv}", skip_blank=True)
        found = dict((k.upper(), v) for k, v in _LABELLED.findall(ln))
        if set(found) != {"P", "V", "E"} or len(_LABELLED.findall(ln)) != 3:
            raise FormatError(f"volume {iv}: expected P= V= E= on {ln!r}")
        try:
            P, V, E = float(found["P"]), float(found["V"]), float(found["E"])
        except ValueError:
            raise FormatError(f"volume {iv}: non-numeric P/V/E on {ln!r}")
        qs = []
        for iq in range(nq):
            ln = nxt(f"coordinates of q-point {iq} of volume {iv}")
            w = ln.split()
            if len(w) != 3:
                raise FormatError(f"volume {iv} q {iq}: expected 3 coordinates on {ln!r}")
            coord = [float(x) for x in w]
            modes = []
            for im in range(np_):
                ln = nxt(f"frequency {im} of q-point {iq} of volume {iv}")
                w = ln.split()
                if len(w) != 1:
                    raise FormatError(f"volume {iv} q {iq} mode {im}: expected one number on {ln!r}")
                modes.append(float(w[0]))
            qs.append({"coord": coord, "modes": modes})
        volumes.append({"P": P, "V": V, "E": E, "q": qs})

    ln = nxt("weight keyword", skip_blank=True)
    if ln.strip().lower() not in ("weight", "weights"):
        raise FormatError(f"expected `weight`, found {ln!r}")
    weights = []
    for iq in range(nq):
        ln = nxt(f"weight line {iq}")
        w = ln.split()
        if len(w) != 4:
            raise FormatError(f"weight {iq}: expected `x y z w` on {ln!r}")
        weights.append({"coord": [float(x) for x in w[:3]], "w": float(w[3])})
    rest = [l for l in lines[pos:] if l.strip() != ""]
    if rest:
        raise FormatError(f"{len(rest)} unexpected non-blank line(s) after the weights, first {rest[0]!r}")
    return {"nv": nv, "nq": nq, "np": np_, "nm": nm, "na": na, "volumes": volumes, "weights": weights,
            "labels_line": labels_line}


# =========================================================================== 3. static table

LATTICE_HEADER = "lattice_a lattice_b lattice_c"
# The block is introduced by ONE non-blank line; nothing says how it is spelled (the shipped files differ in
# blanks around it already).  Spellings a user may write; none is numeric (a numeric line would be a table row).
LATTICE_HEADERS = [None,                                  # the spelling of the chosen shipped layout
                   "LATTICE_A LATTICE_B LATTICE_C", "a b c", "# lattice parameters (bohr)", "Lattice parameters:"]

# the three presentations found in the shipped files
LAYOUTS = {
    # single blanks, LF
    "plain": {"sep": " ", "lead": "", "trail": "", "eol": "\n", "lat_header": LATTICE_HEADER, "lat_trail": ""},
    # examples/akimotoite/input02: runs of blanks, header of the lattice block with blanks around it,
    # a blank at the end of lattice rows
    "padded": {"sep": "   ", "lead": " ", "trail": "", "eol": "\n", "lat_header": " " + LATTICE_HEADER + " ",
               "lat_trail": " "},
    # examples/diopside/input02, docs elast.dat: CRLF, tabs between and after the numbers
    "crlf-tabs": {"sep": "\t", "lead": "", "trail": "", "eol": "\r\n",
                  "lat_header": "lattice_a       lattice_b       lattice_c", "lat_trail": "\t\t\t"},
}


def write_static(title, vref, nv, cellmass, colnames, rows, lattice=None, layout="plain",
                 final_eol=True, lattice_header=None) -> str:
    """Text of a static table.  All numbers are passed as *strings* (the tabulated text), so that the
    expected parse is float(text) of exactly what is on the page.
    colnames: ["V", "c11", ...]; rows: nv lists of len(colnames) strings; lattice: None or nv lists of 3."""
    L = LAYOUTS[layout]
    if len(rows) != int(nv) or any(len(r) != len(colnames) for r in rows):
        raise ValueError("rows do not match nv / column names")
    out = [str(title), f"{vref} {nv} {cellmass}", " ".join(colnames)]
    for r in rows:
        out.append(L["lead"] + L["sep"].join(r) + L["trail"])
    if lattice is not None:
        if len(lattice) != int(nv) or any(len(r) != 3 for r in lattice):
            raise ValueError("lattice block does not match nv")
        out.append(L["lat_header"] if lattice_header is None else lattice_header)
        for r in lattice:
            out.append(L["lead"] + L["sep"].join(r) + L["lat_trail"])
    text = L["eol"].join(out)
    return text + (L["eol"] if final_eol else "")


def parse_static(text: str) -> dict:
    """Parse a static table: line 1 title; line 2 `vref nv cellmass`; line 3 column names (first is
    the volume column); nv rows with one number per column; then either nothing (blank lines) or a
    lattice block = one non-blank header line + nv rows of three numbers; then only blank lines.
    Returns the numbers and, for verbatim comparisons, the raw lines of each block (line terminators
    removed, everything else untouched)."""
    lines = text.splitlines()
    if len(lines) < 3:
        raise FormatError("fewer than 3 lines")
    f = lines[1].split()
    if len(f) < 3:
        raise FormatError(f"second line needs `vref nv cellmass`: {lines[1]!r}")
    try:
        vref, nv, cellmass = float(f[0]), int(f[1]), float(f[2])
    except ValueError:
        raise FormatError(f"second line not numeric: {lines[1]!r}")
    names = lines[2].split()
    if len(names) < 2:
        raise FormatError(f"column line needs a volume column and at least one component: {lines[2]!r}")
    keys = [voigt_key(x) for x in names[1:]]
    if any(k is None for k in keys):
        raise FormatError(f"component column without index digits in {names!r}")
    if len(set(keys)) != len(keys):
        raise FormatError(f"two columns name the same component: {names!r}")
    if len(lines) < 3 + nv:
        raise FormatError(f"{nv} rows announced, {len(lines) - 3} lines present")
    volumes, rows, row_tokens = [], [], []
    for i in range(nv):
        w = lines[3 + i].split()
        if len(w) != len(names):
            raise FormatError(f"row {i}: {len(w)} fields for {len(names)} columns: {lines[3 + i]!r}")
        try:
            x = [float(t) for t in w]
        except ValueError:
            raise FormatError(f"row {i}: non-numeric field in {lines[3 + i]!r}")
        volumes.append(x[0])
        rows.append(dict(zip(keys, x[1:])))
        row_tokens.append(w)
    pos = 3 + nv
    rest = lines[pos:]
    lattice, lattice_lines = [], []
    if any(l.strip() != "" for l in rest):
        if rest[0].strip() == "":
            raise FormatError("blank line between the table and the lattice block")
        try:
            [float(t) for t in rest[0].split()]
            numeric_header = True
        except ValueError:
            numeric_header = False
        if numeric_header:
            raise FormatError(f"more numeric rows than nv={nv}: {rest[0]!r}")
        if len(rest) < 1 + nv:
            raise FormatError("lattice block shorter than nv rows")
        for i in range(nv):
            w = rest[1 + i].split()
            if len(w) != 3:
                raise FormatError(f"lattice row {i}: expected 3 numbers: {rest[1 + i]!r}")
            lattice.append(tuple(float(t) for t in w))
        lattice_lines = rest[:1 + nv]
        tail = [l for l in rest[1 + nv:] if l.strip() != ""]
        if tail:
            raise FormatError(f"unexpected text after the lattice block: {tail[0]!r}")
    return {"title": lines[0], "header_lines": lines[:2], "vref": vref, "nv": nv, "cellmass": cellmass,
            "vname": names[0], "names": names[1:], "keys": keys, "volumes": volumes, "rows": rows,
            "row_tokens": row_tokens, "lattice": lattice, "lattice_lines": lattice_lines,
            "rest_lines": rest}


def printed_half_unit(token: str) -> float:
    """Half a unit in the last printed digit of a decimal or scientific literal."""
    t = token.strip().lower()
    exp = 0
    if "e" in t:
        t, e = t.split("e")
        exp = int(e)
    dec = len(t.split(".")[1]) if "." in t else 0
    return 0.5 * 10.0 ** (exp - dec)


# =========================================================================== 4. symmetry fill

# Independent components per crystal system (conventional setting of the packaged relations:
# monoclinic with unique axis b) and the dependent ones as linear forms of the independent ones.
# Every component not listed is zero by symmetry.  Source: the meaning of the relations (Nye's
# tables), not the packaged files.
_P = lambda s: (int(s[0]), int(s[1]))  # noqa: E731


def _pairs(s):
    return [_P(x) for x in s.split()]


_HEX_DEP = {(2, 2): [(1.0, (1, 1))], (2, 3): [(1.0, (1, 3))], (5, 5): [(1.0, (4, 4))]}
_C66 = {(6, 6): [(0.5, (1, 1)), (-0.5, (1, 2))]}
_TRIG6 = {(2, 4): [(-1.0, (1, 4))], (5, 6): [(1.0, (1, 4))]}
_TRIG7 = {(2, 5): [(-1.0, (1, 5))], (4, 6): [(-1.0, (1, 5))]}

SYSTEMS = {
    "triclinic": {"independent": list(VOIGT_PAIRS), "dependent": {}},
    "monoclinic": {"independent": _pairs("11 12 13 15 22 23 25 33 35 44 46 55 66"), "dependent": {}},
    "orthorhombic": {"independent": _pairs("11 12 13 22 23 33 44 55 66"), "dependent": {}},
    "tetragonal7": {"independent": _pairs("11 12 13 16 33 44 66"),
                    "dependent": {**_HEX_DEP, (2, 6): [(-1.0, (1, 6))]}},
    "tetragonal6": {"independent": _pairs("11 12 13 33 44 66"), "dependent": dict(_HEX_DEP)},
    "trigonal7": {"independent": _pairs("11 12 13 14 15 33 44"),
                  "dependent": {**_HEX_DEP, **_C66, **_TRIG6, **_TRIG7}},
    "trigonal6": {"independent": _pairs("11 12 13 14 33 44"), "dependent": {**_HEX_DEP, **_C66, **_TRIG6}},
    "hexagonal": {"independent": _pairs("11 12 13 33 44"), "dependent": {**_HEX_DEP, **_C66}},
    "cubic": {"independent": _pairs("11 12 44"),
              "dependent": {(2, 2): [(1.0, (1, 1))], (3, 3): [(1.0, (1, 1))], (1, 3): [(1.0, (1, 2))],
                            (2, 3): [(1.0, (1, 2))], (5, 5): [(1.0, (4, 4))], (6, 6): [(1.0, (4, 4))]}},
}


def fill_reference(system: str, given: dict) -> dict:
    """All 21 components of the tensor of `system` whose independent components are in `given`
    ({pair: value}); components that vanish by symmetry are returned as 0.0."""
    S = SYSTEMS[system]
    missing = [p for p in S["independent"] if p not in given]
    if missing:
        raise ValueError(f"{system}: independent components missing: {missing}")
    full = {p: 0.0 for p in VOIGT_PAIRS}
    for p in S["independent"]:
        full[p] = float(given[p])
    for p, form in S["dependent"].items():
        full[p] = sum(c * float(given[q]) for c, q in form)
    return full


def nonzero_pairs(system: str):
    S = SYSTEMS[system]
    return sorted(set(S["independent"]) | set(S["dependent"]))


def fill_lsq(system: str, tabulated: dict):
    """The symmetry fill of a table row whose tabulated components may OVER-determine the relations of
    `system` and disagree with them slightly: the least-squares compromise between
        one equation  x_p = value        per tabulated component, and
        one equation  x_p - sum c*x_q = 0  per dependent component (SYSTEMS[system]["dependent"]),
        one equation  x_p = 0            per component that vanishes by symmetry,
    all with weight one (every relation written with coefficient one on its dependent component).
    This is the operation `fill` documents ("disagreement allowed between the input components and
    the constraints"): it is NOT the orthogonal projection onto the invariant subspace -- relations
    that involve tabulated components stay violated by a fraction of the input disagreement.
    For consistent input it equals fill_reference.  Returns ({pair: value} for all 21, sum of squared residuals)."""
    import numpy
    S = SYSTEMS[system]
    idx = {p: k for k, p in enumerate(VOIGT_PAIRS)}
    rows, rhs = [], []
    for p, val in tabulated.items():
        r = numpy.zeros(21)
        r[idx[p]] = 1.0
        rows.append(r)
        rhs.append(float(val))
    nz = set(S["independent"]) | set(S["dependent"])
    for p, form in S["dependent"].items():
        r = numpy.zeros(21)
        r[idx[p]] = 1.0
        for c, q in form:
            r[idx[q]] -= c
        rows.append(r)
        rhs.append(0.0)
    for p in VOIGT_PAIRS:
        if p not in nz:
            r = numpy.zeros(21)
            r[idx[p]] = 1.0
            rows.append(r)
            rhs.append(0.0)
    a, b = numpy.array(rows), numpy.array(rhs)
    x, _, rank, _ = numpy.linalg.lstsq(a, b, rcond=None)
    if rank < 21:
        raise ValueError(f"{system}: tabulated components {sorted(tabulated)} do not determine the tensor")
    return {p: float(x[idx[p]]) for p in VOIGT_PAIRS}, float(numpy.sum((a @ x - b) ** 2))
