"""Reference tensor algebra (C03, C07, C08, C18): full 3x3x3x3 tensors, rotation, Voigt<->tensor with
the 1/2/4 compliance factors, Voigt/Reuss/Hill averages from C_iijj, C_ijij, S_iijj, S_ijij.
Never imports cij."""
import itertools

import numpy

V2S = {1: (0, 0), 2: (1, 1), 3: (2, 2), 4: (1, 2), 5: (0, 2), 6: (0, 1)}
S2V = {}
for _v, (_i, _j) in V2S.items():
    S2V[(_i, _j)] = _v
    S2V[(_j, _i)] = _v
PAIRS21 = [(a, b) for a in range(1, 7) for b in range(a, 7)]


def full_from_voigt(c6):
    """6x6 symmetric stiffness (Voigt) -> C[i,j,k,l]"""
    C = numpy.zeros((3, 3, 3, 3))
    for i, j, k, l in itertools.product(range(3), repeat=4):
        C[i, j, k, l] = c6[S2V[(i, j)] - 1, S2V[(k, l)] - 1]
    return C


def voigt_from_full(C):
    c6 = numpy.zeros((6, 6))
    for a in range(1, 7):
        for b in range(1, 7):
            i, j = V2S[a]
            k, l = V2S[b]
            c6[a - 1, b - 1] = C[i, j, k, l]
    return c6


def c6_from_dict(d):
    """{(a,b): value} with 1-based Voigt pairs -> symmetric 6x6"""
    c6 = numpy.zeros((6, 6))
    for (a, b), v in d.items():
        c6[a - 1, b - 1] = v
        c6[b - 1, a - 1] = v
    return c6


def unit_tensor(pair):
    a, b = pair
    c6 = numpy.zeros((6, 6))
    c6[a - 1, b - 1] = c6[b - 1, a - 1] = 1.0
    return c6


def rotate(C, T):
    """Components in the frame whose basis vectors are the columns of T: C'_abcd = T_ia T_jb T_kc T_ld C_ijkl"""
    return numpy.einsum("ia,jb,kc,ld,ijkl->abcd", T, T, T, T, C)


def compliance_full(C):
    """S[i,j,k,l] with S:C = symmetric identity, via the 6x6 Mandel/Voigt route with the 1/2/4 factors."""
    c6 = voigt_from_full(C)
    s6 = numpy.linalg.inv(c6)
    S = numpy.zeros((3, 3, 3, 3))
    for i, j, k, l in itertools.product(range(3), repeat=4):
        a, b = S2V[(i, j)], S2V[(k, l)]
        f = (1.0 if a <= 3 else 0.5) * (1.0 if b <= 3 else 0.5)
        S[i, j, k, l] = s6[a - 1, b - 1] * f
    return S, s6


def vrh(C):
    """Voigt/Reuss/Hill from the full tensor and its inverse (property C07 formulas)."""
    S, s6 = compliance_full(C)
    Ciijj = numpy.einsum("iijj->", C)
    Cijij = numpy.einsum("ijij->", C)
    Siijj = numpy.einsum("iijj->", S)
    Sijij = numpy.einsum("ijij->", S)
    KV = Ciijj / 9.0
    GV = (3.0 * Cijij - Ciijj) / 30.0
    KR = 1.0 / Siijj
    GR = 15.0 / (6.0 * Sijij - 2.0 * Siijj)
    return {"KV": KV, "KR": KR, "KH": 0.5 * (KV + KR), "GV": GV, "GR": GR, "GH": 0.5 * (GV + GR), "s6": s6}


def selftest():
    ok = True
    rng = numpy.arange(1.0, 22.0)
    c6 = numpy.zeros((6, 6))
    for n, (a, b) in enumerate(PAIRS21):
        c6[a - 1, b - 1] = c6[b - 1, a - 1] = rng[n] * (0.1 if a != b else 3.0)
    c6 += numpy.eye(6) * 30
    C = full_from_voigt(c6)
    ok &= numpy.allclose(voigt_from_full(C), c6)
    th = 0.37
    R = numpy.array([[numpy.cos(th), -numpy.sin(th), 0], [numpy.sin(th), numpy.cos(th), 0], [0, 0, 1.0]])
    R2 = numpy.array([[1, 0, 0], [0, numpy.cos(1.1), -numpy.sin(1.1)], [0, numpy.sin(1.1), numpy.cos(1.1)]])
    T = R @ R2
    Cr = rotate(C, T)
    ok &= numpy.allclose(rotate(Cr, T.T), C, atol=1e-12)
    # rotational invariants: traces C_iijj, C_ijij; hence Voigt and Reuss averages
    a, b = vrh(C), vrh(Cr)
    ok &= all(abs(a[k] - b[k]) < 1e-10 * abs(a[k]) for k in ("KV", "KR", "GV", "GR"))
    # S:C = symmetric identity
    S, _ = compliance_full(C)
    I = numpy.einsum("ijkl,klmn->ijmn", S, C)
    Is = numpy.zeros((3, 3, 3, 3))
    for i, j in itertools.product(range(3), repeat=2):
        Is[i, j, i, j] += 0.5
        Is[i, j, j, i] += 0.5
    ok &= numpy.allclose(I, Is, atol=1e-12)
    # isotropic tensor: K and G recovered
    K, G = 150.0, 70.0
    lam = K - 2 * G / 3
    ci = numpy.zeros((6, 6))
    ci[:3, :3] = lam
    ci[:3, :3] += numpy.eye(3) * 2 * G
    ci[3:, 3:] = numpy.eye(3) * G
    r = vrh(full_from_voigt(ci))
    ok &= all(abs(r[k] - K) < 1e-9 for k in ("KV", "KR", "KH")) and all(abs(r[k] - G) < 1e-9 for k in ("GV", "GR", "GH"))
    return bool(ok)
