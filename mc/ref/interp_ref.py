"""Reference for C11: analytic (omega, gamma, V dgamma/dV) triples of closed-form mode laws, the
volume grids, the plain-object phonon input the interpolation consumes, and the quadrature
identities that tie the three returned arrays to ONE interpolant.  Never imports cij.

With x = ln(V/V0):

    gamma      = - d ln(omega) / d ln V  = - d ln(omega)/dx
    V dgamma/dV =   d gamma   / d ln V   = - d^2 ln(omega)/dx^2

Laws (all strictly positive because omega = exp(polynomial or smooth function)):

  power  ln w = ln w0 - g0 x                               gamma = g0, V dgamma/dV = 0
  poly   ln w = ln w0 - g0 x - sum_{k>=2} b_k x^k / k!      degree d = 1..5 (d = 1 is the power law)
  morse  ln w = ln w0 - g0 x + A (exp(-a x) - 1 + a x)      gamma = g0 + A a (exp(-a x) - 1)
                                                           V dgamma/dV = -A a^2 exp(-a x)

Everything is deterministic: law parameters are closed-form functions of the flat slot index.
"""
from __future__ import annotations

import math
from types import SimpleNamespace

import numpy

BOHR_IN_ANGSTROM = 0.529177210903          # CODATA 2018; only used for the plotted abscissa
V_MAX = 1180.0                              # bohr^3, a typical 20-atom silicate cell
COMPRESSION = 0.30                          # sampled range V_max ... 0.70 V_max
RATIO = 1.2                                 # the calculator's default volume_ratio
N_GRID = 2001
ACOUSTIC_INPUT = (0.0, -0.013, 0.021)       # what matdyn prints for the three Gamma acoustic modes
ACOUSTIC_VARIANTS = {
    "mixed": ACOUSTIC_INPUT,                # zero, tiny negative, tiny positive
    "positive": (1.0e-5, 0.004, 0.021),     # tiny positive residuals: log() works, so a missing skip stays finite
    "zero": (0.0, 0.0, 0.0),
}
ANG3_PER_BOHR3 = 0.529177210903 ** 3        # 0.148184711...: the same cell expressed in cubic angstrom


# --------------------------------------------------------------------------- volumes

def volumes(nv: int, vscale: float = 1.0):
    """nv sampled volumes in DECREASING order (as in the shipped inputs), mildly non-uniform.
    vscale re-expresses the same cells in another unit (the triple is covariant: x = ln(V/V0))."""
    out = []
    for i in range(nv):
        t = i / (nv - 1)
        out.append(vscale * V_MAX * (1.0 - COMPRESSION * t ** 1.15))
    return out


def v_ref(vols):
    return math.sqrt(max(vols) * min(vols))


def v_grid(vkind: str, vols, n: int = N_GRID):
    """Evaluation grid, uniform in V, increasing (as the calculator's fine grid).
    inside:   V_min ... V_max, both end points are sampled volumes
    extended: V_min/1.2 ... V_max*1.2  (what the calculator hands to interpolate_modes)"""
    lo, hi = min(vols), max(vols)
    if vkind == "extended":
        lo, hi = lo / RATIO, hi * RATIO
    elif vkind != "inside":
        raise ValueError(vkind)
    g = numpy.linspace(lo, hi, n)
    g[0], g[-1] = lo, hi
    return g


GRID_PRESENTATIONS = ("float64", "int64", "int32", "float32", "strided", "readonly")
INT_GRID_UNIT = 4.0        # integer grids: the cell is expressed in a unit 4x finer, so that the integral volumes
                           # between V_min/1.2 and V_max*1.2 are at least as dense as the 2001-point float grid


def present_grid(pres, vkind, vols, n=N_GRID):
    """The evaluation grid in one of several PRESENTATIONS of a one-dimensional numpy array.  Returns
    (array handed to the code, float64 C-contiguous writable array of exactly the same values)."""
    if pres in ("int64", "int32"):
        lo, hi = min(vols), max(vols)
        if vkind == "extended":
            lo, hi = lo / RATIO, hi * RATIO
        g = numpy.arange(math.ceil(lo), math.floor(hi) + 1, dtype=pres)
        return g, g.astype(numpy.float64)
    base = v_grid(vkind, vols, n)
    if pres == "float64":
        return base, base.copy()
    if pres == "float32":
        g = base.astype(numpy.float32)
        g = g[numpy.concatenate(([True], numpy.diff(g) > 0))]          # float32 rounding must not create repeated volumes
        return g, g.astype(numpy.float64)
    if pres == "strided":
        long = numpy.empty(2 * len(base))
        long[::2] = base
        long[1::2] = -1.0                                              # what a wrong stride would pick up
        return long[::2], base.copy()
    if pres == "readonly":
        g = base.copy()
        g.setflags(write=False)
        return g, base.copy()
    raise ValueError(pres)


# --------------------------------------------------------------------------- laws

def make_law(kind: str, degree: int, idx: int) -> dict:
    """The law of flat slot index idx (= q * n_p + m).  Distinct per idx in every parameter."""
    w0 = 90.0 * 1.25 ** idx                        # 90 ... 1050 cm^-1 for 12 slots
    g0 = 0.45 + 0.17 * idx
    if idx % 5 == 4:
        g0 = -0.6 - 0.01 * idx                     # some modes soften under compression
    law = {"kind": kind, "w0": w0, "g0": g0}
    if kind == "power":
        return law
    if kind == "poly":
        if not 1 <= degree <= 5:
            raise ValueError(degree)
        b = []
        for k in range(2, degree + 1):
            sign = -1.0 if (k + idx) % 2 else 1.0
            b.append(sign * (0.9 + 0.13 * idx + 0.4 * k))
        law["b"] = b                               # b_2 ... b_degree, all non-zero
        return law
    if kind == "morse":
        law["A"] = 0.15 + 0.02 * idx
        law["a"] = 1.6 + 0.15 * (idx % 4)
        if idx % 3 == 1:
            law["A"] = -law["A"]
        return law
    raise ValueError(kind)


def _lnw_terms(law, x, exp):
    """(ln w, d/dx, d2/dx2) of the law at x; `exp` is math.exp, numpy.exp or mpmath.exp."""
    f = math.log(law["w0"]) - law["g0"] * x
    f1 = -law["g0"] + 0 * x
    f2 = 0 * x
    if law["kind"] == "poly":
        for k, bk in enumerate(law.get("b", []), start=2):
            f = f - bk * x ** k / math.factorial(k)
            f1 = f1 - bk * x ** (k - 1) / math.factorial(k - 1)
            f2 = f2 - bk * x ** (k - 2) / math.factorial(k - 2)
    elif law["kind"] == "morse":
        A, a = law["A"], law["a"]
        e = exp(-a * x)
        f = f + A * (e - 1 + a * x)
        f1 = f1 + A * a * (1 - e)
        f2 = f2 + A * a * a * e
    return f, f1, f2


def triple(law, v, v0):
    """Analytic (omega, gamma, V dgamma/dV) on the volume array v."""
    x = numpy.log(numpy.asarray(v, float) / v0)
    f, f1, f2 = _lnw_terms(law, x, numpy.exp)
    return numpy.exp(f), -f1 + 0 * x, -f2 + 0 * x


def omega_at(law, v, v0):
    if law["g0"] == 0.0 and not any(law.get("b", [])) and not law.get("A"):
        return law["w0"]                       # a flat law is written as the number itself (bit-identical columns)
    f, _, _ = _lnw_terms(law, math.log(v / v0), math.exp)
    return math.exp(f)


DUP_KINDS = ("none", "within", "across", "after-acoustic")


def flat_law(kind, degree, w):
    """omega = w at every volume (gamma = V dgamma/dV = 0), spelled in the family `kind`."""
    law = {"kind": kind, "w0": float(w), "g0": 0.0}
    if kind == "poly":
        law["b"] = [0.0] * max(degree - 1, 0)
    elif kind == "morse":
        law["A"], law["a"] = 0.0, 1.0
    return law


def laws_for(kind, degree, nq, npm, wscale=1.0, offset=0, dup="none", acoustic="mixed"):
    """laws[q][m]; the three Gamma acoustic slots are None.  wscale multiplies every frequency
    (gamma and V dgamma/dV do not change); offset shifts the slot index -> a different law set of the
    same shape (offset = 1 moves every law one slot along, a multiple of 5 keeps the softening pattern).
    dup makes CONSECUTIVE (q,m) slots hold identical frequency columns:
      within          degenerate branches: inside every q-point each second non-acoustic branch repeats the one before
      across          the first branch of q-point j repeats the last branch of q-point j-1 (j >= 1, where j-1 has one)
      after-acoustic  the first interpolated slot (q=0,m=3, or q=1,m=0 when n_p = 3) repeats the column of the last
                      Gamma acoustic slot (a flat tiny residual frequency)"""
    out = []
    for q in range(nq):
        row = []
        for m in range(npm):
            if q == 0 and m < 3:
                row.append(None)
                continue
            law = make_law(kind, degree, q * npm + m + offset)
            law["w0"] = law["w0"] * wscale
            row.append(law)
        out.append(row)
    if dup == "within":
        for row in out:
            ms = [m for m, l in enumerate(row) if l is not None]
            for i in range(1, len(ms), 2):
                row[ms[i]] = dict(row[ms[i - 1]])
    elif dup == "across":
        for q in range(1, nq):
            prev = [l for l in out[q - 1] if l is not None]
            if prev and out[q]:
                out[q][0] = dict(prev[-1])
    elif dup == "after-acoustic":
        w = ACOUSTIC_VARIANTS[acoustic][2]
        if not w > 0:
            raise ValueError("after-acoustic needs a positive residual in the last acoustic slot")
        if npm > 3:
            out[0][3] = flat_law(kind, degree, w)
        elif nq > 1:
            out[1][0] = flat_law(kind, degree, w)
    elif dup != "none":
        raise ValueError(dup)
    return out


def consecutive_identical(inp):
    """Number of consecutive (q,m) slot pairs (row-major, Gamma acoustic slots included) whose frequency
    columns are identical at every sampled volume -- what `dup` is supposed to produce."""
    cols = []
    for q in range(inp.nq):
        for m in range(inp.np):
            cols.append(tuple(v.q_points[q].modes[m] for v in inp.volumes))
    return sum(1 for a, b in zip(cols, cols[1:]) if a == b)


def crossings(laws, vols, v0):
    """Pairs of modes of ONE q-point whose frequency order differs between two sampled volumes."""
    n = 0
    for row in laws:
        ms = [l for l in row if l is not None]
        for i in range(len(ms)):
            for j in range(i + 1, len(ms)):
                signs = {omega_at(ms[i], v, v0) > omega_at(ms[j], v, v0) for v in vols}
                n += len(signs) == 2
    return n


# --------------------------------------------------------------------------- input model (plain objects)

WEIGHT_KINDS = ("unit", "increasing", "tiny", "integer", "zero-first", "zero-last", "zero-middle", "zero-first-last",
                "all-zero", "empty")


def weights_for(kind, nq):
    """q-point weights.  The interpolation is a statement about every (q,m) position; weights only enter
    Brillouin-zone averages later on, so the triple must not depend on them.  None = an EMPTY weights list."""
    inc = [1.0 + q for q in range(nq)]
    if kind == "unit":
        return [1.0] * nq
    if kind == "increasing":
        return inc
    if kind == "tiny":
        return [1e-9 * w for w in inc]
    if kind == "integer":
        return [1 + q for q in range(nq)]
    if kind == "all-zero":
        return [0.0] * nq
    if kind == "empty":
        return None
    zero = {"zero-first": {0}, "zero-last": {nq - 1}, "zero-middle": {nq // 2}, "zero-first-last": {0, nq - 1}}[kind]
    return [0.0 if q in zero else w for q, w in enumerate(inc)]


def build_input(nv, nq, npm, kind, degree=0, wscale=1.0, vscale=1.0, acoustic="mixed", offset=0, weights="unit",
                dup="none"):
    """Plain objects with the attribute names the implementation reads:
    nv, nq, np, (nm, na, weights,) volumes[i].volume, volumes[i].q_points[j].modes[k]
    (plus pressure/energy/coord so that the real NamedTuples can be filled from it)."""
    vols = volumes(nv, vscale)
    v0 = v_ref(vols)
    laws = laws_for(kind, degree, nq, npm, wscale, offset, dup, acoustic)
    ACOUSTIC_INPUT = ACOUSTIC_VARIANTS[acoustic]
    vdata = []
    for i, v in enumerate(vols):
        qps = []
        for q in range(nq):
            modes = []
            for m in range(npm):
                if laws[q][m] is None:
                    modes.append(ACOUSTIC_INPUT[m])
                else:
                    modes.append(omega_at(laws[q][m], v, v0))
            qps.append(SimpleNamespace(coord=(0.0 if q == 0 else 0.5 / q, 0.0, 0.25 * q), modes=modes))
        vdata.append(SimpleNamespace(pressure=10.0 * i, volume=v, energy=-100.0 + 0.01 * i * i, q_points=qps))
    wts = weights_for(weights, nq)
    weights = [] if wts is None else [((0.0 if q == 0 else 0.5 / q, 0.0, 0.25 * q), wts[q]) for q in range(nq)]
    inp = SimpleNamespace(nv=nv, nq=nq, np=npm, nm=max(npm // 3, 1), na=max(npm // 3, 1),
                          weights=weights, volumes=vdata)
    return inp, laws, vols, v0


# --------------------------------------------------------------------------- quadrature identities

def cumtrapz(y, x):
    """Cumulative composite trapezoid of y(x) from x[0]; same length as x (first entry 0)."""
    y = numpy.asarray(y, float)
    x = numpy.asarray(x, float)
    out = numpy.zeros_like(y)
    out[1:] = numpy.cumsum(0.5 * (y[1:] + y[:-1]) * numpy.diff(x))
    return out


def identity_residuals(v, omega, gamma, vdg):
    """Scaled residuals of the two integral identities along the whole grid (max over end points):

        r1 = max_i | ln w_i - ln w_0 + int_0^i gamma dlnV |  /  max(int |gamma| dlnV, range of ln w)
        r2 = max_i | gamma_i - gamma_0 - int_0^i vdg dlnV | /  max(int |vdg| dlnV, range of gamma)

    The integral form does not care where the interpolant's knots are (a C1 piecewise cubic has a
    jumping second derivative; the integral of a bounded piecewise-smooth function is still what the
    trapezoid sum converges to, with error <= h * sum of jumps).  A flat quantity (range 0 and
    integral 0) gives residual 0/tiny -> reported as the absolute residual over max|quantity|."""
    lnv = numpy.log(numpy.asarray(v, float))
    lnw = numpy.log(numpy.asarray(omega, float))
    gamma = numpy.asarray(gamma, float)
    vdg = numpy.asarray(vdg, float)
    d1 = lnw - lnw[0] + cumtrapz(gamma, lnv)
    s1 = max(float(cumtrapz(numpy.abs(gamma), lnv)[-1]), float(lnw.max() - lnw.min()))
    d2 = gamma - gamma[0] - cumtrapz(vdg, lnv)
    s2 = max(float(cumtrapz(numpy.abs(vdg), lnv)[-1]), float(gamma.max() - gamma.min()))
    floor1 = 1e-9 * max(1.0, float(numpy.abs(lnw).max()))
    floor2 = 1e-9 * max(1.0, float(numpy.abs(gamma).max()))
    r1 = float(numpy.abs(d1).max()) / max(s1, floor1)
    r2 = float(numpy.abs(d2).max()) / max(s2, floor2)
    return r1, r2


def quadrature_bounds(v, gamma, vdg):
    """A-posteriori bound of the composite-trapezoid error of the two integrals, scaled like the
    residuals: on a cell of width h where the integrand moves by |df| (monotone pieces, jumps included)
    the trapezoid error is at most h |df| / 2; summed over the cells."""
    lnv = numpy.log(numpy.asarray(v, float))
    gamma = numpy.asarray(gamma, float)
    vdg = numpy.asarray(vdg, float)
    h = numpy.diff(lnv)
    s1 = max(float(cumtrapz(numpy.abs(gamma), lnv)[-1]), 1e-300)
    s2 = max(float(cumtrapz(numpy.abs(vdg), lnv)[-1]), float(gamma.max() - gamma.min()), 1e-300)
    q1 = float((h * numpy.abs(numpy.diff(gamma))).sum() / 2) / s1
    q2 = float((h * numpy.abs(numpy.diff(vdg))).sum() / 2) / s2
    return q1, q2


def law_distance(law_a, law_b, v, v0):
    """max |ln w_a - ln w_b| over the grid v."""
    wa, _, _ = triple(law_a, v, v0)
    wb, _, _ = triple(law_b, v, v0)
    return float(numpy.abs(numpy.log(wa) - numpy.log(wb)).max())


# --------------------------------------------------------------------------- self-test (no cij)

def selftest() -> bool:
    import mpmath
    mpmath.mp.dps = 40
    ok = True
    kinds = [("power", 0)] + [("poly", d) for d in range(1, 6)] + [("morse", 0)]
    vols = volumes(8)
    v0 = v_ref(vols)
    # 1. analytic triples against 40-digit numerical differentiation of ln w itself
    for kind, d in kinds:
        for idx in (3, 4, 7, 11):
            law = make_law(kind, d, idx)
            for v in (min(vols) / RATIO, v0, max(vols) * RATIO):
                x0 = mpmath.log(mpmath.mpf(v) / mpmath.mpf(v0))
                f = lambda x: _lnw_terms(law, x, mpmath.exp)[0]
                g_num = -mpmath.diff(f, x0, 1)
                h_num = -mpmath.diff(f, x0, 2)
                w, g, h = triple(law, numpy.array([v]), v0)
                if abs(float(g_num) - g[0]) > 1e-10 or abs(float(h_num) - h[0]) > 1e-9:
                    ok = False
                if abs(float(mpmath.exp(f(x0))) - w[0]) > 1e-11 * w[0] or not w[0] > 0:
                    ok = False
    # 2. the quadrature identities hold on analytic triples, and fail by O(1) for the named slips
    for vkind in ("inside", "extended"):
        v = v_grid(vkind, vols)
        for kind, d in kinds:
            for idx in (3, 4, 10):
                law = make_law(kind, d, idx)
                w, g, h = triple(law, v, v0)
                r1, r2 = identity_residuals(v, w, g, h)
                if r1 > 1e-6 or r2 > 1e-6:
                    ok = False
                if identity_residuals(v, w, -g, h)[0] < 0.5:            # sign of gamma dropped
                    ok = False
                if kind != "power" and not (kind == "poly" and d == 1):
                    if identity_residuals(v, w, g, g)[1] < 0.1:         # first derivative returned twice (>= 100 x tolerance)
                        ok = False
                    if identity_residuals(v, w, g, -h)[1] < 0.5:
                        ok = False
    # 3. trapezoid on a bounded integrand with jumps: error <= h * total jump (knot-insensitive form)
    v = v_grid("extended", vols)
    lnv = numpy.log(v)
    knots = numpy.log(numpy.array(vols[::-1]))
    second = (lnv[:, None] > knots[None, :]).sum(axis=1).astype(float)   # step function, jumps of 1 at the knots
    first = numpy.maximum(lnv[:, None] - knots[None, :], 0.0).sum(axis=1)  # its exact integral
    err = numpy.abs(first - first[0] - cumtrapz(second, lnv)).max()
    if err > numpy.diff(lnv).max() * len(knots):
        ok = False
    # 4. laws are distinct and well separated for every shape/kind used by the check
    for nq, npm in ((3, 3), (2, 6)):
        for kind, d in kinds:
            laws = [l for row in laws_for(kind, d, nq, npm) for l in row if l is not None]
            vi = v_grid("inside", vols)
            for i in range(len(laws)):
                for j in range(i + 1, len(laws)):
                    if law_distance(laws[i], laws[j], vi, v0) < 0.15:
                        ok = False
    # 4b. scale covariance of the reference itself, and crossing branches are present
    for kind, d in kinds:
        la = make_law(kind, d, 7)
        lb = dict(la, w0=la["w0"] * 1e3)
        va = v_grid("extended", volumes(8))
        vb = v_grid("extended", volumes(8, ANG3_PER_BOHR3))
        wa, ga, ha = triple(la, va, v_ref(volumes(8)))
        wb, gb, hb = triple(lb, vb, v_ref(volumes(8, ANG3_PER_BOHR3)))
        if numpy.abs(wb / wa / 1e3 - 1).max() > 1e-12 or numpy.abs(gb - ga).max() > 1e-11 or numpy.abs(hb - ha).max() > 1e-10:
            ok = False
    for nq, npm in ((3, 3), (2, 6), (1, 6)):
        for kind, d in kinds:
            if crossings(laws_for(kind, d, nq, npm), vols, v0) < 1:
                ok = False
    if crossings(laws_for("power", 0, 2, 3), vols, v0) < 1:
        ok = False
    # 4c. weight spellings: right lengths, zeros exactly where announced
    for nq in (1, 2, 3):
        for wk in WEIGHT_KINDS:
            w = weights_for(wk, nq)
            if wk == "empty":
                ok = ok and w is None
                continue
            ok = ok and len(w) == nq
            if wk.startswith("zero-") or wk == "all-zero":
                ok = ok and any(x == 0 for x in w)
            else:
                ok = ok and all(x > 0 for x in w)
        ok = ok and weights_for("zero-first", nq)[0] == 0 and weights_for("zero-last", nq)[-1] == 0
        ok = ok and all(isinstance(x, int) for x in weights_for("integer", nq))
    ok = ok and len(build_input(6, 2, 6, "power", weights="empty")[0].weights) == 0
    # 4d. duplicated columns really are consecutive and identical; grid presentations carry the same values
    for (nq, npm), dk, want in (((2, 6), "within", 4), ((3, 3), "within", 2), ((2, 6), "across", 1), ((3, 3), "across", 1),
                                ((2, 6), "after-acoustic", 1), ((2, 3), "after-acoustic", 1), ((1, 6), "within", 1),
                                ((2, 6), "none", 0)):
        if consecutive_identical(build_input(8, nq, npm, "morse", dup=dk)[0]) != want:
            ok = False
    for pres in GRID_PRESENTATIONS:
        u = INT_GRID_UNIT if pres.startswith("int") else 1.0
        g, twin = present_grid(pres, "extended", volumes(8, u))
        ok = ok and twin.dtype == numpy.float64 and twin.flags.c_contiguous and twin.flags.writeable
        ok = ok and len(g) == len(twin) and bool(numpy.all(g.astype(numpy.float64) == twin)) and bool(numpy.all(numpy.diff(twin) > 0))
        ok = ok and (len(g) >= N_GRID or pres == "float32")
        ok = ok and {"int64": g.dtype == numpy.int64, "int32": g.dtype == numpy.int32, "float32": g.dtype == numpy.float32,
                     "strided": not g.flags.c_contiguous, "readonly": not g.flags.writeable, "float64": True}[pres]
    # 5. grids
    for nv in (6, 8, 12):
        vs = volumes(nv)
        if any(b >= a for a, b in zip(vs, vs[1:])) or abs(vs[-1] / vs[0] - (1 - COMPRESSION)) > 1e-12:
            ok = False
        gi, ge = v_grid("inside", vs), v_grid("extended", vs)
        if gi[0] != min(vs) or gi[-1] != max(vs) or len(ge) != N_GRID or not (ge[0] < gi[0] and ge[-1] > gi[-1]):
            ok = False
    return ok
