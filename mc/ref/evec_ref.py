"""Reference for C20 (eigenvector tools).  Written from the property statement and from the matdyn
output format (write_eigenvectors in QE's PHonon/PH/io_dyn_mat / matdyn.f90:
  q line     : format(/,1x,'q = ',3f12.4)  preceded by the 'diagonalizing' banner
  freq line  : format(5x,'freq (',i5,') =',f15.6,' [THz] =',f15.6,' [cm-1]')
  vector line: format(1x,'(',3(f10.6,1x,f10.6,3x),')')
).  Never imports cij.  Nothing random: every matrix is an index formula.

Convention everywhere: a basis is an n x n array whose ROWS are the vectors.
"""
import functools
from collections import OrderedDict
import itertools
import math
import re

import numpy as np

BASES = ("identity", "rotation", "dft", "householder", "crot")
REAL_BASES = ("identity", "rotation", "householder")
#   "0"   no perturbation
#   "ucX" rows multiplied on the right by exp(i eps H), H fixed Hermitian, ||H||_2 = 1   (stays unitary)
#   "urX" rows multiplied on the right by exp(eps K), K fixed real antisymmetric, ||K||_2 = 1 (real rotation)
#   "adX" row_i + eps * d_i, d_i fixed complex unit vector, NOT re-normalised
PERTS = ("0", "uc1", "uc5", "ur1", "ur5", "ad1", "ad5")
REAL_PERTS = ("0", "ur1", "ur5")
EPS = {"1": 0.01, "5": 0.05}
PHASE_ALPHABET = (1, -1, 1j, -1j)


# ----------------------------------------------------------------------------- bases

def _givens_rotation(n):
    r = np.eye(n)
    for j in range(n):
        for k in range(j + 1, n):
            th = 0.37 + 0.61 * j + 0.23 * k
            c, s = math.cos(th), math.sin(th)
            rj, rk = r[j].copy(), r[k].copy()
            r[j] = c * rj - s * rk
            r[k] = s * rj + c * rk
    return r


def _dft(n):
    j = np.arange(n)
    return np.exp(-2j * np.pi * np.outer(j, j) / n) / math.sqrt(n)


def householder(v):
    v = np.asarray(v)
    return np.eye(len(v)) - 2.0 * np.outer(v, np.conj(v)) / np.vdot(v, v)


@functools.lru_cache(maxsize=None)
def basis(n, name):
    """n x n unitary, rows = orthonormal vectors.  Treat the result as read-only."""
    if name == "identity":
        b = np.eye(n)
    elif name == "rotation":
        b = _givens_rotation(n)
    elif name == "dft":
        b = _dft(n)
    elif name == "householder":
        b = householder(np.arange(1.0, n + 1.0))
    elif name == "crot":      # generic complex, non-symmetric
        b = _givens_rotation(n) @ np.diag(np.exp(1j * (0.5 + 1.1 * np.arange(n)))) @ _dft(n)
    elif name == "zeroblock":  # Householder reflection with an exactly vanishing diagonal entry (n-1, n-1)
        v = np.ones(n)
        v[-1] = -math.sqrt(n - 1.0)
        b = householder(v)
        b[-1, -1] = 0.0       # 1 - 2(n-1)/(2(n-1)): exact in real arithmetic; remove the rounding residue
    else:
        raise ValueError(name)
    b.setflags(write=False)
    return b


def unitarity_defect(b):
    b = np.asarray(b)
    return float(np.max(np.abs(b @ np.conj(b).T - np.eye(len(b)))))


# ----------------------------------------------------------------------------- perturbations

def _herm_generator(n):
    h = np.zeros((n, n), dtype=complex)
    for j in range(n):
        h[j, j] = math.cos(2.3 * j + 0.5)
        for k in range(j + 1, n):
            h[j, k] = math.cos(1.3 * j + 2.1 * k + 0.7) + 1j * math.sin(0.9 * j - 1.7 * k + 0.3)
            h[k, j] = np.conj(h[j, k])
    return h / np.linalg.norm(h, 2)


def _antisym_generator(n):
    k_ = np.zeros((n, n))
    for j in range(n):
        for k in range(j + 1, n):
            k_[j, k] = math.cos(1.3 * j + 2.1 * k + 0.7)
            k_[k, j] = -k_[j, k]
    return k_ / np.linalg.norm(k_, 2)


def _additive_directions(n):
    i = np.arange(n)[:, None]
    c = np.arange(n)[None, :]
    d = np.cos(1.7 * i + 0.9 * c + 0.2) + 1j * np.sin(2.3 * i - 1.1 * c + 0.4)
    return d / np.linalg.norm(d, axis=1)[:, None]


@functools.lru_cache(maxsize=None)
def perturbation_unitary(n, pert):
    kind, eps = pert[:2], EPS[pert[2:]]
    if kind == "uc":
        w, v = np.linalg.eigh(_herm_generator(n))
        return (v * np.exp(1j * eps * w)) @ np.conj(v).T
    if kind == "ur":
        w, v = np.linalg.eigh(1j * _antisym_generator(n))     # K = -i (iK)
        u = (v * np.exp(-1j * eps * w)) @ np.conj(v).T
        if np.max(np.abs(u.imag)) > 1e-13:
            raise AssertionError("real rotation generator produced a complex matrix")
        return u.real.copy()
    raise ValueError(pert)


@functools.lru_cache(maxsize=None)
def perturbed(n, name, pert):
    """The basis `name` with each row moved by a relative amount <= eps (2-norm), deterministic direction."""
    b = basis(n, name)
    if pert == "0":
        return b
    kind, eps = pert[:2], EPS[pert[2:]]
    if kind in ("uc", "ur"):
        bp = b @ perturbation_unitary(n, pert)
    elif kind == "ad":
        bp = b + eps * _additive_directions(n)
    else:
        raise ValueError(pert)
    bp.setflags(write=False)
    return bp


def overlaps(base, target):
    """|<base_i | target_j>| as a matrix [i, j]."""
    return np.abs(np.conj(np.asarray(base)) @ np.asarray(target).T)


def margin(n, name, pert):
    """(row displacement max, smallest own overlap, largest foreign overlap) of the perturbed basis
    against its base.  The matching is unambiguous when own >> foreign."""
    b, bp = basis(n, name), perturbed(n, name, pert)
    g = overlaps(b, bp)
    own = float(np.min(np.diag(g)))
    foreign = float(np.max(g - np.diag(np.diag(g)))) if n > 1 else 0.0
    disp = float(np.max(np.linalg.norm(bp - b, axis=1)))
    return disp, own, foreign


def margin_ok(n, name, pert):
    """Displacement within the stated size, own overlap >= 0.94, every foreign overlap <= 0.06."""
    disp, own, foreign = margin(n, name, pert)
    eps = 0.0 if pert == "0" else EPS[pert[2:]]
    return disp <= eps * (1 + 1e-9) + 1e-14 and own >= 0.94 and foreign <= 0.06


# ----------------------------------------------------------------------------- permutations, phases

@functools.lru_cache(maxsize=None)
def all_phase_vectors(n):
    """4**n x n array, product order over PHASE_ALPHABET."""
    a = np.array(list(itertools.product(PHASE_ALPHABET, repeat=n)), dtype=complex)
    a.setflags(write=False)
    return a


def phase_pattern(n, which):
    j = np.arange(n)
    if which == "cyc":                      # 1, i, -1, -i, 1, ...
        return np.array([PHASE_ALPHABET[(0, 2, 1, 3)[k % 4]] for k in j], dtype=complex)
    if which == "gold":                     # arbitrary unit-modulus phases (golden angle)
        return np.exp(1j * 2.399963229728653 * (j + 1))
    if which == "one":
        return np.ones(n, dtype=complex)
    raise ValueError(which)


def cyclic_shift(n, s):
    return [(j + s) % n for j in range(n)]


def transposition(n, a, b):
    p = list(range(n))
    p[a], p[b] = p[b], p[a]
    return p


def make_target(bp, perm, phases):
    """target_j = phases_j * bp[perm_j]."""
    return np.asarray(phases)[:, None] * np.asarray(bp)[list(perm)]


def expected_sorted(items, perm):
    """Item j belongs to base vector perm[j]  ->  sorted[perm[j]] = items[j]."""
    out = [None] * len(items)
    for j, p in enumerate(perm):
        out[p] = items[j]
    return out


def block_rotation(n, theta):
    """Block-diagonal of 2x2 rotations by theta (last entry 1 when n is odd): exact zeros, ties at pi/4."""
    m = np.eye(n)
    c, s = math.cos(theta), math.sin(theta)
    for k in range(0, n - 1, 2):
        m[k, k], m[k, k + 1], m[k + 1, k], m[k + 1, k + 1] = c, -s, s, c
    return m


# ----------------------------------------------------------------------------- displacements

MASS_KINDS = ("unit", "elements", "extreme", "light", "kg")
_ELEMENTS = (1.008, 15.999, 28.0855, 40.078)
_AMU_KG = 1.66053906660e-27


def masses(natoms, kind):
    """Positive masses 'of any unit' (docstring of evec_disp2eig)."""
    if kind == "unit":
        return [1] * natoms
    if kind == "elements":                                   # amu
        return [_ELEMENTS[k % 4] for k in range(natoms)]
    if kind == "extreme":
        return [1.0 if k % 2 else 1.0e4 for k in range(natoms)]
    if kind == "light":                                      # same ratios, a unit 1e10 times larger
        return [_ELEMENTS[k % 4] * 1e-10 for k in range(natoms)]
    if kind == "kg":                                         # SI
        return [_ELEMENTS[k % 4] * _AMU_KG for k in range(natoms)]
    raise ValueError(kind)


DECADES = ("1e-12", "1e-9", "1e-6", "1e-5", "1e-4", "1e-3", "1", "1e3", "1e6", "1e12")
#   decade   every row has that norm, real positive factor
#   phase    unit norm, a different complex phase per row
#   mixed    norms 1e-3..1e3 cycling with the row index, complex phases
#   alt      NEIGHBOURING rows with norms 1e-9 and 1e3 in one matrix, complex phases
#   ladder   row k has the norm DECADES[k mod 10]: all decades side by side, complex phases
SCALINGS = DECADES + ("phase", "mixed", "alt", "ladder")
_GOLD = 2.399963229728653


def row_scaling(nrows, kind):
    k = np.arange(nrows)
    ph = np.exp(1j * (0.4 + _GOLD * k))
    if kind in DECADES:
        return np.full(nrows, float(kind))
    if kind == "phase":
        return ph
    if kind == "mixed":
        return 10.0 ** ((k % 7) - 3.0) * ph
    if kind == "alt":
        return np.where(k % 2 == 0, 1e-9, 1e3) * ph
    if kind == "ladder":
        return np.array([float(DECADES[i % len(DECADES)]) for i in k]) * ph
    raise ValueError(kind)


NORM_MODES = ("mw", "raw")


def displacements(eig, mass, scal, mode="mw"):
    """Displacement rows belonging to the eigenvector rows `eig`: u_k = c_k * e_k / sqrt(m) per Cartesian
    component.  mode "mw":  c_k = s_k, i.e. |s_k| is the MASS-WEIGHTED norm  ||sqrt(m) u_k||;
    mode "raw": c_k = s_k / ||e_k / sqrt(m)||, i.e. |s_k| is the norm of the displacement itself (then
    the mass-weighted norm is |s_k| times a factor of the order sqrt(m): tiny for light masses).
    Either way sqrt(m) u_k is a positive multiple of (s_k/|s_k|) e_k."""
    m3 = np.repeat(np.asarray(mass, dtype=float), 3)
    u = np.asarray(eig) / np.sqrt(m3)[None, :]
    if mode == "raw":
        u = u / np.linalg.norm(u, axis=1)[:, None]
    elif mode != "mw":
        raise ValueError(mode)
    return np.asarray(scal)[:, None] * u


# ----------------------------------------------------------------------------- matdyn files

STARS = " " + "*" * 74
BANNER = "     diagonalizing the dynamical matrix ..."


def format_file(qpoints):
    """qpoints: [ (q(3 floats), [ (mode_id, thz, cm1, [complex]*np) ]*np ) ]*nq   ->  text"""
    out = []
    for q, modes in qpoints:
        out.append(BANNER)
        out.append("")
        out.append(" q = " + "".join("%12.4f" % x for x in q))
        out.append(STARS)
        for mode_id, thz, cm1, vec in modes:
            out.append("     freq (%5d) =%15.6f [THz] =%15.6f [cm-1]" % (mode_id, thz, cm1))
            if len(vec) % 3:
                raise ValueError("number of components must be a multiple of 3")
            for a in range(0, len(vec), 3):
                out.append(" (" + "".join("%10.6f %10.6f   " % (z.real, z.imag) for z in vec[a:a + 3]) + ")")
        out.append(STARS)
    return "\n".join(out) + "\n"


_NUM = r"[-+]?\d+\.\d+"
_Q_RE = re.compile(r"^\s*q\s*=\s*(%s)\s+(%s)\s+(%s)\s*$" % (_NUM, _NUM, _NUM))
_F_RE = re.compile(r"^\s*freq\s*\(\s*(\d+)\s*\)\s*=\s*(%s)\s*\[THz\]\s*=\s*(%s)\s*\[cm-1\]\s*$" % (_NUM, _NUM))
_V_RE = re.compile(r"^\s*\(((?:\s*%s){6})\s*\)\s*$" % _NUM)


def parse_file(text):
    """Independent, token-based parser of the same layout (no fixed columns, no counting of lines):
    returns [ (q tuple, [ (mode_id, thz, cm1, [complex...]) ...]) ...]."""
    out = []
    for line in text.splitlines():
        m = _Q_RE.match(line)
        if m:
            out.append((tuple(float(x) for x in m.groups()), []))
            continue
        m = _F_RE.match(line)
        if m:
            out[-1][1].append([int(m.group(1)), float(m.group(2)), float(m.group(3)), []])
            continue
        m = _V_RE.match(line)
        if m:
            x = [float(t) for t in m.group(1).split()]
            out[-1][1][-1][3].extend([complex(x[0], x[1]), complex(x[2], x[3]), complex(x[4], x[5])])
            continue
        if line.strip() == "" or line == BANNER or set(line.strip()) == {"*"}:
            continue
        raise ValueError("line not in matdyn layout: %r" % line)
    return [(q, [tuple(m[:3]) + (list(m[3]),) for m in modes]) for q, modes in out]


LOAD_VARIANTS = ("matdyn", "shifted", "large")


# q-point coordinates that are, or PRINT as, the origin (3f12.4), placed at chosen blocks of the file.  The
# vectors of those blocks keep non-zero imaginary parts like everywhere else (complex combinations inside a
# degenerate subspace at Gamma; |q_i| < 5e-5; generated files).
Q_SPECIALS = OrderedDict((
    ("none", None),
    ("origin", (0.0, 0.0, 0.0)),                 # prints  0.0000  0.0000  0.0000
    ("tiny", (1e-5, -2e-5, 4e-5)),               # prints  0.0000 -0.0000  0.0000
    ("negzero", (-0.0, -0.0, -0.0)),             # prints -0.0000 -0.0000 -0.0000
    ("mixedzero", (0.0, -0.0, 0.0)),
    ("onezero", (0.0, None, None)),              # only the first coordinate is zero (None = keep the generic one)
    ("twozero", (0.0, -0.0, None)),              # a point on an axis
))
Q_POSITIONS = ("first", "middle", "last", "all")


def special_blocks(nq, qpos):
    return {"first": [0], "middle": [nq // 2], "last": [nq - 1], "all": list(range(nq))}[qpos]


def printed_q(q):
    """What format_file prints for q, read back as numbers."""
    return tuple(float("%12.4f" % x) for x in q)


def synthetic_qpoints(nq, nmodes, variant, qspecial="none", qpos="first"):
    """A file content with a DISTINCT number in every slot (distinct in absolute value too, so that no
    confusion of slots, of re/im, of THz/cm-1 or of signs can go unnoticed).  All numbers are chosen
    on the printed grid (4 decimals for q, 6 for the rest) so that printing is lossless."""
    heads = []
    fcount = 0
    for iq in range(nq):
        if variant == "matdyn":
            q = (round(0.1258 * iq + 0.0011, 4), round(0.0347 * iq + 0.0022, 4), round(0.1383 * iq + 0.0033, 4))
        elif variant == "shifted":
            q = (round(-0.5 + 0.0731 * iq, 4), round(0.25 - 0.1234 * (iq + 1), 4), round(-1.0 - 0.0077 * iq, 4))
        else:
            q = (round(1234.5678 - 7.0001 * iq, 4), round(-999.9999 + 3.0303 * iq, 4), round(55.0055 + 11.1 * iq, 4))
        if Q_SPECIALS[qspecial] is not None and iq in special_blocks(nq, qpos):
            q = tuple(g if sp is None else sp for sp, g in zip(Q_SPECIALS[qspecial], q))
        freqs = []
        for im in range(nmodes):
            fcount += 1
            if variant == "matdyn":
                mode_id = im + 1
                thz = round(-0.05 + 0.017311 * fcount, 6)          # the first few are negative
            elif variant == "shifted":
                mode_id = im + 8                                   # printed index != position
                thz = round(-40.0 + 0.013577 * fcount, 6)          # all negative
            else:
                mode_id = 99999 - im
                thz = round((-1) ** fcount * (1000.0 + 2.718281 * fcount), 6)
            freqs.append((mode_id, thz, round(thz * 33.35641, 6)))
        heads.append((q, freqs))
    used = set()
    for q, freqs in heads:
        used.update(abs(x) for x in q)
        for _, thz, cm1 in freqs:
            used.update((abs(thz), abs(cm1)))
    slot = [0]

    def comp():
        while True:
            slot[0] += 1
            k = slot[0]
            mag = ((k * 7919) % 999983) / 1e6        # bijection on 1..999982 -> distinct 6-decimal magnitudes
            if mag not in used:                      # ... that are not a q coordinate or a frequency either
                # sign from a multiplicative hash: not periodic in the slot position (6 numbers per line)
                return -mag if ((k * 2654435761) >> 11) & 1 else mag

    qp = []
    for q, freqs in heads:
        qp.append((q, [(mode_id, thz, cm1, [complex(comp(), comp()) for _ in range(nmodes)])
                       for mode_id, thz, cm1 in freqs]))
    return qp


def all_numbers(qpoints):
    """Every number of the content except q coordinates that print as zero (those repeat by design)."""
    out = []
    for q, modes in qpoints:
        out.extend(x for x in printed_q(q) if x != 0)
        for mode_id, thz, cm1, vec in modes:
            out.extend([thz, cm1])
            for z in vec:
                out.extend([z.real, z.imag])
    return out
