"""Reference for C19: output tables x(T,P) in the qha `save_x_tp` layout written from analytic
functions, an independent parser of the commands' stdout tables, analytic test functions with their
derivatives, and interpolation bounds.  Written from the property statement and from the layout of
qha's writer (pandas `to_string` with `%.15e`); does not import cij.

Layout of a `{var}_tp_*.txt` table (one line per temperature, no trailing newline):
    line 0 : "T(K)\\P(GPa)" left-justified to the width of the label column, then the pressure labels
    line i : temperature label left-justified, then the values "%.15e"
every column right-justified to its own widest entry, columns separated by one blank.  Float labels are
printed the way pandas prints a float Index: six decimals, trailing zeros trimmed in common (at least
one decimal kept); the pressure labels are first padded on the right to their common width.
"""
import fnmatch
import math
import re

import numpy as np

CORNER = "T(K)\\P(GPa)"


# --------------------------------------------------------------------------- writer

def fmt_labels(xs):
    """Float labels as pandas prints a float Index (precision 6, common trailing zeros trimmed)."""
    s = ["%.6f" % float(x) for x in xs]
    while all(t.endswith("0") and t[-2] != "." for t in s):
        s = [t[:-1] for t in s]
    return s


def format_table(T, P, Z):
    """Text of a table with temperatures `T` as rows, pressures `P` as columns, Z[i][j] = x(T_i, P_j)."""
    T = [float(t) for t in T]
    P = [float(p) for p in P]
    if len(Z) != len(T) or any(len(r) != len(P) for r in Z):
        raise ValueError("shape of Z does not match the grid")
    tl, pl = fmt_labels(T), fmt_labels(P)
    if any(p.startswith("-") for p in pl):
        pl = [p if p.startswith("-") else " " + p for p in pl]
    wp = max(len(p) for p in pl)
    pl = [p.ljust(wp) for p in pl]      # pandas pads a float Index to a common width on the right
    w0 =max(len(CORNER), max(len(t) for t in tl))
    cells = [["%.15e" % float(z) for z in row] for row in Z]
    widths = [max(len(pl[j]), max(len(cells[i][j]) for i in range(len(T)))) for j in range(len(P))]
    lines = [CORNER.ljust(w0) + " " + " ".join(pl[j].rjust(widths[j]) for j in range(len(P)))]
    for i in range(len(T)):
        lines.append(tl[i].ljust(w0) + " " + " ".join(cells[i][j].rjust(widths[j]) for j in range(len(P))))
    return "\n".join(lines)


def write_table(path, T, P, Z):
    text = format_table(T, P, Z)
    with open(path, "w") as fp:
        fp.write(text)
    return text


def parse_table_text(text):
    """Independent reader of a table file: returns (T, P, Z) as floats *as written* (the table entry
    the property speaks of is the number in the file, not the analytic value it was rounded from)."""
    lines = [l for l in text.split("\n") if l.strip()]
    head = lines[0].split()
    if head[0] != CORNER:
        raise ValueError("not a T-P table: %r" % head[0])
    P = [float(x) for x in head[1:]]
    T, Z = [], []
    for l in lines[1:]:
        tok = l.split()
        if len(tok) != len(P) + 1:
            raise ValueError("ragged table line")
        T.append(float(tok[0]))
        Z.append([float(x) for x in tok[1:]])
    return T, P, Z


# --------------------------------------------------------------------------- stdout parser

_NUM = re.compile(r"^[+-]?(\d+\.?\d*|\.\d+)([eE][+-]?\d+)?$|^[+-]?(nan|inf)$", re.I)


def is_number(tok):
    return bool(_NUM.match(tok))


def half_ulp(tok):
    """Half a unit in the last printed digit of a decimal token such as `123.4500` or `1.2346e+02`."""
    t = tok.strip().lstrip("+-")
    exp = 0
    m = re.split(r"[eE]", t)
    if len(m) == 2:
        t, exp = m[0], int(m[1])
    dec = len(t.split(".")[1]) if "." in t else 0
    return 0.5 * 10.0 ** (exp - dec)


def parse_stdout(text, header=True, has_index=True):
    """Parse a whitespace table printed by pandas `to_string`.
    Returns dict(names=[...] or None, labels=[tokens] or None, cols=[[tokens per row] per column], nrow=int).
    Raises ValueError when the text is not a rectangular numeric table."""
    lines = [l for l in text.split("\n") if l.strip()]
    if not lines:
        raise ValueError("empty output")
    names = None
    if header:
        names = lines[0].split()
        lines = lines[1:]
    rows = [l.split() for l in lines]
    if not rows:
        raise ValueError("no data rows")
    width = len(rows[0])
    for r in rows:
        if len(r) != width:
            raise ValueError("ragged output table")
        for t in r:
            if not is_number(t):
                raise ValueError("non-numeric token %r" % t)
    labels = None
    if has_index:
        labels = [r[0] for r in rows]
        rows = [r[1:] for r in rows]
        width -= 1
    if names is not None and len(names) != width:
        raise ValueError("header has %d names for %d columns" % (len(names), width))
    cols = [[r[j] for r in rows] for j in range(width)]
    return {"names": names, "labels": labels, "cols": cols, "nrow": len(rows)}


def nearest_index(grid, y):
    """Index of the grid value nearest to y, and whether that is unambiguous (no tie within 1e-12 rel)."""
    d = [abs(float(g) - float(y)) for g in grid]
    k = min(range(len(d)), key=lambda i: d[i])
    scale = max(abs(float(grid[0])), abs(float(grid[-1])), abs(float(y)), 1.0)
    ties = [i for i in range(len(d)) if i != k and abs(d[i] - d[k]) <= 1e-12 * scale]
    return k, not ties


# --------------------------------------------------------------------------- documented file names

# (variable name as requested on the command line = stem of the documented file name, file name) for the
# pressure base ("tp"), from the documented output-file table (writer rules): c{ij}s, c{ij}t, bm_*, G_*,
# v_p, v_s, v.  `p` exists only in the volume base ("tv").
VOIGT = [(i, j) for i in range(1, 7) for j in range(i, 7)]


def documented_tp_files(ij_pairs=None):
    out = []
    for i, j in (ij_pairs if ij_pairs is not None else VOIGT):
        out.append(("c%d%ds" % (i, j), "c%d%ds_tp_gpa.txt" % (i, j)))
        out.append(("c%d%dt" % (i, j), "c%d%dt_tp_gpa.txt" % (i, j)))
    for a in ("V", "R", "VRH"):
        out.append(("bm_" + a, "bm_%s_tp_gpa.txt" % a))
    for a in ("V", "R", "VRH"):
        out.append(("G_" + a, "G_%s_tp_gpa.txt" % a))
    out += [("v_p", "v_p_tp_km_s.txt"), ("v_s", "v_s_tp_km_s.txt"), ("v", "v_tp_ang3.txt")]
    return out


def documented_tv_files(ij_pairs=((1, 1), (1, 2), (4, 4))):
    out = [n.replace("_tp_", "_tv_") for _, n in documented_tp_files(ij_pairs)]
    return out + ["p_tv_gpa.txt"]


def glob_matches(var, filenames):
    """Files the documented lookup pattern `{var}_tp_*` selects among `filenames` (shell glob semantics)."""
    pat = "%s_tp_*" % var
    return sorted(f for f in filenames if not f.startswith(".") and fnmatch.fnmatchcase(f, pat))


def ambiguous_names(ij_pairs=None, extra_files=()):
    """Documented variable names for which the documented pattern selects != 1 documented file."""
    docs = documented_tp_files(ij_pairs)
    files = [f for _, f in docs] + list(extra_files)
    bad = {}
    for var, fname in docs:
        m = glob_matches(var, files)
        if m != [fname]:
            bad[var] = m
    return bad


# --------------------------------------------------------------------------- analytic functions

_DMAX = {}


class Fn:
    """x_k(T,P) on the domain dom = (T0, T1, P0, P1); k selects the variable (distinct k -> distinct
    tables).  u = (T-T0)/(T1-T0), v = (P-P0)/(P1-P0).  All functions are asymmetric under u<->v."""

    def __init__(self, kind, k, dom):
        self.kind, self.k, self.dom = kind, int(k), tuple(float(x) for x in dom)
        self.dT = self.dom[1] - self.dom[0]
        self.dP = self.dom[3] - self.dom[2]
        self.S = 100.0 + 37.0 * self.k
        if kind == "poly3":
            # degree <= 3 in u and in v separately (bicubic): reproduced exactly by a bicubic spline
            k_ = self.k
            self.c = {(0, 0): 1.0, (1, 0): 1.7 + 0.11 * k_, (0, 1): 0.6 + 0.05 * k_, (2, 0): 0.9, (0, 2): -0.35,
                      (1, 1): 0.8, (2, 1): 0.45, (1, 2): -0.3, (3, 0): 0.25, (0, 3): 0.15,
                      (3, 2): 0.2, (2, 3): -0.1, (3, 3): 0.05, (3, 1): 0.07, (1, 3): -0.04}
        elif kind == "smooth":
            self.a, self.b, self.cc, self.d = 5.0, 0.8, 4.0, 1.5
            self.phi = 0.3 + 0.2 * self.k
        else:
            raise ValueError(kind)

    def uv(self, T, P):
        return (np.asarray(T, float) - self.dom[0]) / self.dT, (np.asarray(P, float) - self.dom[2]) / self.dP

    def deriv(self, T, P, m=0, n=0):
        """d^m/dT^m d^n/dP^n x(T,P), elementwise (broadcasting)."""
        u, v = self.uv(T, P)
        if self.kind == "poly3":
            tot = 0.0
            for (i, j), c in self.c.items():
                if i < m or j < n:
                    continue
                fi = math.factorial(i) // math.factorial(i - m)
                fj = math.factorial(j) // math.factorial(j - n)
                tot = tot + c * fi * fj * u ** (i - m) * v ** (j - n)
            val = tot
        else:
            a, b, c, d, phi = self.a, self.b, self.cc, self.d, self.phi
            # d^m sin(a u + phi) = a^m sin(a u + phi + m pi/2);  d^n cos(c v) = c^n cos(c v + n pi/2)
            t1 = a ** m * np.sin(a * u + phi + m * math.pi / 2) * b ** n * np.exp(b * v)
            t2 = 0.5 * c ** n * np.cos(c * v + n * math.pi / 2) * (-d) ** m * np.exp(-d * u)
            val = t1 + t2 + (3.0 if m == 0 and n == 0 else 0.0)
        return self.S * val / (self.dT ** m * self.dP ** n)

    def __call__(self, T, P):
        return self.deriv(T, P, 0, 0)

    def table(self, Tg, Pg):
        Tg, Pg = np.asarray(Tg, float), np.asarray(Pg, float)
        return self(Tg[:, None], Pg[None, :])

    def dmax(self, m, n, samples=401):
        """max |d^m_T d^n_P x| over the domain (dense sample; the functions are smooth and the sample
        is 5x finer than the finest table)."""
        key = (self.kind, self.k, self.dom, m, n, samples)
        if key not in _DMAX:
            Ts = np.linspace(self.dom[0], self.dom[1], samples)
            Ps = np.linspace(self.dom[2], self.dom[3], samples)
            _DMAX[key] = float(np.max(np.abs(self.deriv(Ts[:, None], Ps[None, :], m, n))))
        return _DMAX[key]


def grid(lo, hi, n):
    """n equidistant nodes from lo to hi, rounded to 6 decimals (so labels print exactly)."""
    return [round(lo + (hi - lo) * i / (n - 1), 6) for i in range(n)]


def spline_bound(fn, hT, hP):
    """Bound on the error of interpolating bicubic-spline interpolation on a uniform tensor grid with
    steps hT, hP:   cT hT^4 |x_TTTT| + cX hT^2 hP^2 |x_TTPP| + cP hP^4 |x_PPPP|   (sup norms),
    cX = 4/9 (Carlson & Hall 1973, bicubic spline), cT = cP = 1/24: the constant of cubic Lagrange
    interpolation on 4 consecutive nodes in an end cell, max|t(t-1)(t-2)(t-3)|/4! = 1/24, which is what
    a not-a-knot end condition amounts to there, and which dominates the interior constant 5/384
    (Hall & Meyer 1976)."""
    return (hT ** 4 * fn.dmax(4, 0) + hP ** 4 * fn.dmax(0, 4)) / 24.0 + 4.0 / 9.0 * hT ** 2 * hP ** 2 * fn.dmax(2, 2)


def cell_variation(Tg, Pg, Z, T, P):
    """Largest change of the tabulated quantity across one cell, over the three cells bracketing
    (T,P) along each axis (DESIGN section 5); the caller takes 25 % of it."""
    Z = np.asarray(Z, float)
    i = int(np.clip(np.searchsorted(Tg, T, side="right") - 1, 0, len(Tg) - 2))
    j = int(np.clip(np.searchsorted(Pg, P, side="right") - 1, 0, len(Pg) - 2))
    i0, i1 = max(i - 1, 0), min(i + 2, len(Tg) - 1)
    j0, j1 = max(j - 1, 0), min(j + 2, len(Pg) - 1)
    sub = Z[i0:i1 + 1, j0:j1 + 1]
    return float(max(np.max(np.abs(np.diff(sub, axis=0))), np.max(np.abs(np.diff(sub, axis=1)))))


# --------------------------------------------------------------------------- geotherm files

def format_geotherm(columns, rows):
    """Whitespace-separated geotherm file: header line, one line per point; numbers written with repr
    of the Python value (ints stay ints)."""
    lines = ["  ".join(columns)]
    for r in rows:
        lines.append("  ".join(repr(x) for x in r))
    return "\n".join(lines) + "\n"
