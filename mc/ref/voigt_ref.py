"""Reference for C10: the 81 index tuples, their orbits under the minor and major symmetries.
Written from the property statement; does not import cij."""
import itertools

V2S = {1: (1, 1), 2: (2, 2), 3: (3, 3), 4: (2, 3), 5: (1, 3), 6: (1, 2)}
S2V = {}
for _v, (_i, _j) in V2S.items():
    S2V[(_i, _j)] = _v
    S2V[(_j, _i)] = _v

TUPLES = list(itertools.product((1, 2, 3), repeat=4))
GENERATORS = {
    "minor_ij": lambda t: (t[1], t[0], t[2], t[3]),
    "minor_kl": lambda t: (t[0], t[1], t[3], t[2]),
    "major": lambda t: (t[2], t[3], t[0], t[1]),
}


def orbits():
    """Connected components of the orbit graph, by BFS; returns (orbit_of: tuple->frozenset, edges)."""
    seen, orbit_of, edges = set(), {}, []
    for t in TUPLES:
        for name, g in GENERATORS.items():
            edges.append((t, name, g(t)))
    for t in TUPLES:
        if t in seen:
            continue
        comp, stack = {t}, [t]
        while stack:
            u = stack.pop()
            for g in GENERATORS.values():
                w = g(u)
                if w not in comp:
                    comp.add(w)
                    stack.append(w)
        seen |= comp
        fs = frozenset(comp)
        for u in comp:
            orbit_of[u] = fs
    return orbit_of, edges


def voigt_pair(t):
    a, b = S2V[(t[0], t[1])], S2V[(t[2], t[3])]
    return (min(a, b), max(a, b))


def canonical_standard(t):
    a, b = voigt_pair(t)
    return V2S[a] + V2S[b]


def kind(vp):
    a, b = vp
    if a <= 3 and b <= 3:
        return "LONGITUDINAL" if a == b else "OFF_DIAGONAL"
    return "SHEAR"
