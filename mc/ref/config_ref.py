"""Reference for C16: the effective configuration defined on *leaf paths*, the small-scope dictionary
spaces, and the verdict table for validation.  Written from the property statement and the docs;
never imports cij, never reads the packaged JSON schema.

Reading of the statement that this file fixes
---------------------------------------------
A configuration is a nested mapping.  A *leaf* is a (path, value) pair whose value is not a mapping
(scalars and lists are leaves: a list is taken or replaced as a whole).  An explicit null (YAML `key:` /
`key: ~`, JSON null, Python None) and the falsy scalars 0, 0.0, false, '' and [] are ordinary leaf values: a
user who wrote them specified them, and they must survive.

  effective(user, default).leaves  =  user.leaves
                                      +  { (p, v) in default.leaves : the user specified nothing at,
                                           above or below p }

"the user specified something at/above/below p" means: the user has a leaf whose path is p, a proper
prefix of p (user leaf over default dict: the default leaves below cannot coexist with it) or an
extension of p (user dict over default leaf: the default leaf is superseded by the user's leaves).
"contains no other keys": the result has no leaf beyond these.

Empty dictionaries.  A `{}` value carries no leaf.  Choice made here: a user `{}` (or any user
sub-dictionary without a single leaf in it) specifies nothing, so the default leaves *below* that path
(default is a dictionary there) are taken: asserted.

NOT asserted, because the statement does not decide it:
  * whether a `{}` that occurs in one of the inputs survives as a key holding `{}` in the result
    ("keeps every leaf" says nothing about leafless keys, "no other keys" could be read either way): the
    oracle compares leaf sets exactly and only requires that every leafless key of the result lies on the
    path of a leafless key of one of the inputs;
  * a leafless user dictionary sitting exactly on a default *leaf* (user `{a: {}}`, default `{a: 1}`):
    "nothing specified, so a = 1" and "the user's (empty) mapping replaces the leaf, so a = {}" are both
    defensible.  Either result is accepted at that path; any other value, any leaf below it, or an
    exception is a violation.  `ref_merge` itself returns the first reading.
"""
from __future__ import annotations

import itertools
import os

ABSENT = object()


# ------------------------------------------------------------------------------------- basic tools

def clone(x):
    """Deep copy of a JSON-like value (dict / list / scalar); much faster than copy.deepcopy."""
    if isinstance(x, dict):
        return {k: clone(v) for k, v in x.items()}
    if isinstance(x, list):
        return [clone(v) for v in x]
    return x


def same(a, b) -> bool:
    """Typed, identity-aware deep equality: the same object, or same type and same value.
    Distinguishes 1 / 1.0 / True / numpy.int64(1), list / tuple, dict / non-dict; NaN equals NaN; dictionary keys
    must be equal and of the same type (1 and True, which Python dictionaries cannot tell apart, are accepted for
    each other).  Objects without value semantics (a bare object()) are equal only to themselves."""
    if a is b:
        return True
    if isinstance(a, dict) or isinstance(b, dict):
        if not (isinstance(a, dict) and isinstance(b, dict)) or len(a) != len(b):
            return False
        bkeys = None
        for k, v in a.items():
            if k not in b or not same(v, b[k]):
                return False
            if type(k) is not str:
                if bkeys is None:
                    bkeys = {kb: kb for kb in b}
                kb = bkeys[k]
                if type(kb) is not type(k) and not (type(k) in (bool, int) and type(kb) in (bool, int)):
                    return False
                if isinstance(k, tuple) and not same(k, kb):
                    return False
        return True
    if isinstance(a, (list, tuple)) or isinstance(b, (list, tuple)):
        if type(a) is not type(b) or len(a) != len(b):
            return False
        return all(same(x, y) for x, y in zip(a, b))
    if type(a) is not type(b):
        return False
    try:
        if a == b:
            return True
        return isinstance(a, float) and a != a and b != b      # NaN (float, numpy.float64)
    except Exception:
        return False


def flatten(d):
    """dict -> (leaves {path tuple: value}, empties {paths of non-root sub-dicts that are {}})."""
    if not isinstance(d, dict):
        raise TypeError(f"flatten: not a dict: {d!r}")
    leaves, empties = {}, set()
    stack = [((), d)]
    while stack:
        p, x = stack.pop()
        if isinstance(x, dict):
            if not x and p:
                empties.add(p)
            for k, v in x.items():
                stack.append((p + (k,), v))
        else:
            leaves[p] = x
    return leaves, empties


def unflatten(leaves):
    out = {}
    for p in sorted(leaves, key=lambda q: (len(q), [str(k) for k in q])):
        cur = out
        for k in p[:-1]:
            nxt = cur.setdefault(k, {})
            if not isinstance(nxt, dict):
                raise ValueError(f"unflatten: {p} runs through the leaf at {k}")
            cur = nxt
        if p[-1] in cur:
            raise ValueError(f"unflatten: {p} collides with an existing key")
        cur[p[-1]] = clone(leaves[p])
    return out


def merge_leaves(uleaves, dleaves):
    """The leaf set of the effective configuration (see module docstring)."""
    touched = set()                    # every prefix (incl. itself) of every user leaf path
    for p in uleaves:
        for i in range(1, len(p) + 1):
            touched.add(p[:i])
    out = dict(uleaves)
    for p, v in dleaves.items():
        if p in touched:               # user leaf at p or below p
            continue
        if any(p[:i] in uleaves for i in range(1, len(p))):   # user leaf above p
            continue
        out[p] = v
    return out


def ref_merge(user, default):
    """Effective configuration as a nested dict holding exactly the reference leaf set
    (no leafless keys: see the docstring for why those are not asserted)."""
    ul, _ = flatten(user)
    dl, _ = flatten(default)
    return unflatten(merge_leaves(ul, dl))


def conflict_class(user, default):
    """Structural class of a (user, default) pair, used in violation signatures."""
    cls = set()

    def walk(u, d):
        for k, uv in u.items():
            if k not in d:
                continue
            dv = d[k]
            if isinstance(uv, dict) and not isinstance(dv, dict):
                cls.add("user-dict-over-default-leaf" if flatten(uv)[0] else "user-leafless-dict-over-default-leaf")
            elif not isinstance(uv, dict) and isinstance(dv, dict):
                cls.add("user-leaf-over-default-dict")
            elif isinstance(uv, dict):
                walk(uv, dv)
    walk(user, default)
    for name in ("user-dict-over-default-leaf", "user-leafless-dict-over-default-leaf", "user-leaf-over-default-dict"):
        if name in cls:
            return name
    return "no-type-conflict"


# ------------------------------------------------------------------------------------- non-JSON-native alphabets
#
# The statement quantifies over "all nested dictionaries" and keeps every user-specified leaf VALUE: a leaf is any
# non-dict object, opaque to the merge.  Cases stay JSON-serialisable by naming the leaves and keys.

class Opaque:
    """A value object JSON cannot encode; equal copies compare equal."""

    def __init__(self, v):
        self.v = v

    def __eq__(self, o):
        return type(o) is Opaque and o.v == self.v

    def __hash__(self):
        return hash(("Opaque", self.v))

    def __repr__(self):
        return f"Opaque({self.v!r})"


class Bare:
    """An arbitrary object: identity equality only (like object()), with an address-free repr so that case
    descriptions are deterministic.  "Keeping the value" can only mean keeping this very object."""
    __slots__ = ()

    def __repr__(self):
        return "<bare object>"


_BARE = Bare()


def exotic_leaves():
    """name -> leaf object.  Equality rule per leaf: same type and == (NaN equals NaN); for `object` (a bare
    object()) == is identity, so the result must hold the very same object."""
    import datetime
    import numpy
    return {
        "one": 1, "two": 2,
        "tuple": (1, 2), "tuple9": (9,), "date": datetime.date(2024, 5, 1), "date2": datetime.date(1999, 12, 31),
        "datetime": datetime.datetime(2024, 5, 1, 12, 30), "np_int64": numpy.int64(3), "np_float64": numpy.float64(2.5),
        "bytes": b"x", "frozenset": frozenset({1, 2}), "nan": float("nan"), "inf": float("inf"),
        "opaque": Opaque(7), "object": _BARE,
    }


KEY_TOKENS = {"a": "a", "b": "b", "#1": 1, "#2": 2, "#(1,2)": (1, 2), "#None": None, "#True": True}


def named_space(depth, key_tokens, leaf_names):
    """dict_space over keys / leaves given by name (what a JSON case can carry)."""
    ex = exotic_leaves()
    return dict_space(depth, keys=tuple(KEY_TOKENS[k] for k in key_tokens), leaves=tuple(ex[n] for n in leaf_names))


def key_pairs():
    """All 2-key sets over {a, 1, 2, (1,2), None, True} holding at least one non-string key; 1 and True never
    together (they are one dictionary key)."""
    toks = ["a", "#1", "#2", "#(1,2)", "#None", "#True"]
    out = []
    for x, y in itertools.combinations(toks, 2):
        if {x, y} == {"#1", "#True"}:
            continue
        out.append([x, y])
    return out


def show(x, n=300):
    s = repr(x)
    return s if len(s) <= n else s[:n] + "…"


def has_empties(x):
    return bool(flatten(x)[1])


def compare(result, user, default):
    """Discrepancies between an observed effective configuration and the reference.
    -> (list of (kind, path, message), info) ; kinds are stable names used in signatures."""
    if not isinstance(result, dict):
        return [("not-a-dict", (), f"result is {type(result).__name__}: {result!r}")], {}
    ul, ue = flatten(user)
    dl, de = flatten(default)
    exp = merge_leaves(ul, dl)
    rl, re_ = flatten(result)
    out = []
    for p, v in ul.items():
        if p not in rl or not same(rl[p], v):
            got = rl.get(p, ABSENT)
            if p in dl and got is not ABSENT and same(got, dl[p]):
                out.append(("default-overrides-user", p, f"user {v!r}, default {dl[p]!r}, result {got!r}"))
            else:
                out.append(("user-leaf-lost", p, f"user {v!r}, result {'<absent>' if got is ABSENT else repr(got)}"))
    # default leaves on which the user put a leafless dictionary: outcome not asserted (see docstring)
    open_paths = set()
    for q in ue:
        for i in range(1, len(q) + 1):
            if q[:i] in dl:
                open_paths.add(q[:i])
    n_open = 0
    for p, v in exp.items():
        if p in ul:
            continue
        if p in open_paths and p not in rl:
            n_open += 1
            continue
        if p not in rl or not same(rl[p], v):
            got = rl.get(p, ABSENT)
            out.append(("default-leaf-missing", p,
                        f"unspecified default leaf {v!r}, result {'<absent>' if got is ABSENT else repr(got)}"))
    for p, v in rl.items():
        if p not in exp:
            kind = "superseded-default-kept" if p in dl and same(dl[p], v) else "extra-key"
            out.append((kind, p, f"result has {v!r}; neither a user leaf nor an unspecified default leaf"))
    allowed = set()
    for q in ue | de:
        for i in range(1, len(q) + 1):
            allowed.add(q[:i])
    for p in re_:
        if p not in allowed:
            out.append(("extra-empty-dict", p, "result has a leafless key that lies on no leafless key of an input"))
    info = {"leafless_kept": len(re_), "leafless_in": len(ue | de), "open_leafless_over_leaf": n_open}
    return out, info


# ------------------------------------------------------------------------------------- small scope

def dict_space(depth, keys=("a", "b"), leaves=(1, 2)):
    """All dictionaries over `keys` with leaf values `leaves` and nesting depth <= depth
    (the empty dict included at every level).  |D1|=9, |D2|=144, |D3|=21609 for 2 keys x 2 leaves."""
    if depth <= 0:
        return []
    vals = list(leaves) + dict_space(depth - 1, keys, leaves)
    out = []
    for choice in itertools.product([ABSENT] + vals, repeat=len(keys)):
        out.append({k: clone(v) for k, v in zip(keys, choice) if v is not ABSENT})
    return out


def depth_of(d):
    if not isinstance(d, dict):
        return 0
    return 1 + max((depth_of(v) for v in d.values()), default=0)


# ------------------------------------------------------------------------------------- files

def repo_root():
    return os.path.realpath(os.environ.get("VERIF_REPO", "/repo"))


DEFAULT_REL = "cij/data/default/settings.yaml"
SHIPPED_REL = ["examples/akimotoite/settings.yaml", "examples/bridgmanite/settings.yaml",
               "examples/diopside/settings.yaml", DEFAULT_REL]


def load_yaml(rel):
    import yaml
    with open(os.path.join(repo_root(), rel)) as fp:
        return yaml.safe_load(fp)


def packaged_defaults():
    return load_yaml(DEFAULT_REL)


def sorted_leaf_paths(obj):
    return sorted(flatten(obj)[0], key=lambda p: [str(k) for k in p])


def sub_dictionary(obj, paths, mask, values=None):
    """The sub-dictionary of `obj` holding the leaves paths[i] with bit i of mask set
    (values: optional replacement value per path)."""
    leaves, _ = flatten(obj)
    pick = {}
    for i, p in enumerate(paths):
        if mask >> i & 1:
            pick[p] = leaves[p] if values is None else values[p]
    return unflatten(pick)


def alt_value(v):
    """A value of the same kind that differs from v (so that 'who won' is observable)."""
    if isinstance(v, bool):
        return not v
    if isinstance(v, int):
        return v + 1
    if isinstance(v, float):
        return v * 2 + 1.5
    if isinstance(v, str):
        return v + "_user"
    if isinstance(v, list):
        return list(reversed(v)) + ["user"]
    if v is None:
        return "user"
    raise TypeError(v)


def falsy_value(v, dflt=ABSENT):
    """A falsy value of the same kind (0, 0.0, '', [], False); when that would equal the packaged default
    the 'alt' value is used instead, so the user's leaf always differs from the default one."""
    if isinstance(v, bool):
        f = False
    elif isinstance(v, int):
        f = 0
    elif isinstance(v, float):
        f = 0.0
    elif isinstance(v, str):
        f = ""
    elif isinstance(v, list):
        f = []
    else:
        f = None
    if dflt is not ABSENT and same(f, dflt):
        return alt_value(dflt)
    return f


# ------------------------------------------------------------------------------------- validation table
#
# Transcribed by hand from the property statement, docs/usage/input.rst (the three rendered tables:
# key / type / description, with the enumerations spelled out in the descriptions) and the README example.
# The numeric ranges are those the descriptions imply: a *number of* grid points is >= 1, a temperature in
# Kelvin is >= 0, the ratio that *expands* a volume range is >= 1, an equation of state has order >= 2, a
# spline/polynomial has order >= 1.   None = no range documented.

INTERPOLATORS = ["spline", "lsq_poly", "lagrange", "krogh", "pchip", "hermite", "akima"]
SYSTEMS = ["triclinic", "monoclinic", "hexagonal", "trigonal6", "trigonal7", "orthorhombic",
           "tetragonal6", "tetragonal7", "cubic"]

FIELDS = {
    # path                                         type       minimum  enum
    ("qha", "input"):                              ("string", None, None),
    ("qha", "settings", "NT"):                     ("integer", 1, None),
    ("qha", "settings", "DT"):                     ("number", None, None),
    ("qha", "settings", "T_MIN"):                  ("number", 0, None),
    ("qha", "settings", "NTV"):                    ("integer", 1, None),
    ("qha", "settings", "P_MIN"):                  ("number", None, None),
    ("qha", "settings", "DELTA_P"):                ("number", None, None),
    ("qha", "settings", "DELTA_P_SAMPLE"):         ("number", None, None),
    ("qha", "settings", "volume_ratio"):           ("number", 1.0, None),
    ("qha", "settings", "order"):                  ("number", 2, None),
    ("elast", "input"):                            ("string", None, None),
    ("elast", "settings", "mode_gamma", "interpolator"): ("string", None, INTERPOLATORS),
    ("elast", "settings", "mode_gamma", "order"):  ("integer", 1, None),
    ("elast", "settings", "symmetry", "system"):   ("string", None, SYSTEMS),
    ("elast", "settings", "symmetry", "ignore_residuals"): ("boolean", None, None),
    ("elast", "settings", "symmetry", "ignore_rank"):      ("boolean", None, None),
    ("elast", "settings", "symmetry", "drop_atol"):        ("number", None, None),
    ("elast", "settings", "symmetry", "residual_atol"):    ("number", None, None),
}
# settings that the shipped files and the printed defaults use but the documented tables do not list
UNLISTED_NUMERIC = {("qha", "settings", "DT_SAMPLE"): "number", ("qha", "settings", "static_only"): "boolean"}

OBJECT_LEVELS = [(), ("qha",), ("qha", "settings"), ("elast",), ("elast", "settings"),
                 ("elast", "settings", "mode_gamma"), ("elast", "settings", "symmetry"), ("output",)]
MUST_REJECT_UNKNOWN_KEY_AT = {("elast", "settings"), ("elast", "settings", "symmetry")}
TYPO_KEY = {(): ("qah", {}), ("qha",): ("setings", {}), ("qha", "settings"): ("NTT", 3), ("elast",): ("inputs", "x"),
            ("elast", "settings"): ("mode_gama", {"order": 3}), ("elast", "settings", "mode_gamma"): ("ordr", 3),
            ("elast", "settings", "symmetry"): ("sytem", "cubic"), ("output",): ("presure_base", ["cij"])}

JSON_TYPE_SAMPLES = [("string", "x"), ("numstring", "3"), ("integer", 3), ("float", 2.5), ("intfloat", 3.0),
                     ("boolean", True), ("null", None), ("list", [1]), ("object", {"k": 1})]


def dotted(path):
    return ".".join(str(k) for k in path) or "<root>"


def get_path(obj, path):
    cur = obj
    for k in path:
        if not isinstance(cur, dict) or k not in cur:
            return ABSENT
        cur = cur[k]
    return cur


def set_path(obj, path, value):
    """Returns a deep copy of obj with obj[path] = value (parents created as objects)."""
    out = clone(obj)
    if not path:
        return clone(value)
    cur = out
    for k in path[:-1]:
        if not isinstance(cur.get(k), dict):
            cur[k] = {}
        cur = cur[k]
    cur[path[-1]] = clone(value)
    return out


def set_path_raw(obj, path, value):
    """set_path for values / keys of any type (the value object itself is stored, not a copy)."""
    out = clone(obj)
    cur = out
    for k in path[:-1]:
        if not isinstance(cur.get(k), dict):
            cur[k] = {}
        cur = cur[k]
    cur[path[-1]] = value
    return out


def del_path(obj, path):
    out = clone(obj)
    cur = out
    for k in path[:-1]:
        if not isinstance(cur, dict) or k not in cur:
            return out
        cur = cur[k]
    if isinstance(cur, dict):
        cur.pop(path[-1], None)
    return out


def _type_verdict(ftype, enum, sample_kind):
    """Verdict for setting a documented field of documented type `ftype` to a JSON value of kind
    `sample_kind`: 'accept' / 'reject' / 'unasserted' and the perturbation class."""
    numeric = ftype in ("integer", "number")
    if numeric:
        if sample_kind == "integer":
            return "accept", "documented-value"
        if sample_kind == "float":
            return ("accept", "documented-value") if ftype == "number" else ("reject", "wrong-type")
        if sample_kind == "intfloat":    # 3.0 where an integer is documented: JSON has one number type
            return ("accept", "documented-value") if ftype == "number" else ("unasserted", "integral-float-for-integer")
        return "reject", "wrong-type"
    if enum is not None:                 # interpolator / system: anything but a listed name is unknown
        return "reject", "unknown-enum-value"
    if ftype == "string":
        if sample_kind in ("string", "numstring"):
            return "accept", "documented-value"
        return "unasserted", "wrong-type-non-numeric"
    if ftype == "boolean":
        if sample_kind == "boolean":
            return "accept", "documented-value"
        return "unasserted", "wrong-type-non-numeric"
    raise ValueError(ftype)


def perturbations():
    """Every single-field perturbation, independent of the base it is applied to.
    -> list of dicts {id, op: set|del|none, path, value, expect, cls, field}."""
    P = []

    def add(pid, op, path, value, expect, cls, field=None):
        P.append({"id": pid, "op": op, "path": list(path), "value": value, "expect": expect, "cls": cls,
                  "field": field if field is not None else dotted(path)})

    add("base", "none", (), None, "accept", "shipped")
    for path, (ftype, minimum, enum) in FIELDS.items():
        f = dotted(path)
        for kind, sample in JSON_TYPE_SAMPLES:
            if enum is not None and kind in ("string", "numstring"):
                continue                       # covered by the enumeration perturbations below
            if minimum is not None and kind in ("integer", "float", "intfloat") and sample < minimum:
                continue
            expect, cls = _type_verdict(ftype, enum, kind)
            add(f"{f}:type:{kind}", "set", path, sample, expect, cls)
        if minimum is not None:
            below = [minimum - 1] if ftype == "integer" else [minimum - 1, minimum - 0.5, minimum - 1e-9]
            for b in below:
                add(f"{f}:below-min:{b!r}", "set", path, b, "reject", "below-minimum")
            add(f"{f}:at-min", "set", path, minimum, "accept", "at-minimum")
            if ftype == "number":
                add(f"{f}:at-min-float", "set", path, float(minimum), "accept", "at-minimum")
            add(f"{f}:above-min", "set", path, minimum + 1, "accept", "documented-value")
            add(f"{f}:large", "set", path, 10 ** 6, "accept", "documented-value")
        elif ftype == "number":
            add(f"{f}:large", "set", path, 10 ** 6, "accept", "documented-value")
            add(f"{f}:small-float", "set", path, 1.0e-8, "accept", "documented-value")
            if path[-1] == "P_MIN":           # a negative minimum pressure is used by the docs' own example
                add(f"{f}:negative", "set", path, -1, "accept", "documented-value")
            else:                             # sign of steps / tolerances: no range documented
                add(f"{f}:negative", "set", path, -1, "unasserted", "negative-no-range-documented")
                add(f"{f}:zero", "set", path, 0, "unasserted", "zero-no-range-documented")
        if enum is not None:
            for v in enum:
                add(f"{f}:enum:{v}", "set", path, v, "accept", "documented-value")
            other = SYSTEMS if enum is INTERPOLATORS else INTERPOLATORS
            for v in ["nonexistent", "", enum[0] + " ", enum[0][:-1], other[-1], "orthrohombic", "3"]:
                add(f"{f}:unknown:{v!r}", "set", path, v, "reject", "unknown-enum-value")
            for v in [enum[0].upper(), enum[0].capitalize()]:
                add(f"{f}:case:{v}", "set", path, v, "unasserted", "enum-case-variant")
        if ftype == "boolean":
            add(f"{f}:false", "set", path, False, "accept", "documented-value")
        if ftype == "string" and enum is None:
            add(f"{f}:path-like", "set", path, "data/in put-01.dat", "accept", "documented-value")
        add(f"{f}:removed", "del", path, None, "unasserted", "field-removed")
    for path, ftype in UNLISTED_NUMERIC.items():
        f = dotted(path)
        for kind, sample in JSON_TYPE_SAMPLES:
            add(f"{f}:type:{kind}", "set", path, sample, "unasserted", "unlisted-setting")
        add(f"{f}:removed", "del", path, None, "unasserted", "field-removed")
    # sections
    add("qha:removed", "del", ("qha",), None, "reject", "missing-section", "qha")
    add("elast:removed", "del", ("elast",), None, "reject", "missing-section", "elast")
    add("qha+elast:removed", "set", (), {"output": {}}, "reject", "missing-section", "qha+elast")
    add("empty-config", "set", (), {}, "reject", "missing-section", "qha+elast")
    for lvl in OBJECT_LEVELS[1:]:
        f = dotted(lvl)
        if lvl not in (("qha",), ("elast",)):
            add(f"{f}:removed", "del", lvl, None, "unasserted", "field-removed", f)
        add(f"{f}:emptied", "set", lvl, {}, "unasserted", "object-emptied", f)
        for kind, sample in JSON_TYPE_SAMPLES:
            if kind == "object":
                continue
            add(f"{f}:type:{kind}", "set", lvl, sample, "unasserted", "object-wrong-type", f)
    for kind, sample in JSON_TYPE_SAMPLES:
        if kind != "object":
            add(f"<root>:type:{kind}", "set", (), sample, "unasserted", "object-wrong-type", "<root>")
    # unknown keys at every object level
    for lvl in OBJECT_LEVELS:
        must = lvl in MUST_REJECT_UNKNOWN_KEY_AT
        tk, tv = TYPO_KEY[lvl]
        for key, val in (("zz_unknown", 1), (tk, tv), ("additionalProperties", False)):
            add(f"{dotted(lvl)}:unknown-key:{key}", "set", lvl + (key,), val,
                "reject" if must else "unasserted", "unknown-key", dotted(lvl))
    return P


def apply_perturbation(base, pert):
    if pert["op"] == "none":
        return clone(base)
    if pert["op"] == "set":
        return set_path(base, tuple(pert["path"]), pert["value"])
    if pert["op"] == "del":
        return del_path(base, tuple(pert["path"]))
    raise ValueError(pert["op"])
