"""CLI: /verif/check <ID> [--tier quick|thorough] [--replay path] [--selftest]

exit 0  property held on everything explored (KNOWN-FINDING lines allowed)
exit 1  VIOLATION property=<ID> replay=<path>
exit 2  HARNESS-ERROR (the harness could not run; never reported as a property violation)
"""
from __future__ import annotations

import argparse
import fnmatch
import importlib
import json
import os
import subprocess
import sys
import time
import traceback

from . import explore

VERIF = os.path.dirname(os.path.dirname(os.path.abspath(__file__)))
IDS = ["C%02d" % i for i in range(1, 21)]


def load_known():
    p = os.path.join(VERIF, "known_findings.json")
    if not os.path.exists(p):
        return []
    with open(p) as fp:
        return json.load(fp)["findings"]


def match_known(prop_id, sig, known):
    for k in known:
        if k.get("property") == prop_id and k.get("status") == "known" and fnmatch.fnmatchcase(sig, k["signature"]):
            return k
    return None


def write_replay(prop_id, modname, funcname, case, viols):
    d = os.path.join(VERIF, "replays", prop_id)
    os.makedirs(d, exist_ok=True)
    key = explore.case_key({"m": modname, "f": funcname, "c": case})
    path = os.path.join(d, key + ".json")
    with open(path, "w") as fp:
        json.dump({"property": prop_id, "module": modname, "function": funcname,
                   "case": explore.jsonable(case), "violations": viols,
                   "how": f"./check {prop_id} --replay {path}"}, fp, indent=1, sort_keys=True)
    return path


def do_replay(prop_id, path, as_json=False):
    with open(path) as fp:
        rec = json.load(fp)
    explore._worker_init()
    res = explore.call_case((rec["module"], rec["function"], rec["case"]))
    if as_json:
        print(json.dumps({"viol": res["viol"], "harness_error": res.get("harness_error")}))
        return 0
    if res.get("harness_error"):
        print("HARNESS-ERROR", res["harness_error"])
        return 2
    print(json.dumps({k: v for k, v in res.items() if k != "_t"}, indent=1)[:6000])
    if res["viol"]:
        known = load_known()
        unknown = [v for v in res["viol"] if not match_known(prop_id, v["sig"], known)]
        for v in res["viol"]:
            k = match_known(prop_id, v["sig"], known)
            if k:
                print(f"KNOWN-FINDING: property={prop_id} {k['what']}")
        if unknown:
            print(f"VIOLATION property={prop_id} replay={path}")
            return 1
    return 0


def confirm_in_fresh_process(prop_id, path):
    """Re-execute a failing case twice in fresh interpreters; identical violation signatures required."""
    sigs = []
    for _ in range(2):
        try:
            out = subprocess.run([sys.executable, "-B", "-W", "ignore", "-m", "mc.run", prop_id, "--replay", path, "--json"],
                                 cwd=VERIF, capture_output=True, text=True, timeout=900)
            line = [l for l in out.stdout.splitlines() if l.startswith("{")][-1]
            rec = json.loads(line)
            sigs.append(sorted(v["sig"] for v in rec["viol"]) if not rec.get("harness_error") else ["HARNESS"])
        except Exception as e:  # pragma: no cover
            sigs.append([f"replay-failed:{type(e).__name__}"])
    return sigs


def main(argv=None):
    ap = argparse.ArgumentParser(prog="check")
    ap.add_argument("prop")
    ap.add_argument("--tier", default=os.environ.get("VERIF_TIER", "quick"), choices=["quick", "thorough"])
    ap.add_argument("--replay")
    ap.add_argument("--json", action="store_true")
    ap.add_argument("--selftest", action="store_true")
    ap.add_argument("--budget", type=float, default=None, help="soft time budget in seconds for capped enumerations")
    a = ap.parse_args(argv)

    prop_id = a.prop.upper()
    if prop_id not in IDS:
        print(f"HARNESS-ERROR unknown property {a.prop}")
        return 2
    try:
        seed = int(os.environ.get("VERIF_SEED", "0") or 0)
    except ValueError:
        seed = 0

    if a.replay:
        return do_replay(prop_id, a.replay, a.json)

    try:
        root = explore.bind()
    except Exception as e:
        print(f"HARNESS-ERROR cannot bind to tree: {e}")
        return 2

    mod = importlib.import_module(f"mc.props.{prop_id.lower()}")

    if a.selftest:
        ok = mod.selftest() if hasattr(mod, "selftest") else True
        print("selftest", "ok" if ok else "FAILED")
        return 0 if ok else 2

    ctx = explore.Ctx(prop_id, a.tier, seed)
    if a.budget:
        ctx.deadline = time.time() + a.budget
    t0 = time.time()
    err = None
    try:
        mod.explore(ctx)
    except explore.HarnessError as e:
        err = f"{e}"
    except Exception as e:
        err = f"uncaught {type(e).__name__}: {e}\n{traceback.format_exc()}"
    finally:
        ctx.close()
    wall = time.time() - t0

    known = load_known()
    known_hits, unknown = {}, []
    for case, v, modname, funcname in ctx.violations:
        k = match_known(prop_id, v["sig"], known)
        if k:
            known_hits.setdefault(k["signature"], [k, 0, (case, v, modname, funcname)])
            known_hits[k["signature"]][1] += 1
        else:
            unknown.append((case, v, modname, funcname))

    # group unknown violations by signature, shortest case first
    by_sig = {}
    for case, v, modname, funcname in unknown:
        by_sig.setdefault(v["sig"], []).append((case, v, modname, funcname))
    replay_paths = []
    for sig, items in list(by_sig.items())[:8]:
        items.sort(key=lambda t: len(json.dumps(explore.jsonable(t[0]))))
        case, v, modname, funcname = items[0]
        path = write_replay(prop_id, modname, funcname, case, [x[1] for x in items if x[0] is case] or [v])
        replay_paths.append((sig, path, v, len(items)))

    coverage = {
        "states": ctx.states,
        "transitions": ctx.transitions,
        "traces_validated_against_impl": ctx.evaluations,
        "evaluations": ctx.evaluations,
        "distinct_nontrivial": len(ctx.nontrivial_keys),
        "distinct_outcomes": len(ctx.outcomes),
        "outcomes": dict(ctx.outcomes.most_common(12)),
        "rule": ctx.rule,
        "exhaustive": bool(ctx.exhaustive),
        "samples": ctx.samples[:6] or [{"note": "no case executed"}],
        "parts": ctx.parts,
        "tree": root,
        "known_findings_hit": {k: n for k, (_, n, _) in known_hits.items()},
    }
    coverage.update(ctx.notes)
    ev = {
        "property_id": prop_id,
        "tier": a.tier,
        "seed": seed,
        "level": "model_checking",
        "coverage": coverage,
        "assumptions": ctx.assumptions,
        "wall_s": round(wall, 3),
        "violations": len(unknown),
    }
    evdir = os.environ.get("VERIF_EVIDENCE_DIR") or os.path.join(VERIF, "evidence")
    os.makedirs(evdir, exist_ok=True)
    evpath = os.path.join(evdir, f"{prop_id}.json")
    ev = explore.jsonable(ev)
    try:
        import jsonschema
        with open("/root/.vp/EVIDENCE.schema.json") as fp:
            jsonschema.validate(ev, json.load(fp))
    except FileNotFoundError:
        pass
    except Exception as e:
        err = (err or "") + f"\nevidence does not validate: {e}"
    with open(evpath, "w") as fp:
        json.dump(ev, fp, indent=1, sort_keys=True)

    print(f"[{prop_id}] tier={a.tier} seed={seed} executions={ctx.evaluations} states={ctx.states} "
          f"transitions={ctx.transitions} nontrivial={len(ctx.nontrivial_keys)} outcomes={len(ctx.outcomes)} "
          f"exhaustive={ctx.exhaustive} wall={wall:.1f}s")
    for part, p in ctx.parts.items():
        print(f"   part {part}: {p}")

    harness_broken = bool(err or ctx.harness_errors)
    if harness_broken:
        if err:
            print("HARNESS-ERROR", err)
        for case, he in ctx.harness_errors[:3]:
            print("HARNESS-ERROR in case", json.dumps(explore.jsonable(case))[:300], "\n", he)
        print(f"HARNESS-ERROR count={len(ctx.harness_errors) + (1 if err else 0)}")
        if not unknown:
            return 2
        # parts of the harness could not run, but other parts found genuine violations: report those (exit 1)

    for sig, (k, n, item) in known_hits.items():
        print(f"KNOWN-FINDING: property={prop_id} {k['what']} [{n} case(s)]")

    if unknown:
        for sig, path, v, n in replay_paths:
            conf = confirm_in_fresh_process(prop_id, path)
            stable = conf[0] == conf[1] and sig in conf[0]
            print(f"  violation x{n}: {sig}: {v['msg'][:500]}")
            if not stable:
                print(f"  NOTE replay in fresh processes gave {conf} (history-dependent or harness nondeterminism)")
            print(f"VIOLATION property={prop_id} replay={path}")
        return 1

    if ctx.evaluations and len(ctx.nontrivial_keys) < 2:
        print("HARNESS-ERROR sanity gate: fewer than two distinct non-trivial cases explored")
        return 2
    return 0


if __name__ == "__main__":
    sys.exit(main())
