"""Explorer core: deviation-lattice enumeration (mode A), history BFS (mode B),
parallel execution of cases on the real code, bookkeeping for evidence.

Nothing here samples: every enumerator walks a finite space completely up to the
stated bound.  VERIF_SEED only rotates the order of the walk and which cases are
echoed as samples.
"""
from __future__ import annotations

import hashlib
import importlib
import itertools
import json
import multiprocessing as mp
import os
import sys
import time
import traceback
from collections import Counter, OrderedDict, deque


# --------------------------------------------------------------------------- binding

def repo_root() -> str:
    return os.path.realpath(os.environ.get("VERIF_REPO", "/repo"))


def bind() -> str:
    """Make `import cij` resolve to the tree under test and assert that it did."""
    root = repo_root()
    if sys.path[0] != root:
        sys.path.insert(0, root)
    import cij  # noqa
    f = os.path.realpath(cij.__file__)
    if not f.startswith(root + os.sep):
        raise RuntimeError(f"HARNESS: cij imported from {f}, expected under {root}")
    return root


def _worker_init():
    os.environ.setdefault("PYTHONHASHSEED", "0")
    import warnings
    warnings.filterwarnings("ignore")
    import logging
    logging.disable(logging.CRITICAL)
    bind()


def jsonable(x):
    import numpy
    if isinstance(x, dict):
        return {str(k): jsonable(v) for k, v in x.items()}
    if isinstance(x, (list, tuple, set, frozenset)):
        return [jsonable(v) for v in x]
    if isinstance(x, numpy.ndarray):
        return jsonable(x.tolist())
    if isinstance(x, (numpy.integer,)):
        return int(x)
    if isinstance(x, (numpy.floating,)):
        return float(x)
    if isinstance(x, (numpy.bool_,)):
        return bool(x)
    if isinstance(x, complex):
        return [x.real, x.imag]
    if isinstance(x, (str, int, float, bool)) or x is None:
        return x
    return repr(x)


def case_key(case) -> str:
    return hashlib.sha1(json.dumps(jsonable(case), sort_keys=True).encode()).hexdigest()[:16]


class HarnessError(Exception):
    """The harness (duck, generator, reference) could not run: never a property violation."""


def call_case(spec):
    """Executed in a worker: spec = (module, function, case)."""
    modname, funcname, case = spec
    t0 = time.time()
    try:
        mod = importlib.import_module(modname)
        res = getattr(mod, funcname)(case)
        if res is None:
            res = {}
    except HarnessError as e:
        res = {"harness_error": f"{type(e).__name__}: {e}\n{traceback.format_exc(limit=6)}"}
    except Exception as e:  # an exception escaping run_case is a harness problem by contract
        try:
            res = {"harness_error": f"uncaught {type(e).__name__}: {e}\n{traceback.format_exc(limit=8)}"}
        except Exception:   # the exception cannot print itself
            res = {"harness_error": f"uncaught {type(e).__name__} (its message cannot be formatted)"}
    res.setdefault("viol", [])
    res.setdefault("nontrivial", True)
    res.setdefault("outcome", "ok" if not res["viol"] else "violation")
    res["_t"] = time.time() - t0
    return jsonable(res)


def run_in_interpreter(prop_id, modname, funcname, case, pyflags=("-O",), timeout=900):
    """Execute ONE case in a fresh interpreter started with the given flags (e.g. -O: assert statements and
    __debug__ blocks are stripped); returns the case's result dict.  Interpreter mode is part of the environment a
    user may run the package in."""
    import subprocess
    import tempfile
    verif = os.path.dirname(os.path.dirname(os.path.abspath(__file__)))
    fd, path = tempfile.mkstemp(suffix=".json", dir="/dev/shm" if os.path.isdir("/dev/shm") else None)
    try:
        with os.fdopen(fd, "w") as fp:
            json.dump({"property": prop_id, "module": modname, "function": funcname, "case": jsonable(case)}, fp)
        out = subprocess.run([sys.executable, *pyflags, "-B", "-W", "ignore", "-m", "mc.run", prop_id, "--replay", path, "--json"],
                             cwd=verif, capture_output=True, text=True, timeout=timeout)
        lines = [l for l in out.stdout.splitlines() if l.startswith("{")]
        if not lines:
            raise HarnessError(f"interpreter {pyflags} produced no result: {out.stderr[-400:]}")
        rec = json.loads(lines[-1])
        if rec.get("harness_error"):
            raise HarnessError(f"under {pyflags}: {rec['harness_error']}")
        return rec
    finally:
        os.unlink(path)


def interp_case(w):
    """case wrapper: run w['case'] through w['mod'].w['func'] in an interpreter started with w['flags']"""
    rec = run_in_interpreter(w["prop"], w["mod"], w["func"], w["case"], tuple(w["flags"]))
    tag = "python" + "".join(w["flags"])
    for v in rec["viol"]:
        head, _, tail = v["sig"].partition(":")
        v["sig"] = f"{head}:{tag}:{tail}"
    return {"viol": rec["viol"], "nontrivial": True, "outcome": f"{tag}-ok" if not rec["viol"] else rec["viol"][0]["sig"]}


def V(sig: str, msg: str) -> dict:
    """A violation record: `sig` identifies the failing class precisely (used for known findings)."""
    return {"sig": sig, "msg": msg}


# --------------------------------------------------------------------------- mode A

def lattice(dims: "OrderedDict[str, list]", bound: int | None = None):
    """BFS over the deviation lattice.  dims: name -> list of values, first is the default.
    Yields (config dict, deviations) level by level; bound=None means the full product."""
    names = list(dims)
    n = len(names)
    if bound is None or bound > n:
        bound = n
    for k in range(bound + 1):
        for which in itertools.combinations(range(n), k):
            alts = [range(1, len(dims[names[i]])) for i in which]
            for choice in itertools.product(*alts):
                idx = [0] * n
                for i, c in zip(which, choice):
                    idx[i] = c
                yield OrderedDict((names[i], dims[names[i]][idx[i]]) for i in range(n)), k


def lattice_size(dims, bound=None):
    names = list(dims)
    n = len(names)
    if bound is None or bound > n:
        bound = n
    total = 0
    edges = 0
    for k in range(bound + 1):
        for which in itertools.combinations(range(n), k):
            c = 1
            for i in which:
                c *= len(dims[names[i]]) - 1
            total += c
            edges += c * k
    return total, edges


# --------------------------------------------------------------------------- mode B

def sequences(alphabet, max_len, min_len=0):
    """All operation sequences over `alphabet` of length min_len..max_len, shortest first."""
    for L in range(min_len, max_len + 1):
        yield from itertools.product(alphabet, repeat=L)


def interleavings(a, b):
    """All order-preserving merges of the two operation lists a and b."""
    if not a:
        yield list(b)
        return
    if not b:
        yield list(a)
        return
    for rest in interleavings(a[1:], b):
        yield [a[0]] + rest
    for rest in interleavings(a, b[1:]):
        yield [b[0]] + rest


def history_bfs(alphabet, depth, step, canon0, enabled=None, max_states=None):
    """Explicit-state BFS where a state is the history reaching it.

    step(history) -> (canon, info): rebuilds the state by replaying `history` on fresh real
    objects, checks invariants, returns a canonical digest (or None to prune) and an info dict
    (collected by the caller).  Histories with equal canon are merged.
    Returns (states, transitions, infos)."""
    seen = {canon0}
    frontier = deque([()])
    transitions = 0
    infos = []
    while frontier:
        hist = frontier.popleft()
        if len(hist) >= depth:
            continue
        for ev in (enabled(hist) if enabled else alphabet):
            nxt = hist + (ev,)
            transitions += 1
            canon, info = step(nxt)
            infos.append(info)
            if canon is None or canon in seen:
                continue
            seen.add(canon)
            frontier.append(nxt)
            if max_states and len(seen) >= max_states:
                return len(seen), transitions, infos
    return len(seen), transitions, infos


# --------------------------------------------------------------------------- context

class Ctx:
    """Per-run bookkeeping handed to a property module's explore()."""

    def __init__(self, prop_id, tier, seed, nproc=None):
        self.prop_id = prop_id
        self.tier = tier
        self.seed = seed
        self.nproc = nproc or int(os.environ.get("VERIF_NPROC", os.cpu_count() or 4))
        self.evaluations = 0
        self.states = 0
        self.transitions = 0
        self.nontrivial_keys = set()
        self.outcomes = Counter()
        self.samples = []
        self.violations = []      # (case, viol dict, modname, funcname)
        self.harness_errors = []
        self.parts = OrderedDict()
        self.notes = OrderedDict()
        self.exhaustive = True
        self.rule = ""
        self.assumptions = []
        self._pool = None
        self.t0 = time.time()
        self.deadline = None

    @property
    def quick(self):
        return self.tier == "quick"

    # -- pool
    def pool(self):
        if self._pool is None:
            from concurrent.futures import ProcessPoolExecutor
            self._pool = ProcessPoolExecutor(self.nproc, mp_context=mp.get_context("spawn"), initializer=_worker_init)
        return self._pool

    def close(self):
        if self._pool is not None:
            self._pool.shutdown(wait=False, cancel_futures=True)
            self._pool = None

    # -- execution
    def run(self, modname, funcname, cases, part=None, parallel=True, chunksize=None,
            transitions=None, states=None):
        """Execute every case through modname.funcname on the real code; tally the results.
        `cases` must be a finite list; each case is JSON-serialisable."""
        cases = list(cases)
        if not cases:
            return []
        rot = self.seed % len(cases)
        order = cases[rot:] + cases[:rot]
        specs = [(modname, funcname, c) for c in order]
        if parallel and len(specs) > 1 and self.nproc > 1:
            cs = chunksize or max(1, min(64, len(specs) // (self.nproc * 4) or 1))
            try:
                results = list(self.pool().map(call_case, specs, chunksize=cs))
            except Exception as e:   # a worker died (BrokenProcessPool): never hang, never call it a violation
                self.close()
                raise HarnessError(f"worker pool broke while running part {part!r}: {type(e).__name__}: {e}")
        else:
            _worker_init()
            results = [call_case(s) for s in specs]
        nviol = 0
        for c, r in zip(order, results):
            self.evaluations += 1
            if r.get("harness_error"):
                self.harness_errors.append((c, r["harness_error"]))
                continue
            if r.get("nontrivial"):
                self.nontrivial_keys.add(r.get("key") or case_key(c))
            self.outcomes[str(r.get("outcome"))] += 1
            for v in r["viol"]:
                nviol += 1
                self.violations.append((c, v, modname, funcname))
        if len(self.samples) < 6:
            for c, r in list(zip(order, results))[:2]:
                self.samples.append({"part": part, "case": _shrink(c), "outcome": r.get("outcome")})
        n = len(cases)
        self.states += n if states is None else states
        self.transitions += n if transitions is None else transitions
        if part:
            p = self.parts.setdefault(part, {"executions": 0, "violations": 0})
            p["executions"] += n
            p["violations"] += nviol
        return _unrotate(results, rot)

    def run_under(self, modname, funcname, cases, flags=("-O",), part=None):
        """the same cases on the real code in fresh interpreters started with `flags` (environment dimension:
        -O strips assert statements and __debug__ blocks)"""
        wrapped = [{"prop": self.prop_id, "mod": modname, "func": funcname, "case": c, "flags": list(flags)} for c in cases]
        return self.run("mc.explore", "interp_case", wrapped, part=part or ("python" + "".join(flags)), chunksize=1)

    def run_lattice(self, modname, funcname, dims, bound, part=None, extra=None, canon=None, **kw):
        """Mode A: BFS over the deviation lattice of `dims` up to `bound` (None = full product)."""
        cases, seen = [], set()
        edges = 0
        for cfg, k in lattice(dims, bound):
            case = dict(cfg)
            if extra:
                case.update(extra)
            if canon:
                case = canon(case)
                if case is None:
                    continue
            key = case_key(case)
            edges += max(k, 1)
            if key in seen:
                continue
            seen.add(key)
            cases.append(case)
        full, _ = lattice_size(dims, None)
        done, _ = lattice_size(dims, bound)
        info = self.notes.setdefault("lattices", [])
        info.append({"part": part, "dims": {k: len(v) for k, v in dims.items()},
                     "bound": bound if bound is not None else len(dims),
                     "configs_in_bound": done, "full_product": full,
                     "distinct_after_canon": len(cases)})
        if done < full:
            self.exhaustive = False
        return cases, self.run(modname, funcname, cases, part=part, transitions=edges, **kw)

    def out_of_time(self):
        return self.deadline is not None and time.time() > self.deadline


def _unrotate(results, rot):
    if rot == 0:
        return results
    n = len(results)
    return results[n - rot:] + results[:n - rot]


def _shrink(x, maxlen=400):
    s = json.dumps(jsonable(x), sort_keys=True)
    if len(s) <= maxlen:
        return jsonable(x)
    return s[:maxlen] + "…"
