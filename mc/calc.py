"""Helpers to run the real Calculator on a synthetic data set inside a scratch directory."""
import contextlib
import os
import shutil
import tempfile

from mc import synth
from mc.explore import repo_root


@contextlib.contextmanager
def scratch(prefix="cij-verif-"):
    base = "/dev/shm" if os.path.isdir("/dev/shm") else None
    d = tempfile.mkdtemp(prefix=prefix, dir=base)
    try:
        yield d
    finally:
        shutil.rmtree(d, ignore_errors=True)


@contextlib.contextmanager
def chdir(d):
    old = os.getcwd()
    os.chdir(d)
    try:
        yield
    finally:
        os.chdir(old)


def system_fill(system):
    """reference fill: from a table holding (at least) the independent components of `system`, the full invariant
    tensor with vanishing components omitted"""
    import numpy

    def fill(table):
        if system in (None, "triclinic"):
            return dict(table)
        full = synth.system_tensor(system, table)
        return {p: v for p, v in full.items() if numpy.any(v != 0)}
    return fill


def fmt_exc(ex):
    import traceback
    tb = traceback.extract_tb(ex.__traceback__)
    where = ""
    for fr in reversed(tb):
        if "/cij/" in fr.filename:
            where = f" at {os.path.basename(fr.filename)}:{fr.lineno} `{fr.line}`"
            break
    return f"{type(ex).__name__}: {str(ex)[:200]}{where}"
