"""Synthetic-but-physical data sets (phonon file, static table, settings) generated from a JSON-able spec.
Writers are plain string formatting in the layout of the shipped examples; nothing here imports cij."""
import math
import os

import numpy
import yaml

from mc import duck as D

V0 = D.V0            # bohr^3
B0 = 200.0 / 14710.507848260711   # Ry/bohr^3 (200 GPa)
B0P = 5.2
C4 = 1.9          # quartic term in (x-1): the static energy is neither quadratic nor cubic in Eulerian strain
E0 = -120.0

VOLUME_SETS = {
    4: [318.0, 296.0, 270.0, 240.0],
    6: [318.0, 304.0, 288.0, 272.0, 255.0, 238.0],
    12: [322.0, 315.0, 307.0, 300.0, 292.0, 284.0, 276.0, 268.0, 260.0, 252.0, 244.0, 236.0],
    5: [318.0, 300.0, 281.0, 262.0, 240.0],
}

BASE_C = {  # GPa at V0; positive definite; c13 != c23 on purpose
    (1, 1): 300.0, (2, 2): 320.0, (3, 3): 280.0, (1, 2): 110.0, (1, 3): 95.0, (2, 3): 105.0,
    (4, 4): 80.0, (5, 5): 70.0, (6, 6): 90.0,
    (1, 4): 12.0, (1, 5): -9.0, (1, 6): 7.0, (2, 4): -11.0, (2, 5): 8.0, (2, 6): -6.0,
    (3, 4): 5.0, (3, 5): -4.0, (3, 6): 3.0, (4, 5): 6.0, (4, 6): -5.0, (5, 6): 4.0,
}
PAIRS21 = [(a, b) for a in range(1, 7) for b in range(a, 7)]


def system_tensor(system, c):
    """Full invariant tensor {pair: value} of `system` built from the independent entries of c (a dict pair->value
    or pair->array), following the standard setting (z principal axis, x two-fold axis, monoclinic unique axis y)."""
    z = 0.0 * c[(1, 1)]
    t = {p: z for p in PAIRS21}

    def put(**kw):
        for k, v in kw.items():
            t[(int(k[1]), int(k[2]))] = v
    if system in ("triclinic", None):
        return dict(c)
    if system == "monoclinic":
        for p in [(1, 1), (2, 2), (3, 3), (1, 2), (1, 3), (2, 3), (4, 4), (5, 5), (6, 6), (1, 5), (2, 5), (3, 5), (4, 6)]:
            t[p] = c[p]
        return t
    if system == "orthorhombic":
        for p in [(1, 1), (2, 2), (3, 3), (1, 2), (1, 3), (2, 3), (4, 4), (5, 5), (6, 6)]:
            t[p] = c[p]
        return t
    if system in ("tetragonal6", "tetragonal7"):
        put(c11=c[(1, 1)], c22=c[(1, 1)], c33=c[(3, 3)], c12=c[(1, 2)], c13=c[(1, 3)], c23=c[(1, 3)],
            c44=c[(4, 4)], c55=c[(4, 4)], c66=c[(6, 6)])
        if system == "tetragonal7":
            put(c16=c[(1, 6)], c26=-c[(1, 6)])
        return t
    if system in ("hexagonal", "trigonal6", "trigonal7"):
        put(c11=c[(1, 1)], c22=c[(1, 1)], c33=c[(3, 3)], c12=c[(1, 2)], c13=c[(1, 3)], c23=c[(1, 3)],
            c44=c[(4, 4)], c55=c[(4, 4)], c66=(c[(1, 1)] - c[(1, 2)]) / 2)
        if system in ("trigonal6", "trigonal7"):
            put(c14=c[(1, 4)], c24=-c[(1, 4)], c56=c[(1, 4)])
        if system == "trigonal7":
            put(c15=c[(1, 5)], c25=-c[(1, 5)], c46=-c[(1, 5)])
        return t
    if system == "cubic":
        put(c11=c[(1, 1)], c22=c[(1, 1)], c33=c[(1, 1)], c12=c[(1, 2)], c13=c[(1, 2)], c23=c[(1, 2)],
            c44=c[(4, 4)], c55=c[(4, 4)], c66=c[(4, 4)])
        return t
    raise ValueError(system)


INDEPENDENT = {
    "triclinic": PAIRS21,
    "monoclinic": [(1, 1), (2, 2), (3, 3), (1, 2), (1, 3), (2, 3), (4, 4), (5, 5), (6, 6), (1, 5), (2, 5), (3, 5), (4, 6)],
    "orthorhombic": [(1, 1), (2, 2), (3, 3), (1, 2), (1, 3), (2, 3), (4, 4), (5, 5), (6, 6)],
    "tetragonal7": [(1, 1), (3, 3), (1, 2), (1, 3), (4, 4), (6, 6), (1, 6)],
    "tetragonal6": [(1, 1), (3, 3), (1, 2), (1, 3), (4, 4), (6, 6)],
    "trigonal7": [(1, 1), (3, 3), (1, 2), (1, 3), (4, 4), (1, 4), (1, 5)],
    "trigonal6": [(1, 1), (3, 3), (1, 2), (1, 3), (4, 4), (1, 4)],
    "hexagonal": [(1, 1), (3, 3), (1, 2), (1, 3), (4, 4)],
    "cubic": [(1, 1), (1, 2), (4, 4)],
}
SYSTEMS = list(INDEPENDENT)


def eulerian(v0, v):
    return 0.5 * ((v0 / numpy.asarray(v, float)) ** (2.0 / 3.0) - 1.0)


def bm3_energy(v):
    v = numpy.asarray(v, float)
    x = (V0 / v) ** (2.0 / 3.0)
    return E0 + 9.0 * V0 * B0 / 16.0 * ((x - 1.0) ** 3 * B0P + (x - 1.0) ** 2 * (6.0 - 4.0 * x) + C4 * (x - 1.0) ** 4)


def static_value(pair, v, kind, vols):
    """tabulated GPa value of component `pair` at volume v"""
    c0 = BASE_C[pair]
    n = PAIRS21.index(pair)
    if kind == "cubicfit":     # V*c exactly cubic in the Eulerian strain relative to the first tabulated volume
        f = eulerian(vols[0], v)
        k1, k2, k3 = 6.0 + 0.3 * n, 9.0 - 0.7 * n, -14.0 + 1.1 * n
        return c0 * vols[0] / numpy.asarray(v, float) * (1.0 + k1 * f + k2 * f * f + k3 * f ** 3)
    # generic smooth: the least-squares character of the fit matters
    x = V0 / numpy.asarray(v, float)
    return c0 * x ** (2.1 + 0.05 * n) * (1.0 + 0.01 * numpy.sin(7.0 * x + n))


def make(spec):
    """spec: nv, nq, na, lattice (none|power|tab), system, compset (minimal|nonzero|full21), static (cubicfit|generic),
    wset,gset,bset (duck alphabets), weights, cellmass, poly_degree (1|2: degree of ln w in ln V)"""
    nv, nq, na = spec.get("nv", 6), spec.get("nq", 2), spec.get("na", 1)
    vols = numpy.array(VOLUME_SETS[nv], float)
    laws = D.mode_laws(nq, 3 * na, spec.get("wset", "mid"), spec.get("gset", "distinct"),
                       spec.get("bset", "distinct") if spec.get("poly_degree", 2) == 2 else "zero",
                       16 if nq * na >= 20 else None)
    x = numpy.log(vols / V0)
    freqs = numpy.zeros((nv, nq, 3 * na))
    for q in range(nq):
        for m in range(3 * na):
            if laws[q][m] is None:
                freqs[:, q, m] = [0.0, 0.0, 0.0][m % 3]
                continue
            w0, g0, b = laws[q][m]
            freqs[:, q, m] = w0 * numpy.exp(-g0 * x - 0.5 * b * x * x)
    if spec.get("dupq") and nq >= 3:
        # a q-mesh written without symmetry reduction: the last q-point repeats the one before it (same branches, same
        # frequencies at every volume); within the second q-point the first two branches are degenerate
        laws[nq - 1] = list(laws[nq - 2])
        freqs[:, nq - 1, :] = freqs[:, nq - 2, :]
        laws[1][1] = laws[1][0]
        freqs[:, 1, 1] = freqs[:, 1, 0]
    weights = D.weights_for(nq, spec.get("weights", "increasing"))
    qcoords = [(0.0, 0.0, 0.0)] + [(round(0.1 * q, 4), round(0.05 * q, 4), 0.5) for q in range(1, nq)]
    if spec.get("qlabels") == "collide" and nq >= 3:
        # coordinates printed with few digits: the last two q-points carry the SAME coordinate label (and different weights)
        qcoords[nq - 1] = qcoords[nq - 2]
    energies = bm3_energy(vols)
    system = spec.get("system") or "triclinic"
    compset = spec.get("compset", "minimal")
    if compset == "full21":
        supplied = list(PAIRS21)
    elif compset == "nonzero":
        one = system_tensor(system, {p: numpy.float64(BASE_C[p]) for p in PAIRS21})
        supplied = [p for p in PAIRS21 if one[p] != 0]
    elif compset == "ortho9":
        supplied = INDEPENDENT["orthorhombic"]
    else:
        supplied = list(INDEPENDENT[system])
    # the static table may be tabulated at its OWN volumes (another count than the phonon file's)
    pvols = vols
    if spec.get("static_nv"):
        vols = numpy.array(VOLUME_SETS[spec["static_nv"]], float)
    indep = {p: static_value(p, vols, spec.get("static", "cubicfit"), vols) for p in PAIRS21}
    full = system_tensor(system, indep)
    table = {p: full[p] for p in supplied}
    if spec.get("zero_entry"):
        # a small mixed constant that crosses zero and is tabulated as exactly 0.00 at ONE volume (the column does not vanish)
        zp, zrow = tuple(spec["zero_entry"][0]), spec["zero_entry"][1]
        if zp in table:
            table[zp] = numpy.array(table[zp], float) * 0 + 0.7 * (numpy.arange(len(vols)) - zrow)
    lattice = None
    if spec.get("lattice", "none") == "power":
        kap = (0.30, 0.36, 0.34)
        lattice = numpy.stack([a0 * (vols / V0) ** k for a0, k in zip((5.1, 6.3, 7.7), kap)], axis=1)
    elif spec.get("lattice") == "nlc":
        # negative linear compressibility along c (the axis lengthens under compression): its strain fraction is negative
        kap = (0.62, 0.58, -0.20)
        lattice = numpy.stack([a0 * (vols / V0) ** k for a0, k in zip((5.1, 6.3, 7.7), kap)], axis=1)
    elif spec.get("lattice") == "tab":
        xx = vols / V0
        lattice = numpy.stack([5.1 * xx ** 0.30 * (1 + 0.02 * (xx - 1) ** 2),
                               6.3 * xx ** 0.36 * (1 - 0.03 * (xx - 1) ** 2),
                               7.7 * xx ** 0.34 * (1 + 0.05 * (xx - 1))], axis=1)
        lattice[:, 2] = V0 * xx / (lattice[:, 0] * lattice[:, 1]) * (5.1 * 6.3 * 7.7 / V0)
    svols, vols = vols, pvols
    return {"vols": vols, "svols": svols, "energies": energies, "freqs": freqs, "weights": weights, "qcoords": qcoords,
            "na": na, "nm": spec.get("nm", 1), "pve": spec.get("pve", "f"), "laws": laws, "table": table, "supplied": supplied, "lattice": lattice,
            "vref": float(vols[1]), "cellmass": float(spec.get("cellmass", 100.3887)), "system": system}


def phonon_file_text(ds, title="synthetic"):
    nv, nq, npm = ds["freqs"].shape
    L = [f" {title}", " generated by mc.synth", " nv nq np nm na", f" {nv:10d} {nq:10d} {npm:10d} {ds['nm']:10d} {ds['na']:10d}", ""]
    for i in range(nv):
        pve = ds.get("pve", "f")
        if pve == "E":        # Fortran / %E style exponent notation
            L.append(f" P= {0.0:23.15E}      V= {ds['vols'][i]:23.15E}      E= {ds['energies'][i]:23.15E}")
        elif pve == "plus":   # explicit signs, fewer blanks
            L.append(f"P= {0.0:+.14f} V= {ds['vols'][i]:+.14f} E= {ds['energies'][i]:+.14f}")
        else:
            L.append(f" P= {0.0:22.14f}      V= {ds['vols'][i]:22.14f}      E= {ds['energies'][i]:22.14f}")
        for q in range(nq):
            L.append(" ".join(f"{c:22.16f}" for c in ds["qcoords"][q]))
            for m in range(npm):
                L.append(f" {ds['freqs'][i, q, m]:22.14f}")
    L.append("")
    L.append("weight")
    for q in range(nq):
        L.append(" ".join(f"{c:22.16f}" for c in ds["qcoords"][q]) + f" {ds['weights'][q]:.17g}")
    return "\n".join(L) + "\n"


def static_file_text(ds, columns=None, names=None, rows=None, scale=1.0, fmt="%.10f", lattice_header=" lattice_a lattice_b lattice_c", lattice_extra="", perturb=None):
    cols = columns or list(ds["supplied"])
    svols = ds.get("svols", ds["vols"])
    nv = len(svols)
    rows = list(range(nv)) if rows is None else rows
    mass = ds.get("cellmass_text") or f"{ds['cellmass']:.6f}"
    L = ["V_0 N cellmass synthetic", f"{ds['vref']:.8f} {nv} {mass}"]
    L.append("V " + " ".join((names[p] if names else "c%d%d" % p) for p in cols))
    for i in rows:
        L.append(f"{svols[i]:.8f} " + " ".join(fmt % (scale * ds["table"][p][i] + (perturb or {}).get(p, 0.0)) for p in cols))
    if ds["lattice"] is not None:
        L.append(lattice_header)
        for i in rows:
            L.append(" ".join(f"{a:.15f}" for a in ds["lattice"][i]) + lattice_extra)
    return "\n".join(L) + "\n"


DEFAULT_QHA = {"T_MIN": 0, "NT": 4, "DT": 300, "DT_SAMPLE": 300, "P_MIN": 0, "DELTA_P": 1.0, "DELTA_P_SAMPLE": 1.0,
               "NTV": 41, "order": 3, "static_only": False, "volume_ratio": 1.2}


def settings_dict(spec):
    q = dict(DEFAULT_QHA)
    q.update(spec.get("qha", {}))
    el = {"mode_gamma": {"interpolator": spec.get("interpolator", "lsq_poly"), "order": spec.get("order", 3)}}
    if spec.get("system") and spec.get("declare", True):
        el["symmetry"] = {"system": spec["system"]}
        el["symmetry"].update(spec.get("symmetry", {}))
    s = {"qha": {"input": "input01", "settings": q}, "elast": {"input": "elast.dat", "settings": el}}
    if "output" in spec:
        s["output"] = spec["output"]
    return s


def write(dirpath, spec, ds=None, **static_kw):
    ds = ds or make(spec)
    with open(os.path.join(dirpath, "input01"), "w") as fp:
        fp.write(phonon_file_text(ds))
    with open(os.path.join(dirpath, "elast.dat"), "w") as fp:
        fp.write(static_file_text(ds, **static_kw))
    st = settings_dict(spec)
    with open(os.path.join(dirpath, "settings.yaml"), "w") as fp:
        yaml.safe_dump(st, fp)
    return ds, st
