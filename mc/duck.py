"""Duck-typed calculator exposing exactly the attributes the phonon-contribution classes read
(properties C01-C04 `observe_at`).  Built from a JSON-able spec; spectra follow the analytic law of
fph_ref so that gamma and V dgamma/dV are exact."""
import math
from types import SimpleNamespace

import numpy

V0 = 300.0
GOLD = 0.6180339887498949


def _frac(x):
    return x - math.floor(x)


def mode_laws(nq, npm, wset, gset, bset, palette=None):
    """laws[q][m] = (w0, g0, b); distinct per (q,m) (or drawn from a palette of `palette` laws by a
    position-dependent pattern for large shapes).  Gamma acoustic slots are None."""
    lo, hi = {"low": (30.0, 60.0), "mid": (200.0, 900.0), "edge": (200.0, 1500.0)}[wset]
    laws = []
    for q in range(nq):
        row = []
        for m in range(npm):
            if q == 0 and m < 3:
                row.append(None)
                continue
            idx = q * npm + m
            if palette:
                idx = (7 * q + 3 * m + q * m) % palette
            u = _frac((idx + 1) * GOLD)
            w0 = lo + (hi - lo) * u
            if wset == "edge" and idx % 5 == 0:
                w0 = 1500.0
            if gset == "same":
                g0 = 1.3
            elif gset == "zero":
                g0 = 0.0
            else:
                g0 = -0.5 + 2.5 * _frac((idx + 3) * GOLD * GOLD)
                if idx % 7 == 1:
                    g0 = -0.5
            b = 0.0 if bset == "zero" else round(-1.0 + 2.0 * _frac((idx + 5) * 0.4142135623730951), 6)
            row.append((round(w0, 6), round(g0, 6), b))
        laws.append(row)
    return laws


def weights_for(nq, kind):
    if kind == "equal":
        return [1.0] * nq
    if kind == "increasing":
        return [1.0 + 2.0 * q for q in range(nq)]
    if kind == "scaled":
        return [7.5 * (1.0 + 2.0 * q) for q in range(nq)]
    if kind == "int":            # multiplicities given as integers
        return [1, 6, 8, 12, 24, 3, 4, 2][:nq] if nq <= 8 else [1 + (q % 12) for q in range(nq)]
    if kind == "zero-first":     # the first listed q-point (Gamma) carries weight 0 (a shifted mesh with Gamma kept in front)
        return [0.0] + [1.0 + 2.0 * q for q in range(1, nq)]
    if kind == "zero-last":
        return [1.0 + 2.0 * q for q in range(nq - 1)] + [0.0]
    raise ValueError(kind)


T_GRIDS = {"zero": [0.0], "std": [0.0, 300.0, 1500.0], "low": [0.5, 2.0, 10.0], "hot": [5000.0],
           "mix": [0.0, 1.0, 50.0, 300.0, 2000.0],
           "desc": [1500.0, 900.0, 300.0, 0.0], "mid0": [600.0, 0.0, 1200.0],            # T = 0 need not be the first row
           "n8": [0.0, 40.0, 150.0, 300.0, 600.0, 900.0, 1400.0, 2100.0],                 # lengths at block-size boundaries
           "n16": [25.0 * k * (1 + k / 8.0) for k in range(16)], "n7": [10.0 + 200.0 * k for k in range(7)],
           "n9": [0.0] + [100.0 * 1.4 ** k for k in range(8)]}
V_GRIDS = {"three": [280.0, 300.0, 320.0], "one": [311.0], "five": [250.0, 262.0, 300.0, 333.0, 361.0],
           "n8": [360.0 - 14.0 * k for k in range(8)], "n16": [365.0 - 7.5 * k for k in range(16)], "ascending": [255.0, 290.0, 340.0]}


def strain_field(kind, v):
    """(ntv,3) axial strain fractions, rows sum to 1."""
    v = numpy.asarray(v, float)
    n = len(v)
    if kind == "thirds":
        e = numpy.full((n, 3), 1.0 / 3.0)
    elif kind == "const":
        e = numpy.tile([0.2, 0.3, 0.5], (n, 1))
    elif kind == "extreme":
        e = numpy.tile([0.06, 0.06, 0.88], (n, 1))
    elif kind == "field":
        x = numpy.log(v / V0)
        e = numpy.stack([0.25 + 0.3 * x, 0.35 - 0.5 * x, 0.40 + 0.2 * x], axis=1)
    elif kind == "near":     # nearly equal: sits on the allclose de-duplication edge
        e = numpy.tile([1 / 3 + 1e-9, 1 / 3 - 2e-9, 1 / 3 + 1e-9], (n, 1))
    elif kind == "mixed-rows":     # a bit-exact hydrostatic row (reference state) among anisotropic rows
        x = numpy.log(v / V0)
        e = numpy.stack([0.25 + 0.3 * x, 0.35 - 0.5 * x, 0.40 + 0.2 * x], axis=1)
        e[0, :] = 1.0 / 3.0
    elif kind == "ones":           # un-normalised: what the package uses when no lattice block is given
        e = numpy.ones((n, 3))
        return e
    elif kind == "int":            # integer dtype
        e = numpy.array([[1, 1, 2], [2, 3, 4], [5, 3, 1], [1, 2, 2]][:n] if n <= 4 else [[1, 1, 2]] * n, dtype=int)
        return e
    elif kind == "int-equal":      # equal axial strains given as integers, magnitude varying with volume
        return numpy.array([[2, 2, 2], [1, 1, 1], [3, 3, 3], [2, 2, 2], [5, 5, 5]][:n] if n <= 5 else [[2, 2, 2]] * n, dtype=int)
    elif kind == "equal-varying":  # equal axial strains whose common magnitude varies with volume (un-normalised)
        return numpy.outer(1.0 + 0.5 * numpy.arange(n), [1.0, 1.0, 1.0])
    elif kind == "raw":            # positive axial strains that do not sum to 1
        e = numpy.tile([0.9, 1.0, 1.2], (n, 1))
        e[-1] = [2.0, 3.0, 7.0]
        return e
    elif kind == "two-equal":      # two equal axial fractions: rotated-frame leaves coincide with crystal-frame components
        e = numpy.tile([0.25, 0.25, 0.5], (n, 1))
    elif kind == "midpoint":       # e1 = (e2 + e3)/2
        e = numpy.tile([1.0 / 3.0, 0.2, 1.0 - 1.0 / 3.0 - 0.2], (n, 1))
    elif kind == "near13":   # equal to within 1e-13: inside any sensible de-duplication tolerance
        e = numpy.tile([1 / 3 + 1e-13, 1 / 3 - 2e-13, 1 / 3 + 1e-13], (n, 1))
    else:
        raise ValueError(kind)
    if kind == "mixed-rows":
        e[1:] = e[1:] / e[1:].sum(axis=1, keepdims=True)
        return e
    return e / e.sum(axis=1, keepdims=True)


def pressure_fields(kind, t, v):
    t = numpy.asarray(t, float)
    v = numpy.asarray(v, float)
    if kind == "zero":
        ps = numpy.zeros(len(v))
        p = numpy.zeros((len(t), len(v)))
    elif kind == "positive":
        ps = 1e-3 * (1.0 + (V0 - v) / 50.0)
        p = ps[None, :] + 2e-7 * t[:, None] + 1e-4
    else:  # signed
        ps = 2e-3 * (V0 - v) / 40.0 - 3e-4
        p = ps[None, :] - 1e-7 * t[:, None] + 5e-5 * numpy.sin(v / 30.0)[None, :]
    return p, ps


def heat_capacity(kind, t, v):
    t = numpy.asarray(t, float)
    v = numpy.asarray(v, float)
    if kind == "const":
        return numpy.full((len(t), len(v)), 3.1e-5)
    if kind == "tiny":      # a cold / small cell: positive but many orders below the usual 1e-5 Ry/K
        return 2.5e-11 * (1.0 + t[:, None] / 300.0) * (1.0 + 0.2 * numpy.sin(v[None, :] / 25.0))
    if kind == "large":
        return 4.0e-2 * (1.0 + t[:, None] / 900.0) * numpy.ones((1, len(v)))
    return 1e-5 * (1.0 + t[:, None] / 700.0) * (1.0 + 0.1 * numpy.cos(v[None, :] / 40.0))


def build(spec):
    """spec keys: nq, na, wset, gset, bset, weights, tgrid, vgrid, pkind, cv, gamma_fill, palette; optional "_at": the
    address (id) at which the calculator-like object should be allocated if the allocator can be brought to hand it out
    again (process histories in which a later object re-uses the address of a released earlier one)"""
    shell = _shell(spec.get("_at"))
    nq, na = spec["nq"], spec["na"]
    npm = 3 * na
    laws = mode_laws(nq, npm, spec["wset"], spec["gset"], spec["bset"], spec.get("palette"))
    t = numpy.array(T_GRIDS[spec["tgrid"]] if isinstance(spec["tgrid"], str) else spec["tgrid"], float)
    v = numpy.array(V_GRIDS[spec["vgrid"]] if isinstance(spec["vgrid"], str) else spec["vgrid"], float)
    x = numpy.log(v / V0)
    freq = numpy.zeros((len(v), nq, npm))
    gam = numpy.zeros_like(freq)
    vdg = numpy.zeros_like(freq)
    for q in range(nq):
        for m in range(npm):
            law = laws[q][m]
            if law is None:
                if spec.get("gamma_fill") == "garbage":
                    freq[:, q, m] = 5.0 + m
                    gam[:, q, m] = 40.0 + m
                    vdg[:, q, m] = -9.0
                continue
            w0, g0, b = law
            freq[:, q, m] = w0 * numpy.exp(-g0 * x - 0.5 * b * x * x)
            gam[:, q, m] = g0 + b * x
            vdg[:, q, m] = b
    w = weights_for(nq, spec["weights"])
    p, ps = pressure_fields(spec.get("pkind", "zero"), t, v)
    cv = heat_capacity(spec.get("cv", "const"), t, v)
    vb = SimpleNamespace(pressures=p, heat_capacity=cv, v_array=v, t_array=t)
    duck = calculator_like(
        _shell=shell,
        qha_calculator=SimpleNamespace(volume_base=vb, v_array=v, t_array=t),
        v_array=v, t_array=t, freq_array=freq, mode_gamma=[vdg, gam, gam ** 2],
        qha_input=SimpleNamespace(weights=[((0.0, 0.0, 0.1 * q), w[q]) for q in range(nq)], nq=nq, np=npm, na=na, nv=len(v)),
        na=na, nq=nq, np=npm, nv=len(v), static_p_array=ps,
    )
    return duck, laws, w, t, v


def _shell(at=None):
    """an empty Calculator instance; with `at`, allocate instances until the allocator hands out that address again (the
    others are released afterwards).  Returns None if cij cannot be imported that way."""
    try:
        from cij.core.calculator import Calculator
    except Exception:
        return None
    if at is None:
        return Calculator.__new__(Calculator)
    keep = []
    for _ in range(512):
        o = Calculator.__new__(Calculator)
        if id(o) == at:
            del keep
            return o
        keep.append(o)
    o = keep[0]
    del keep
    return o


def calculator_like(**attrs):
    """A REAL cij Calculator object that has not gone through __init__ (no files): the state a real run would have built
    is set directly.  Helper methods and properties of the class stay available to the code under test, so a refactoring
    that adds one is not a drift of the seam; attributes that the class defines as read-only properties are left to the
    class.  Falls back to a plain namespace if the class cannot be used that way."""
    shell = attrs.pop("_shell", None)
    try:
        from cij.core.calculator import Calculator
        obj = shell if shell is not None else Calculator.__new__(Calculator)
        obj.__dict__["qha_calculator"] = attrs["qha_calculator"]
        for k, val in attrs.items():
            try:
                setattr(obj, k, val)
            except AttributeError:
                pass
        for k in ("freq_array", "mode_gamma", "static_p_array", "na"):
            if getattr(obj, k) is not attrs[k]:
                raise TypeError(k)
        return obj
    except Exception:
        return SimpleNamespace(**attrs)


def clone(obj, **changes):
    """shallow copy of a calculator-like object with some attributes replaced (copy.copy cannot be used on an object whose
    class forwards unknown attributes)"""
    attrs = dict(vars(obj))
    attrs.update(changes)
    return calculator_like(**attrs) if not isinstance(obj, SimpleNamespace) else SimpleNamespace(**attrs)
