"""C14 — deterministic and isolated: hash seed, working directory, process history (mode B + subprocess dimension)."""
import hashlib
import itertools
import json
import os
import shutil
import subprocess
import sys

import numpy

from mc import synth, calc as K
from mc.explore import V, HarnessError, repo_root, interleavings

ID = "C14"
VERIF_ROOT = os.path.dirname(os.path.dirname(os.path.dirname(os.path.abspath(__file__))))
MOD = "mc.props.c14"

DATA = {
    "A": dict(nv=6, nq=2, na=1, lattice="power", system="orthorhombic", compset="minimal", static="generic", weights="increasing",
              qha=dict(T_MIN=0, NT=3, DT=500, DT_SAMPLE=500, NTV=21, DELTA_P=2.0, DELTA_P_SAMPLE=2.0),
              output={"pressure_base": ["cij", "bm_VRH", "G_VRH", "v", "vs", "vp", {"keyword": "G_R", "unit": "kbar"}],
                      "volume_base": ["p", "bm_V", {"keyword": "v_p", "unit": "m/s"}, "cij_t"]}),
    "B": dict(nv=5, nq=3, na=2, lattice="tab", system="trigonal7", compset="minimal", static="cubicfit", weights="scaled",
              interpolator="spline", order=3,
              qha=dict(T_MIN=100, NT=2, DT=700, DT_SAMPLE=700, NTV=25, DELTA_P=1.0, DELTA_P_SAMPLE=1.0, P_MIN=1),
              output={"pressure_base": ["cij_t", "cij", {"keyword": "bm_V", "unit": "kbar"}, {"keyword": "v_p", "fname": "vp_custom.txt"}],
                      "volume_base": ["p", "G_R", "vp", "cij"]}),
    "C": dict(nv=4, nq=1, na=2, lattice="none", system="cubic", compset="minimal", static="generic", weights="equal",
              qha=dict(T_MIN=0, NT=2, DT=300, DT_SAMPLE=300, NTV=17, DELTA_P=3.0, DELTA_P_SAMPLE=3.0),
              output={"pressure_base": ["cij", "v"]}),
}
# D: data set A whose settings also carry QHA keys in another letter case (unknown to the schema and to qha: accepted and
# ignored, so they must not make the result depend on anything)
DATA["D"] = dict(DATA["A"], qha=dict(DATA["A"]["qha"], delta_p=0.5, nt=7, Order=4, Static_Only=True))
READS = ["pb_adi_c11", "pb_iso_c11", "vb_KVRH", "adi_c11", "pb_vp", "pb_vol", "vb_s44", "iso_c12", "pb_c44"]
INPUTS = {"settings.yaml", "input01", "elast.dat"}


def sha(b):
    return hashlib.sha1(b).hexdigest()[:16]


def arr_digest(a):
    a = numpy.ascontiguousarray(numpy.asarray(a, float))
    return sha(a.tobytes() + str(a.shape).encode())


def do_read(c, p):
    from cij.util import c_
    if p == "adi_c11":
        return c.modulus_adiabatic[c_(1, 1)]
    if p == "pb_adi_c11":
        return c.pressure_base.modulus_adiabatic[c_(1, 1)]
    if p == "pb_iso_c11":
        return c.pressure_base.modulus_isothermal[c_(1, 1)]
    if p == "iso_c12":
        return c.modulus_isothermal[c_(1, 2)]
    if p == "vb_KVRH":
        return c.volume_base.bulk_modulus_voigt_reuss_hill
    if p == "pb_vp":
        return c.pressure_base.primary_velocities
    if p == "pb_vol":
        return c.pressure_base.volumes
    if p == "vb_s44":
        return c.volume_base.s44
    if p == "pb_c44":
        return c.pressure_base.c44
    raise HarnessError(p)


def module_digest():
    import qha.settings
    from cij.io.output import results_writer
    from cij.io.config import apply_default_config
    return sha(json.dumps([results_writer.DEFAULT_WRITER_RULES, {k: repr(v) for k, v in sorted(qha.settings.DEFAULT_SETTINGS.items())},
                           apply_default_config({}), process_globals()], sort_keys=True, default=repr).encode())


PANDAS_OPTIONS = ["display.precision", "display.float_format", "display.max_columns", "display.max_rows", "display.width", "display.max_colwidth",
                  "display.expand_frame_repr", "display.colheader_justify", "display.chop_threshold", "display.show_dimensions",
                  "mode.chained_assignment", "mode.copy_on_write", "mode.use_inf_as_na", "compute.use_numexpr", "compute.use_bottleneck",
                  "future.no_silent_downcasting", "mode.string_storage"]


def process_globals():
    """process-wide settings of the libraries cij's writers and readers go through (a calculation must not leave them changed:
    table labels are formatted by DataFrame.to_string, numbers by numpy's print options, arithmetic by numpy's error state)"""
    import decimal
    import locale
    import numpy
    import pandas
    out = {}
    for name in PANDAS_OPTIONS:
        try:
            out["pandas:" + name] = repr(pandas.get_option(name))
        except Exception:
            pass
    out["numpy:printoptions"] = repr(sorted((k, v) for k, v in numpy.get_printoptions().items() if k != "override_repr"))
    out["numpy:geterr"] = repr(sorted(numpy.geterr().items()))
    out["decimal:prec"] = decimal.getcontext().prec
    out["locale:numeric"] = repr(locale.getlocale(locale.LC_NUMERIC))
    out["recursionlimit"] = sys.getrecursionlimit()
    return out


def dir_digest(d, exclude=()):
    out = {}
    for fn in sorted(os.listdir(d)):
        p = os.path.join(d, fn)
        if fn in exclude or os.path.isdir(p):
            continue
        with open(p, "rb") as fp:
            out[fn] = sha(fp.read())
    return out


def write_inputs(d, name):
    spec = DATA[name]
    synth.write(d, spec)


def golden(name):
    """Executed in a fresh interpreter (python -m mc.props.c14 golden NAME): files of write_output, read digests."""
    from mc import explore
    explore._worker_init()
    from cij.core.calculator import Calculator
    with K.scratch() as d:
        write_inputs(d, name)
        out = os.path.join(d, "out")
        os.makedirs(out)
        c = Calculator(os.path.join(d, "settings.yaml"))
        with K.chdir(out):
            c.write_output()
        files = dir_digest(out)
        c2 = Calculator(os.path.join(d, "settings.yaml"))
        reads = {p: arr_digest(do_read(c2, p)) for p in READS}
    return {"files": files, "reads": reads, "module": module_digest()}


def golden_subprocess(name, seed="0"):
    env = dict(os.environ, PYTHONHASHSEED=str(seed))
    r = subprocess.run([sys.executable, "-B", "-W", "ignore", "-m", "mc.props.c14", "golden", name], capture_output=True, text=True, env=env, cwd=VERIF_ROOT)
    if r.returncode != 0:
        return {"error": (r.stderr or r.stdout)[-600:]}
    return json.loads(r.stdout.strip().splitlines()[-1])


# ------------------------------------------------------------------ subprocess dimension: cij run in a planted cwd

def run_cli_case(case):
    name, seed, extras = case["data"], case["seed"], case["extras"]
    gold = case["golden"]
    spec = DATA[name]
    viol = []
    with K.scratch() as d:
        write_inputs(d, name)
        planted = set()
        if extras == "system-dir":
            os.makedirs(os.path.join(d, spec["system"]))
            with open(os.path.join(d, spec["system"], "readme"), "w") as fp:
                fp.write("a directory that happens to be named like the crystal system\n")
        elif extras == "constraints-dir":
            os.makedirs(os.path.join(d, "constraints"))
            with open(os.path.join(d, "constraints", spec["system"]), "w") as fp:
                fp.write("c11 = c22 = c33 = c44\n")
        elif extras == "stale-outputs":
            for fn in gold["files"]:
                with open(os.path.join(d, fn), "w") as fp:
                    fp.write("T(K)\\P(GPa) 0.0 1.0\n0.0 9.9e+99 9.9e+99\n300.0 1.0 2.0\n999.0 3.0 4.0\n")
        elif extras == "unrelated":
            for fn in ("notes.txt", "c11s_tp_gpa.bak", "settings.json", "cubic.txt", "writer_rules.yml"):
                with open(os.path.join(d, fn), "w") as fp:
                    fp.write("{}\n")
                planted.add(fn)
        env = dict(os.environ, PYTHONHASHSEED=str(seed), PYTHONPATH=repo_root() + os.pathsep + VERIF_ROOT)
        rundir, settings = d, "settings.yaml"
        if extras == "other-cwd-with-decoys":
            # started from another directory that holds same-named input files of a different data set
            rundir = os.path.join(d, "elsewhere")
            os.makedirs(rundir)
            write_inputs(rundir, "C" if name != "C" else "A")
            os.remove(os.path.join(rundir, "settings.yaml"))
            planted |= {"input01", "elast.dat"}
            settings = os.path.join(d, "settings.yaml")
        pyflags = []
        interp = case.get("interp", "default")
        if interp == "-O":
            pyflags = ["-O"]                       # assert statements and __debug__ blocks stripped
        elif interp == "LC_ALL=C":
            env.update(LC_ALL="C", LANG="C")       # another process locale
        elif interp == "narrow-terminal":
            env.update(COLUMNS="20", LINES="5")    # a terminal size that table formatters may consult
        r = subprocess.run([sys.executable, *pyflags, "-B", "-W", "ignore", "-m", "cij.cli.cij", "run", settings], cwd=rundir, env=env,
                           capture_output=True, text=True)
        if r.returncode != 0:
            tail = (r.stderr or r.stdout).strip().splitlines()[-1:] or [""]
            exc = tail[0].split(":")[0][:40]
            return {"viol": [V(f"c14:cli:fails:{extras}:{exc}", f"`cij run` with PYTHONHASHSEED={seed} and cwd extras {extras!r} exits {r.returncode}: {tail[0][:300]}")],
                    "outcome": f"fails:{extras}"}
        files = dir_digest(rundir, exclude=INPUTS | planted)
    if files != gold["files"]:
        diff = sorted(k for k in set(files) | set(gold["files"]) if files.get(k) != gold["files"].get(k))
        viol.append(V(f"c14:cli:output-differs:{extras}" + ("" if seed == "0" else ":hashseed") + ("" if case.get("interp", "default") == "default" else ":" + case["interp"]),
                      f"`cij run` with PYTHONHASHSEED={seed}, cwd extras {extras!r}, interpreter/environment {case.get('interp', 'default')}: files differing from the golden run: {diff[:6]}"))
    return {"viol": viol, "nontrivial": seed != "0" or extras != "none", "outcome": f"identical/{len(files)}files" if not viol else viol[0]["sig"]}


# ------------------------------------------------------------------ history space, in-process

def run_history(case):
    """ops: ["new",x] ["read",x,p] ["write",x] ["fill"] ["cfg"] ["static"] ["fillcli"] ["refused"]; goldens come from fresh interpreters"""
    from cij.core.calculator import Calculator
    gold = case["golden"]
    viol = []
    objs = {}
    reads_seen = {}
    nchecks = 0
    with K.scratch() as d:
        for name in DATA:
            os.makedirs(os.path.join(d, name))
            write_inputs(os.path.join(d, name), name)
        # a settings file whose crystal system the table does not have: the symmetry check refuses the construction
        os.makedirs(os.path.join(d, "static"))
        write_inputs(os.path.join(d, "static"), "A")       # inputs of the run-static operation (never rewritten)
        os.makedirs(os.path.join(d, "refused"))
        synth.write(os.path.join(d, "refused"), dict(DATA["A"], system="cubic"), ds=synth.make(DATA["A"]))
        cwd0 = os.getcwd()
        m0 = module_digest()
        if m0 != gold["A"]["module"]:
            viol.append(V("c14:history:module-state-at-start", "module-level state of this long-lived worker differs from a fresh interpreter's (an earlier history leaked)"))
        content = {name: name for name in DATA}      # which data set the files in directory <name> currently hold
        built_from = {}
        for n, op in enumerate(case["ops"]):
            try:
                if op[0] == "swap":
                    # the input files of directory X are REWRITTEN IN PLACE (same paths) with another data set
                    new = "C" if content[op[1]] != "C" else op[1]
                    write_inputs(os.path.join(d, op[1]), new)
                    content[op[1]] = new
                elif op[0] == "new":
                    objs[op[1]] = Calculator(os.path.join(d, op[1], "settings.yaml"))
                    built_from[op[1]] = content[op[1]]
                    for p in ("adi_c11", "pb_vp"):
                        nchecks += 1
                        if arr_digest(do_read(objs[op[1]], p)) != gold[built_from[op[1]]]["reads"][p]:
                            viol.append(V(f"c14:history:new-differs:{p}", f"step {n} {op}: {p} of the calculator just built from the files now at that path (data set {content[op[1]]}) differs from a fresh process after history {case['ops'][:n]}"))
                elif op[0] == "read":
                    dg = arr_digest(do_read(objs[op[1]], op[2]))
                    nchecks += 1
                    if dg != gold[built_from[op[1]]]["reads"][op[2]]:
                        viol.append(V(f"c14:history:read-differs:{op[2]}", f"step {n} {op}: value differs from a fresh process after history {case['ops'][:n]}"))
                    if reads_seen.setdefault((op[1], op[2]), dg) != dg:
                        viol.append(V(f"c14:history:reread-differs:{op[2]}", f"step {n} {op}: reading twice gives different arrays"))
                elif op[0] == "write":
                    out = os.path.join(d, f"out{n}")
                    os.makedirs(out)
                    with K.chdir(out):
                        objs[op[1]].write_output()
                    files = dir_digest(out)
                    nchecks += 1
                    gfiles = gold[built_from[op[1]]]["files"]
                    if files != gfiles:
                        diff = sorted(k for k in set(files) | set(gfiles) if files.get(k) != gfiles.get(k))
                        viol.append(V("c14:history:write-differs", f"step {n} {op}: files {diff[:5]} differ from the golden files after history {case['ops'][:n]}"))
                elif op[0] == "fill":
                    import pandas
                    from cij.util.fill import fill_cij
                    df = pandas.DataFrame({"V": [300.0, 280.0], "c11": [301.5, 333.25], "c12": [110.25, 121.5], "c44": [80.75, 88.5]})
                    with K.chdir(d):
                        once = fill_cij(df.copy(), "cubic")
                        twice = fill_cij(once.copy(), "cubic")
                    nchecks += 1
                    if sorted(once.columns) != sorted(twice.columns) or not numpy.allclose(once[sorted(once.columns)].to_numpy(float), twice[sorted(once.columns)].to_numpy(float), rtol=1e-9, atol=0):
                        viol.append(V("c14:fill-not-idempotent", f"filling an already filled cubic table changes it: {sorted(once.columns)} -> {sorted(twice.columns)}"))
                elif op[0] == "static":
                    # another cij command earlier in the same interpreter (process history)
                    from click.testing import CliRunner
                    from cij.cli.static import main as static_main
                    args = [os.path.join(d, "static", "input01"), os.path.join(d, "static", "elast.dat"), "-I", "volume", "-n", "21"]
                    r = CliRunner().invoke(static_main, args)
                    if r.exit_code != 0:
                        viol.append(V("c14:history:raises:static", f"step {n}: run-static failed: {r.exception!r}"))
                elif op[0] == "fillcli":
                    from click.testing import CliRunner
                    from cij.cli.fill import main as fill_main
                    r = CliRunner().invoke(fill_main, [os.path.join(d, "C", "elast.dat"), "-s", "cubic"])
                    if r.exit_code != 0:
                        viol.append(V("c14:history:raises:fillcli", f"step {n}: cij fill failed: {r.exception!r}"))
                elif op[0] == "fill-ignore":
                    # a symmetry fill of a table that contradicts the system, accepted because the residual check is switched off
                    import pandas
                    from cij.util.fill import fill_cij
                    df = pandas.DataFrame({"V": [300.0, 280.0], "c11": [301.5, 333.25], "c22": [303.0, 335.0], "c33": [301.5, 333.25],
                                           "c12": [110.25, 121.5], "c44": [80.75, 88.5]})
                    with K.chdir(d):
                        fill_cij(df, "cubic", ignore_residuals=True)
                elif op[0] == "fill-retry":
                    # "try systems until one is accepted" on ONE table object: the refused attempt must leave the table as
                    # it was, so the accepted attempt equals a fill of a fresh copy
                    import pandas
                    from cij.util.fill import fill_cij
                    mk = lambda: pandas.DataFrame({"V": [300.0, 280.0, 260.0], "c11": [301.5, 333.25, 370.0], "c33": [280.5, 310.0, 350.25],
                                                   "c12": [110.25, 121.5, 130.0], "c13": [90.0, 99.5, 111.25], "c44": [80.75, 88.5, 97.0]})
                    t1, t2 = mk(), mk()
                    with K.chdir(d):
                        try:
                            fill_cij(t1, "cubic")          # hexagonal data: refused
                            raise HarnessError("a hexagonal table was accepted as cubic: 'fill-retry' is vacuous")
                        except HarnessError:
                            raise
                        except (Exception, Warning):
                            pass
                        a = fill_cij(t1, "hexagonal")
                        b = fill_cij(t2, "hexagonal")
                    nchecks += 1
                    if sorted(a.columns) != sorted(b.columns) or not numpy.allclose(a[sorted(a.columns)].to_numpy(float), b[sorted(b.columns)].to_numpy(float), rtol=1e-12, atol=0):
                        viol.append(V("c14:history:fill-after-refused-fill-differs", f"step {n}: filling a table as hexagonal after a REFUSED cubic attempt on the same table object differs from filling a fresh copy: columns {sorted(a.columns)} vs {sorted(b.columns)}"))
                elif op[0] == "refused":
                    # a calculation that FAILS earlier in the same process (a caller trying systems in a try/except loop)
                    try:
                        Calculator(os.path.join(d, "refused", "settings.yaml"))
                        raise HarnessError("the orthorhombic table was accepted as cubic: the 'refused' operation is vacuous")
                    except HarnessError:
                        raise
                    except (Exception, Warning):
                        pass
                elif op[0] == "cfg":
                    from cij.io.config import apply_default_config
                    cfg = apply_default_config({})
                    cfg["qha"]["settings"]["NT"] = 99999           # a caller scribbling on the returned dict
                    cfg["output"]["pressure_base"].append("zz")
                else:
                    raise HarnessError(f"unknown op {op}")
            except HarnessError:
                raise
            except Exception as ex:
                viol.append(V(f"c14:history:raises:{op[0]}:{type(ex).__name__}", f"step {n} {op} after {case['ops'][:n]}: {K.fmt_exc(ex)}"))
                break
            if os.getcwd() != cwd0:
                viol.append(V(f"c14:history:cwd-changed:{op[0]}", f"step {n} {op}: the process's working directory is now {os.getcwd()!r} (was {cwd0!r})"))
                os.chdir(cwd0)
                break
            if module_digest() != m0:
                viol.append(V(f"c14:history:module-state-changed:{op[0]}", f"step {n} {op}: module-level state (writer rules / qha defaults / packaged defaults) changed"))
                break
    lazies = 0
    return {"viol": viol, "nontrivial": nchecks > 0, "outcome": f"ok/{nchecks}checks" if not viol else viol[0]["sig"],
            "canon": sha(json.dumps([sorted((k, sorted(p for (x, p) in reads_seen if x == k)) for k in objs)]).encode())}


def valid_histories(alphabet, depth):
    out = []

    def rec(h, have, swapped):
        if h:
            out.append(list(h))
        if len(h) >= depth:
            return
        for op in alphabet:
            if op[0] in ("read", "write") and op[1] not in have:
                continue
            if op[0] == "new" and op[1] in have and op[1] not in swapped:
                continue
            if op[0] == "swap" and h and h[-1] == op:
                continue
            rec(h + [op], have | ({op[1]} if op[0] == "new" else set()),
                (swapped | {op[1]}) if op[0] == "swap" else (swapped - {op[1]}) if op[0] == "new" else swapped)
    rec([], frozenset(), frozenset())
    return out


def explore(ctx):
    ctx.rule = ("subprocess space: `cij run` under PYTHONHASHSEED in {0,1,2} (quick; full product for data set A, seed 1 for B and C) / "
                "{0..15, random} (thorough) x 6 working-directory situations (incl. started elsewhere next to decoy inputs) x 3 data sets (+ interpreter started with -O, process locale C, a 20-column terminal), outputs byte-compared with a golden run; history space: all valid operation sequences of "
                "depth <=3 (quick) / <=4 (thorough) over {new A/B, read(x, p), write(x), fill, cfg, run-static, cij fill, a construction refused by the symmetry check, input files rewritten in place with another data set, a fill with the residual check switched off, a refused fill followed by an accepted one on the same table object} on real objects in long-lived workers, "
                "plus all 35 order-preserving interleavings of A:[new,read,read,write] with B:[new,read,write]; oracles: every write "
                "byte-identical to the golden files, every read bit-identical to a fresh process and to itself when repeated, working directory unchanged after every operation, module-level "
                "state digests (writer rules, qha and packaged defaults, pandas / numpy / decimal / locale process options) never change, fill(fill(x)) = fill(x); non-trivial = at least one comparison made")
    ctx.assumptions = ["goldens come from fresh interpreters with PYTHONHASHSEED=0 in a clean directory", "pint's internal conversion caches are not part of the state digest (keyed memoisation of immutable results)"]
    gold = {}
    from concurrent.futures import ThreadPoolExecutor
    with ThreadPoolExecutor(6) as ex:
        futs = {(name, i): ex.submit(golden_subprocess, name) for name in DATA for i in (0, 1)}
    for name in DATA:
        g = futs[(name, 0)].result()
        if "error" in g:
            ctx.violations.append(({"kind": "golden", "data": name}, V("c14:golden-run-fails", f"the reference run of data set {name} in a fresh interpreter failed: {g['error'][-300:]}"), MOD, "run_golden"))
            return
        g2 = futs[(name, 1)].result()
        if g2 != g:
            ctx.violations.append(({"kind": "golden", "data": name}, V("c14:rerun-differs", f"two identical fresh runs of data set {name} differ"), MOD, "run_golden"))
        gold[name] = g
    seeds = ["0", "1", "2"] if ctx.quick else [str(i) for i in range(16)] + ["random"]
    extras = ["none", "system-dir", "constraints-dir", "stale-outputs", "unrelated", "other-cwd-with-decoys"]
    cli = [{"data": dn, "seed": s, "extras": e, "golden": gold[dn]} for dn in DATA for s in seeds for e in extras
           if not ctx.quick or dn == "A" or s == "1"]
    cli += [{"data": "D", "seed": s, "extras": "none", "golden": gold["D"]} for s in ("3", "4", "5", "6", "7") if ctx.quick]
    cli += [{"data": dn, "seed": "1", "extras": "none", "golden": gold[dn], "interp": it} for dn in (("A",) if ctx.quick else DATA)
            for it in ("-O", "LC_ALL=C", "narrow-terminal")]
    ctx.run(MOD, "run_cli_case", cli, part="subprocess-cli", chunksize=1)
    reads = READS[:3] if ctx.quick else READS[:5]
    alphabet = [["new", "A"], ["new", "B"]] + [["read", x, p] for x in "AB" for p in reads] + [["write", "A"], ["write", "B"], ["fill"], ["cfg"], ["static"], ["fillcli"], ["refused"], ["swap", "A"], ["fill-ignore"], ["fill-retry"]]
    hist = valid_histories(alphabet, 3 if ctx.quick else 4)
    a_ops = [["new", "A"], ["read", "A", "pb_iso_c11"], ["read", "A", "pb_adi_c11"], ["write", "A"]]
    b_ops = [["new", "B"], ["read", "B", "pb_adi_c11"], ["write", "B"]]
    inter = list(interleavings(a_ops, b_ops))
    # repeated writes and reads
    extra = [[["new", "A"], ["write", "A"], ["read", "A", "pb_vp"], ["write", "A"], ["read", "A", "pb_vp"], ["write", "A"]],
             [["new", "B"], ["cfg"], ["write", "B"], ["fill"], ["new", "A"], ["write", "A"], ["write", "B"]],
             [["new", "A"], ["new", "B"], ["write", "B"], ["write", "A"], ["read", "B", "pb_c44"], ["read", "B", "pb_c44"]]]
    extra += [[["new", "A"], ["read", "A", "pb_vp"], ["swap", "A"], ["new", "A"], ["write", "A"]],
              [["new", "A"], ["swap", "A"], ["new", "A"], ["swap", "A"], ["new", "A"], ["read", "A", "pb_adi_c11"]],
              [["static"], ["swap", "A"], ["new", "A"], ["write", "A"]]]
    cases = [{"ops": h, "golden": {k: gold[k] for k in ("A", "B", "C")}} for h in hist + inter + extra]
    res = ctx.run(MOD, "run_history", cases, part="histories", chunksize=8, transitions=sum(len(c["ops"]) for c in cases))
    ctx.states = len({r.get("canon") for r in res}) + len(cli)
    ctx.notes["histories"] = len(cases)
    ctx.notes["interleavings"] = len(inter)
    ctx.notes["alphabet"] = len(alphabet)
    ctx.notes["hash_seeds"] = seeds


def run_golden(case):
    g = golden_subprocess(case["data"])
    if "error" in g:
        return {"viol": [V("c14:golden-run-fails", g["error"][-300:])]}
    return {"viol": []}


def selftest():
    return len(list(interleavings([1, 2, 3, 4], [5, 6, 7]))) == 35


if __name__ == "__main__":
    if sys.argv[1] == "golden":
        import warnings
        warnings.filterwarnings("ignore")
        print(json.dumps(golden(sys.argv[2])))
