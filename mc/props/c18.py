"""C18 — `cij run-static` reports a consistent static EoS and elasticity table in every mode (mode A).

Seam: `cij run-static INPUT01 [INPUT02] -I {none,volume,pressure} ...` invoked in-process (click CliRunner on
cij.cli.cij:main) inside a per-case scratch cwd; the stdout table is parsed by static_ref.parse_table.

The same data are also *presented* differently: volume blocks of INPUT01 and rows of INPUT02 in descending, ascending and
shuffled order, --v-ratio 1.2/1.05/1.5, and explicit (P_MIN, DELTA_P, n) requests with non-binary steps; a least-squares
fit does not depend on the listing order, so the reference is unchanged and mode-none rows follow the file's order.

Oracle (mc.ref.static_ref, written from the statement, never imports cij), per row and per column:
  V        none: the input volumes; volume: n equidistant volumes from Vmin/1.2 to Vmax*1.2 (the documented meaning of
           --v-ratio, default 1.2); pressure: P_fit(V) = requested pressure                                   [A^3]
  F        none: the input energies; otherwise the quadratic-in-f least-squares fit at the *reported* V         [eV]
  P        -dF/dV of that fit, analytic; pressure mode: P_MIN + j*DELTA_P (every k-th with --delta-p-sample)   [GPa]
  density  cell mass (file value, or --cellmass) / reported V                                               [g/cm^3]
  c_ij     quadratic-in-f least-squares fit of the tabulated column at the reported V, after the symmetry fill [GPa]
  bm_*, G_*  Voigt/Reuss/Hill from full-tensor traces (tensor_ref.vrh)                                         [GPa]
  v_p, v_s, v_phi   rho v^2 = K+4G/3, G, K of the Hill values                                                  [km/s]

Tolerances (DESIGN section 5), all computed from the reference, none tuned:
  * every comparison: half a unit of the last printed digit of the observed token
  * unit-bearing columns (V, F, P, density, velocities): 1e-7 relative (CODATA vintage); unit-free ones (moduli and
    averages, GPa in = GPa out): 1e-9 relative
  * quantities evaluated at the reported V: + their change over dV = printed half unit of V + 1e-7 V
  * P where the command may differentiate numerically on the n-point grid: Taylor-remainder bound of the difference
    quotient from the reference's own F''' (h^2/6 sup|F'''| interior) and F'' (h/2 sup|F''| at the two end nodes);
    mode none: those node bounds propagated through the (linear) cubic-spline operator + the spline's own error
  * pressure mode, V(P): the larger of (a) the first-order propagation of the node bounds through a 4-point Lagrange
    inverse interpolation (sum |l_m| |P'(V)/P'(v_m)| bound_m) and (b) the worst |P_fit(V') - P| over the 16 inverse
    interpolations with each of the four node pressures at either end of [exact - bound, exact + bound]; + twice the
    reference's own inverse-interpolation residual on exact node pressures
  * pressure mode, F: |sum l_k F(v_k) - F(sum l_k v_k)| <= 1/2 sup|F''| sum |l_k| (v_k - V)^2 (Taylor, any weights of
    sum one), with the largest sum over the same 16 + 1 weight sets
"""
from __future__ import annotations

import math
import os
from collections import OrderedDict

import numpy

from mc import synth, calc as K
from mc.explore import V, HarnessError, repo_root

ID = "C18"
MOD = "mc.props.c18"

RT_UNIT = 1e-7      # unit-bearing
RT_FREE = 1e-9      # unit-free algebra
V_RATIO = 1.2       # documented default of --v-ratio
ORDERS = ["desc", "asc", "smallest-first", "largest-last", "middle-first"]

PRANGES = {"r0": (0.0, 50.0), "r1": (-5.0, 60.0)}      # GPa, inside the pressures spanned by every volume set below
TABLES = {               # name -> (synth system, -s argument)
    "none": (None, None),
    "ortho9": ("orthorhombic", None),
    "ortho9+s": ("orthorhombic", "orthorhombic"),
    "cubic+s": ("cubic", "cubic"),
    "trigonal7+s": ("trigonal7", "trigonal7"),
    # every other packaged system; synth.BASE_C has non-zero distinguishing constants (c16 = 7 for tetragonal7,
    # c14 = 12 / c15 = -9 trigonal, c15, c25, c35, c46 monoclinic), expected fill from the Laue-class invariants
    "tetragonal7+s": ("tetragonal7", "tetragonal7"),
    "tetragonal6+s": ("tetragonal6", "tetragonal6"),
    "trigonal6+s": ("trigonal6", "trigonal6"),
    "hexagonal+s": ("hexagonal", "hexagonal"),
    "monoclinic+s": ("monoclinic", "monoclinic"),
    "triclinic+s": ("triclinic", "triclinic"),
}
CELLMASS = 57.25
DIMS = OrderedDict([
    ("mode", ["pressure", "none", "volume"]),
    ("n", [101, 11, 401]),
    ("prange", ["r0", "r1"]),
    # stride of --delta-p-sample in units of DELTA_P; n - 1 = 100, 10, 400 is divisible by 2, 5 (and 4 for 100, 400), never by 3 or 7
    ("sample", [None, 2, 5, 3, 4, 7]),
    ("table", ["ortho9", "none", "ortho9+s", "cubic+s", "trigonal7+s", "tetragonal7+s", "tetragonal6+s", "trigonal6+s", "hexagonal+s",
               "monoclinic+s", "triclinic+s"]),
    # columns of the table: the independent constants only, or every non-vanishing constant (symmetry-related ones listed too)
    ("compset", ["minimal", "nonzero"]),
    ("cellmass", [None, CELLMASS]),
    ("data", ["bm3", "quad", "noise"]),
    # number of volumes in INPUT01; 3 = the quadratic fit is exactly determined (interpolation), 4 and 5 just above
    ("nv", [6, 4, 12, 3, 5]),
    # volumes of the static table: the same set as INPUT01, or an own set of 5 ("other"), 3 or 4 volumes
    ("tabvols", ["same", "other", 3, 4]),
    # presentation of the same data: order of the volume blocks of INPUT01, of the rows of INPUT02; --v-ratio
    ("order01", ["desc", "asc", "smallest-first", "largest-last", "middle-first"]),
    ("order02", ["desc", "asc", "middle-first"]),
    ("vratio", [None, 1.05, 1.5]),
    # number format of the `P= V= E=` volume headers of INPUT01: plain decimals, exponent notation (%E), explicit + sign
    ("pve", ["f", "E", "plus"]),
])
PRESENTATION = ("order01", "order02", "vratio", "pve")
# explicit pressure requests (P_MIN, DELTA_P, n) with step sizes that are not binary fractions; all inside the fitted range
REQUESTS = [(pmin, dp, n) for dp in (0.1, 0.3, 0.7) for n in (30, 53, 61, 101) for pmin in (0.0, -5.0, 0.1) if pmin + dp * (n - 1) <= 65.0]


def permutation(order, nv):
    """indices into the descending-volume listing"""
    idx = list(range(nv))
    if order in (None, "desc"):
        return idx
    if order == "asc":
        return idx[::-1]
    if order == "smallest-first":       # first*ratio can fall below the largest volume
        return [nv - 1] + idx[:-1]
    if order == "largest-last":         # last/ratio can lie above the smallest volume
        return idx[1:] + [0]
    if order == "middle-first":         # m, m+1, m-1, m+2, ...: still ends with the smallest volume
        m = nv // 2 - 1
        out = [m]
        for k in range(1, nv):
            for j in (m + k, m - k):
                if 0 <= j < nv and j not in out:
                    out.append(j)
        return out
    raise HarnessError(f"unknown order {order}")


def reorder(ds, order):
    perm = permutation(order, len(ds["vols"]))
    if sorted(perm) != list(range(len(ds["vols"]))):
        raise HarnessError(f"not a permutation: {perm}")
    out = dict(ds)
    out["vols"] = ds["vols"][perm]
    out["energies"] = ds["energies"][perm]
    out["freqs"] = ds["freqs"][perm]
    out["table"] = {p: numpy.asarray(v)[perm] for p, v in ds["table"].items()}
    out["svols"] = out["vols"]           # the static table is written on the same (permuted) volumes
    if ds.get("lattice") is not None:
        out["lattice"] = ds["lattice"][perm]
    return out


# ----------------------------------------------------------------------------- data sets

def energies_of(data, vols):
    """quad: third-order Birch-Murnaghan with B0' = 4, which is exactly quadratic in the Eulerian strain;
    bm3: B0' = 5.5 (the quadratic fit has a residual); noise: bm3 + 3e-4 Ry sin(0.3 + 1.7 i)"""
    v = numpy.asarray(vols, float)
    x = (synth.V0 / v) ** (2.0 / 3.0)
    bp = 4.0 if data == "quad" else 5.5
    e = synth.E0 + 9.0 * synth.V0 * synth.B0 / 16.0 * ((x - 1.0) ** 3 * bp + (x - 1.0) ** 2 * (6.0 - 4.0 * x))
    if data == "noise":
        e = e + 3e-4 * numpy.sin(0.3 + 1.7 * numpy.arange(len(v)))
    return e


def table_of(data, ds):
    """quad: every independent component exactly quadratic in f (relative to V0 = 300, not to a tabulated volume);
    otherwise synth's generic smooth table, for `noise` with +-0.05 GPa deterministic scatter"""
    vols = ds["vols"]
    system = ds["system"]
    if data == "quad":
        f = synth.eulerian(synth.V0, vols)
        indep = {p: synth.BASE_C[p] * (1.0 + (6.9 + 0.1 * n) * f + (17.0 - 0.5 * n) * f * f) for n, p in enumerate(synth.PAIRS21)}
    else:
        indep = {p: synth.static_value(p, vols, "generic", vols) for p in synth.PAIRS21}
        if data == "noise":
            indep = {p: val + 0.05 * numpy.sin(0.7 * n + 2.3 * numpy.arange(len(vols))) for n, (p, val) in enumerate(indep.items())}
    full = synth.system_tensor(system, indep)
    return {p: full[p] for p in ds["supplied"]}


def make_volumes(spec, nv):
    """synth data set on nv volumes; 3 volumes = first, middle and last of synth's 5-volume set (318, 281, 240)"""
    if nv != 3:
        return synth.make(dict(spec, nv=nv))
    ds = synth.make(dict(spec, nv=5))
    rows = [0, 2, 4]
    out = dict(ds)
    out["vols"] = ds["vols"][rows]
    out["energies"] = ds["energies"][rows]
    out["freqs"] = ds["freqs"][rows]
    out["table"] = {p: numpy.asarray(v)[rows] for p, v in ds["table"].items()}
    out["svols"] = out["vols"]
    if ds.get("lattice") is not None:
        out["lattice"] = ds["lattice"][rows]
    out["vref"] = float(out["vols"][1])
    return out


def write_inputs(d, case):
    """writes input01 (and elast.dat); returns the file arguments of the command line"""
    system, sarg = TABLES[case["table"]]
    spec = dict(nv=case["nv"], nq=1, na=1, system=system or "orthorhombic", compset=case.get("compset") or "minimal", static="generic",
                pve=case.get("pve") or "f")
    ds = make_volumes(spec, case["nv"])
    ds["energies"] = energies_of(case["data"], ds["vols"])
    with open(os.path.join(d, "input01"), "w") as fp:
        fp.write(synth.phonon_file_text(reorder(ds, case.get("order01"))))
    args = ["run-static", "input01"]
    if system is not None:
        tv = case.get("tabvols", "same")
        dt = ds if tv == "same" else make_volumes(spec, 5 if tv == "other" else int(tv))
        dt["table"] = table_of(case["data"], dt)
        with open(os.path.join(d, "elast.dat"), "w") as fp:
            fp.write(synth.static_file_text(reorder(dt, case.get("order02"))))
        args.append("elast.dat")
    return args


def option_args(case, model):
    """the options of the command line; `model` (the reference on the written files) positions anchored pressure requests"""
    system, sarg = TABLES[case["table"]]
    args = []
    if case.get("mode") is not None:
        args += ["-I", case["mode"]]
    if case.get("n") is not None:
        args += ["-n", str(case["n"])]
    if case.get("mode") == "pressure":
        pmin, dp = grid_of(case, model)
        args += ["--p-min", repr(pmin), "--delta-p", repr(dp)]
        if case.get("sample"):
            args += ["--delta-p-sample", repr(case["sample"] * dp)]
    if sarg or case.get("system_arg"):
        args += ["-s", case.get("system_arg") or sarg]
    if case.get("cellmass") is not None:
        args += ["--cellmass", repr(float(case["cellmass"]))]
    if case.get("vratio") is not None:
        args += ["--v-ratio", repr(float(case["vratio"]))]
    return args


def dense_grid(case, vols):
    n = case["n"] if case.get("n") is not None else 201
    ratio = float(case["vratio"]) if case.get("vratio") is not None else V_RATIO
    return numpy.linspace(vols.min() / ratio, vols.max() * ratio, n)


def fitted_range(case, model):
    """(bottom, top, bottom_safe, top_safe) in GPa.  bottom/top: the reference's P at the largest/smallest volume of the
    n-point grid.  A command that differentiates numerically sees an end pressure that is off by at most the reference's
    own end-node bound h/2 sup|F''| (a one-sided quotient is P at some point of the end cell, so its range is *smaller*);
    requests are therefore positioned relative to bottom + bound and top - bound: whether a request is inside the fitted
    range is then not decided by the discretisation or by rounding."""
    from mc.ref import static_ref as S
    g = dense_grid(case, model.vols)
    nb = S.node_bound(model.eos, g) * S.GPA_PER_AU
    bottom, top = float(model.P_gpa(g[-1])), float(model.P_gpa(g[0]))
    return bottom, top, bottom + float(nb[-1]), top - float(nb[0])


def grid_of(case, model=None):
    if case.get("request"):
        return float(case["request"][0]), float(case["request"][1])
    if case.get("anchor"):
        # anchored request: {"anchor": "top", "c": c, "p": P_MIN}: last pressure = top_safe - c DELTA_P;
        #                   {"anchor": "bottom", "c": c, "p": last pressure}: first pressure = bottom_safe + c DELTA_P
        n, c, p = case["n"], float(case["c"]), float(case["p"])
        bottom, top, bsafe, tsafe = fitted_range(case, model)
        if case["anchor"] == "top":
            dp = (tsafe - p) / (n - 1 + c)
            pmin = p
        else:
            dp = (p - bsafe) / (n - 1 + c)
            pmin = p - (n - 1) * dp
        if not dp > 0:
            raise HarnessError(f"anchored request does not fit: {case['anchor']} c={c} p={p} range {bsafe}..{tsafe}")
        return float(pmin), float(dp)
    pmin, pmax = PRANGES[case["prange"]]
    n = case["n"] if case.get("n") is not None else 201
    return pmin, (pmax - pmin) / (n - 1)


# ----------------------------------------------------------------------------- invocation

def invoke(args, cwd):
    from click.testing import CliRunner
    from cij.cli.cij import main
    try:
        runner = CliRunner(mix_stderr=False)
    except TypeError:
        runner = CliRunner()
    with K.chdir(cwd):
        res = runner.invoke(main, args)
    out = res.stdout if hasattr(res, "stdout") else res.output
    return res, out


def where_raised(res):
    """module.function of the deepest frame inside the tree under test"""
    import traceback
    root = repo_root() + os.sep
    tag = "outside-cij"
    if res.exc_info and res.exc_info[2] is not None:
        for fr in traceback.extract_tb(res.exc_info[2]):
            if os.path.realpath(fr.filename).startswith(root):
                tag = f"{os.path.splitext(os.path.basename(fr.filename))[0]}.{fr.name}"
    return tag


# ----------------------------------------------------------------------------- comparison

class Cmp:
    def __init__(self, mode, table):
        self.mode = mode
        self.viol = []
        self.tab = table
        self.cells = 0
        self.worst = 0.0      # largest |observed - expected| / tolerance over all compared cells
        self.worst_by = {}
        self.undefined = 0

    def col(self, cls, name, ref, extra=0.0, rtol=RT_UNIT, label=None):
        """observed column `name` against ref within half a printed unit + extra + rtol |ref|"""
        from mc.ref import static_ref as S
        toks = self.tab["tokens"][name]
        obs = self.tab["values"][name]
        ref = numpy.asarray(ref, float)
        extra = numpy.broadcast_to(numpy.asarray(extra, float), ref.shape)
        # rows where the reference itself is undefined (velocity of a non-positive modulus: table extrapolated far outside
        # its volumes) are not compared; everywhere else the printed value must be a finite number
        defined = numpy.isfinite(ref) & numpy.isfinite(extra)
        self.undefined += int((~defined).sum())
        if not numpy.all(numpy.isfinite(obs[defined])):
            i = int(numpy.argmax(defined & ~numpy.isfinite(obs)))
            self.viol.append(V(f"c18:{self.mode}:{cls}:nonfinite", f"column {name} row {i}: printed {toks[i]}, expected {float(ref[i])!r}"))
            return False
        if not defined.any():
            return True
        toks = [t for t, k in zip(toks, defined) if k]
        obs, ref, extra = obs[defined], ref[defined], extra[defined]
        hu = numpy.array([S.half_unit(t) for t in toks])
        tol = hu + extra + rtol * numpy.abs(ref)
        bad = ~(numpy.abs(obs - ref) <= tol)
        self.cells += len(obs)
        self.worst = max(self.worst, float((numpy.abs(obs - ref) / tol).max()))
        self.worst_by[cls] = max(self.worst_by.get(cls, 0.0), float((numpy.abs(obs - ref) / tol).max()))
        if bad.any():
            i = int(numpy.argmax(numpy.abs(obs - ref) / tol))
            self.viol.append(V(f"c18:{self.mode}:{cls}:mismatch",
                               f"{label or name} row {i} (of {len(obs)}): printed {toks[i]}, expected {float(ref[i])!r} (tolerance {float(tol[i]):.3g}; {int(bad.sum())} row(s) off)"))
            return False
        return True


def run_case(case):
    from mc.ref import static_ref as S, pipeline_ref as PR
    mode = case.get("mode") or "none"
    n = case["n"] if case.get("n") is not None else 201
    system, sarg = TABLES[case["table"]]
    sarg = case.get("system_arg") or sarg
    with K.scratch("cij-c18-") as d:
        args = write_inputs(d, case)
        try:
            ph = PR.parse_phonon_file(os.path.join(d, "input01"))
            st = PR.parse_static_file(os.path.join(d, "elast.dat")) if system is not None else None
            model = S.StaticModel(ph["vols"], ph["energies"], table=st, system=sarg if st is not None else None, cellmass=case.get("cellmass"))
        except Exception as ex:
            raise HarnessError(f"reference could not read the generated inputs: {ex!r}")
        args += option_args(case, model)
        res, out = invoke(args, d)
    cmdline = "cij " + " ".join(args)
    if res.exception is not None and not isinstance(res.exception, SystemExit):
        tag = where_raised(res)
        return {"viol": [V(f"c18:raises:{type(res.exception).__name__}:{tag}", f"`{cmdline}` raised {type(res.exception).__name__}: {str(res.exception)[:300]} (in {tag})")],
                "nontrivial": False, "outcome": f"raises:{type(res.exception).__name__}:{tag}"}
    if res.exit_code != 0:
        return {"viol": [V("c18:exit-status", f"`{cmdline}` exited with status {res.exit_code}: {(getattr(res, 'stderr', '') or out)[-300:]}")], "nontrivial": False, "outcome": "exit-status"}
    try:
        tab = S.parse_table(out)
    except S.TableError as ex:
        return {"viol": [V("c18:output:not-a-table", f"`{cmdline}`: {ex}")], "nontrivial": False, "outcome": "not-a-table"}

    c = Cmp(mode, tab)
    viol = c.viol
    names = tab["names"]
    nrow = len(tab["index"])
    vols, eos = model.vols, model.eos

    # ---- columns present
    expected = ["V", "F", "P"] + (["density"] if model.mass is not None else [])
    modnames = OrderedDict(("c%d%d" % p, p) for p in sorted(model.fits))
    if st is not None:
        expected += list(modnames) + S.VRH_NAMES + S.VEL_NAMES
    for name in expected:
        if name not in names:
            cls = "modulus" if name in modnames else name
            viol.append(V(f"c18:{mode}:columns:missing:{cls}", f"`{cmdline}`: column {name} is missing (printed: {' '.join(names)})"))
    for name in names:
        if name not in expected:
            if name[:1] == "c" and name[1:].isdigit() and len(name) == 3 and st is not None:
                continue       # a component that vanishes by symmetry may be printed; its value is checked below
            viol.append(V(f"c18:{mode}:columns:unexpected", f"`{cmdline}`: unexpected column {name}"))
    if any(x not in names for x in ("V", "F", "P")):
        return {"viol": viol, "outcome": viol[0]["sig"]}

    # ---- rows, V, P
    Vb = tab["values"]["V"] / S.ANG3_PER_BOHR3                  # reported volumes in bohr^3
    hV = numpy.array([S.half_unit(t) for t in tab["tokens"]["V"]])
    dV = hV / S.ANG3_PER_BOHR3 + RT_UNIT * numpy.abs(Vb)
    ratio = float(case["vratio"]) if case.get("vratio") is not None else V_RATIO
    grid = numpy.linspace(vols.min() / ratio, vols.max() * ratio, n)   # where a numerical derivative would live
    lo, hi = float(model.P_gpa(vols.max())), float(model.P_gpa(vols.min()))
    pscale = max(abs(lo), abs(hi))
    f_extra = 0.0
    if mode == "none":
        if nrow != len(vols):
            viol.append(V("c18:none:rows", f"`{cmdline}`: {nrow} rows for {len(vols)} input volumes"))
            return {"viol": viol, "outcome": viol[0]["sig"]}
        c.col("V", "V", vols * S.ANG3_PER_BOHR3)
        c.col("F", "F", ph["energies"] * S.EV_PER_RY, label="F (input energy)")
        pb = S.spline_bound(eos, grid, vols) * S.GPA_PER_AU
        c.col("P", "P", model.P_gpa(vols), extra=pb + RT_UNIT * pscale, label=f"P = -dF/dV of the fit (n={n})")
    elif mode == "volume":
        if nrow != n:
            viol.append(V("c18:volume:rows", f"`{cmdline}`: {nrow} rows for -n {n}"))
            return {"viol": viol, "outcome": viol[0]["sig"]}
        g = grid if Vb[0] <= Vb[-1] else grid[::-1]
        if c.col("V", "V", g * S.ANG3_PER_BOHR3, label=f"V (equidistant from Vmin/{ratio:g} to Vmax*{ratio:g})"):
            nb = S.node_bound(eos, g) * S.GPA_PER_AU
            c.col("P", "P", model.P_gpa(g), extra=nb + RT_UNIT * pscale, label=f"P = -dF/dV of the fit (n={n})")
    else:
        pmin, dp = grid_of(case, model)
        k = case.get("sample") or 1
        want = pmin + dp * numpy.arange(0, n, k)
        if case.get("anchor"):
            bottom, top, bsafe, tsafe = fitted_range(case, model)
            if not (bsafe <= pmin and pmin + dp * (n - 1) <= tsafe):
                raise HarnessError(f"anchored request {pmin}..{pmin + dp * (n - 1)} GPa not inside the fitted range on the grid {bsafe:.3f}..{tsafe:.3f}")
        elif not (lo <= want.min() and want.max() <= hi):
            raise HarnessError(f"requested pressures {want.min()}..{want.max()} GPa not inside the fitted range {lo:.2f}..{hi:.2f}")
        if nrow != len(want):
            viol.append(V("c18:pressure:rows" + (":sampled" if k > 1 else ""), f"`{cmdline}`: {nrow} rows, expected {len(want)} (P_MIN + j*{k}*DELTA_P, j*{k} < {n})"))
            return {"viol": viol, "outcome": viol[0]["sig"]}
        c.col("P", "P", want, extra=RT_FREE * pscale, rtol=RT_FREE, label="P (requested pressure P_MIN + j*DELTA_P)")
        # V(P): P_fit(V) = P.  Interpolation tolerance from the reference's own inverse interpolation.
        pn = eos.pressure(grid) * S.GPA_PER_AU
        nb = S.node_bound(eos, grid) * S.GPA_PER_AU
        va, W, idx, o = S.lagrange4(pn, grid, want)
        go, nbo, pno = grid[o], nb[o], pn[o]
        own = numpy.abs(model.P_gpa(va) - want)
        slope = numpy.abs(eos.deriv(Vb, 2))
        rho = slope[:, None] / numpy.abs(eos.deriv(go[idx], 2))
        b1 = (numpy.abs(W) * rho * nbo[idx]).sum(axis=1)            # first order in the node bounds
        # worst case over the box of admissible node pressures (exact value +- bound), same four nodes: covers the
        # non-linear regime where a bound is a sizeable fraction of a cell (end nodes, n = 11)
        box = numpy.zeros(len(want))
        spread = (numpy.abs(W) * (go[idx] - Vb[:, None]) ** 2).sum(axis=1)
        for Wc, vc in S.lagrange_box(pno[idx], nbo[idx], go[idx], want):
            ok = numpy.isfinite(vc) & (vc > 0)
            dev = numpy.where(ok, numpy.abs(model.P_gpa(numpy.where(ok, vc, go[idx][:, 0])) - want), numpy.inf)
            box = numpy.maximum(box, dev)
            spread = numpy.maximum(spread, (numpy.abs(Wc) * (go[idx] - Vb[:, None]) ** 2).sum(axis=1))
        b1 = numpy.maximum(b1, box)
        pv = model.P_gpa(Vb)
        tol = b1 + 2.0 * own + slope * S.GPA_PER_AU * dV + RT_UNIT * (numpy.abs(want) + pscale)
        if not numpy.all(numpy.isfinite(Vb)):
            viol.append(V("c18:pressure:V:nonfinite", f"`{cmdline}`: non-finite V"))
        else:
            bad = ~(numpy.abs(pv - want) <= tol)
            c.cells += nrow
            c.worst = max(c.worst, float((numpy.abs(pv - want) / tol).max()))
            c.worst_by["V(P)"] = float((numpy.abs(pv - want) / tol).max())
            if bad.any():
                i = int(numpy.argmax(numpy.abs(pv - want) / tol))
                viol.append(V("c18:pressure:V:not-at-requested-pressure",
                              f"`{cmdline}` row {i}: V = {tab['tokens']['V'][i]} A^3 where the fit has P = {float(pv[i])!r} GPa, requested {float(want[i])!r} GPa (tolerance {float(tol[i]):.3g}); expected V = {model.volume_at(float(want[i])) * S.ANG3_PER_BOHR3!r}"))
        # F(P) by inverse interpolation: Taylor bound for any weights of sum one on the bracketing nodes
        sup2 = S.sup_abs(lambda v: eos.deriv(v, 2), go[idx].min(axis=1), go[idx].max(axis=1)) * S.EV_PER_RY
        f_extra = 0.5 * sup2 * spread

    # ---- F at the reported V
    if mode != "none" and numpy.all(numpy.isfinite(Vb)):
        fref = model.F_ev(Vb)
        prop = numpy.abs(eos.deriv(Vb, 1)) * S.EV_PER_RY * dV
        fobs = tab["values"]["F"]
        if mode == "pressure" and numpy.all(numpy.abs(fobs - tab["values"]["V"] / S.ANG3_PER_BOHR3 * S.EV_PER_RY) <= 1e-6 * numpy.abs(fobs) + 1e-5) \
                and not numpy.all(numpy.abs(fobs - fref) <= 1e-6 * numpy.abs(fref) + 1e-5):
            viol.append(V("c18:pressure:F:is-the-V-column", f"`{cmdline}`: the F column is the V column (V in bohr^3 converted Ry -> eV): row 0 F = {tab['tokens']['F'][0]}, V = {tab['tokens']['V'][0]} A^3 = {float(Vb[0])!r} bohr^3; fitted energy there {float(fref[0])!r} eV"))
        else:
            c.col("F", "F", fref, extra=prop + f_extra, label="F (fit at the reported V)")

    # ---- density, moduli, averages, velocities at the reported V
    if numpy.all(numpy.isfinite(Vb)) and numpy.all(Vb > 0):
        def around(fn):
            a, b, m = fn(Vb - dV), fn(Vb + dV), fn(Vb)
            return m, numpy.maximum(numpy.abs(a - m), numpy.abs(b - m))
        if model.mass is not None and "density" in names:
            m, e = around(model.density)
            c.col("density", "density", m, extra=e, label=f"density (cell mass {model.mass:g})")
        if st is not None:
            supplied = set(st["table"])
            for name in names:
                if name[:1] == "c" and name[1:].isdigit() and len(name) == 3:
                    p = (int(name[1]), int(name[2]))
                    cls = "modulus" if p in supplied else "modulus-filled"
                    if p in model.fits:
                        m, e = around(model.fits[p])
                        c.col(cls, name, m, extra=e, rtol=RT_FREE, label=f"{name} (fit of the table at the reported V{', filled by ' + sarg if p not in supplied else ''})")
                    else:
                        c.col("modulus-zero", name, numpy.zeros(nrow), extra=1e-8, rtol=0.0, label=f"{name} (vanishes{' in ' + sarg if sarg else ': not tabulated'})")
            ag0, agm, agp = model.aggregates(Vb), model.aggregates(Vb - dV), model.aggregates(Vb + dV)
            for name in S.VRH_NAMES + S.VEL_NAMES:
                if name in names:
                    e = numpy.maximum(numpy.abs(agm[name] - ag0[name]), numpy.abs(agp[name] - ag0[name]))
                    c.col(name, name, ag0[name], extra=e, rtol=RT_FREE if name in S.VRH_NAMES else RT_UNIT)
    ncomp = len(model.fits)
    return {"viol": viol, "nontrivial": nrow >= 3 and c.cells >= 3 * nrow,
            "outcome": (f"ok/{mode}/{'table' + str(ncomp) if st is not None else 'eos-only'}{'/density' if model.mass is not None else ''}" if not viol else viol[0]["sig"]),
            "cells": c.cells, "undefined": c.undefined, "worst": c.worst, "worst_by": {f"{mode}:{k}": v for k, v in c.worst_by.items()}}


# ----------------------------------------------------------------------------- exploration

def canon(case):
    c = dict(case)
    if c["mode"] != "pressure":
        c["prange"], c["sample"] = "r0", None
    if c["table"] == "none":
        c["tabvols"] = "same"
        c["order02"] = "desc"
    if c["table"] in ("none", "ortho9", "ortho9+s", "triclinic+s"):      # minimal = non-vanishing there
        c["compset"] = "minimal"
    return c


def edge_cases():
    base = dict(mode="none", n=101, prange="r0", sample=None, table="none", cellmass=None, data="bm3", nv=6, tabvols="same")
    out = []
    # a crystal system without a static table: nothing to fill, the EoS table is still due
    for mode in ("none", "volume", "pressure"):
        out.append(dict(base, mode=mode, system_arg="cubic"))
    # --delta-p-sample equal to --delta-p: every row
    out.append(dict(base, mode="pressure", sample=1, table="ortho9"))
    # all defaults: no -I, no -n (201)
    out.append(dict(base, mode=None, n=None, table="ortho9"))
    out.append(dict(base, mode="pressure", n=None, table="ortho9"))
    return out


def request_cases(quick):
    """explicit (P_MIN, DELTA_P, n) requests with non-binary step sizes: n rows at P_MIN + j*DELTA_P, no more, no fewer"""
    base = dict(mode="pressure", prange="r0", cellmass=None, data="bm3", nv=6, tabvols="same")
    out = []
    for pmin, dp, n in REQUESTS:
        for table in (("none", "ortho9") if quick else ("none", "ortho9", "cubic+s")):
            for order in (("desc", "asc") if quick else ORDERS):
                for sample in ((None, 3) if quick and table == "none" and order == "desc" else (None,) if quick else (None, 2, 3, 7)):
                    out.append(dict(base, request=[pmin, dp], n=n, table=table, order01=order, order02="desc", sample=sample))
    return out


ANCHOR_C = (0.35, 0.5, 0.8, 1.5, 5.0)
ANCHOR_N = (41, 101, 201, 401)
ANCHOR_P = (-5.0, 0.0, 10.0)


def anchored_cases(quick):
    """requests that run up to (down to) a fraction of one step from the top (bottom) of the fitted range on the n-point
    grid: top family: P_MIN given, last pressure = top_safe - c DELTA_P; bottom family: last pressure given, first
    pressure = bottom_safe + c DELTA_P.  All inside the range, so all must be served."""
    base = dict(mode="pressure", prange="r0", sample=None, cellmass=None, nv=6, tabvols="same", order01="desc", order02="desc")
    out = []
    for anchor in ("top", "bottom"):
        for c in ANCHOR_C:
            for n in ANCHOR_N:
                for p in ANCHOR_P:
                    for table in (("none",) if quick else ("none", "ortho9")):
                        for data in (("bm3",) if quick else ("bm3", "quad", "noise")):
                            for vratio in ((None,) if quick else (None, 1.05, 1.5)):
                                out.append(dict(base, anchor=anchor, c=c, n=n, p=p, table=table, data=data, vratio=vratio))
    return out


def explore(ctx):
    ctx.rule = ("mode A: deviation lattice over mode (3) x -n (11,101,401) x pressure range (2, inside the fitted range; DELTA_P = span/(n-1)) x "
                "--delta-p-sample (absent, 2x, 5x, 3x, 4x, 7x DELTA_P: strides that do and do not divide n-1; rows must sit at P_MIN + j*stride*DELTA_P) x static table (absent, orthotropic 9, orthotropic 9 + -s, cubic 3 + -s cubic, "
                "trigonal 7 + -s trigonal7, and likewise tetragonal7, tetragonal6, trigonal6, hexagonal, monoclinic, triclinic: every packaged system, with non-zero "
                "distinguishing constants c16 / c14,c15 / c15,c25,c35,c46; expected fill from the Laue-class invariants of laue_ref) x table columns (independent "
                "constants only, every non-vanishing constant) x --cellmass (absent, given) x data (exactly quadratic in f, BM3 with B0'=5.5, BM3 + deterministic noise; "
                "the table likewise) x number of volumes of INPUT01 (6,4,12,3,5; 3 = fit exactly determined) x table volumes (same as the energies, an own set of 5, 3 or 4 volumes) x presentation: "
                "order of the volume blocks of INPUT01 (descending, ascending, smallest first, largest last, middle first) x row order of INPUT02 "
                "(descending, ascending, middle first) x --v-ratio (default, 1.05, 1.5) x number format of the P= V= E= headers of INPUT01 (plain decimals, "
                "%E exponent notation, explicit + sign); every configuration is one in-process `cij run-static` whose "
                "stdout table is compared cell by cell with static_ref (order-independent least squares; mode-none rows in the file's order). "
                "quick: <= 2 deviations from the default; thorough: <= 3 deviations over all 14 dimensions + the full product of the 9 data/option "
                "dimensions (7 of the 11 tables) in the default presentation + the full product of the 4 presentation dimensions x mode x n (101, 11) x table (3) x data "
                "+ the full product volume counts (5) x table volume counts (4) x strides (6) x n x mode x table (2) x data + the full product table (11) x table columns x mode x data x table volumes x INPUT02 order. "
                "Plus explicit pressure requests P_MIN in {0,-5,0.1} x DELTA_P in {0.1,0.3,0.7} x n in {30,53,61,101} (inside the fitted range) x table x "
                "INPUT01 order; range-edge requests: last pressure = top - bound - c DELTA_P with P_MIN in {-5,0,10}, and first pressure = bottom + bound + c DELTA_P "
                "with last pressure in {-5,0,10}, c in {0.35,0.5,0.8,1.5,5}, n in {41,101,201,401}, top/bottom = the reference's P at the ends of the n-point "
                "volume grid, bound = its end-node discretisation bound (all inside the fitted range: all must be served); and 6 edge invocations (-s without table, sample = 1, defaults); non-trivial = a table of >= 3 rows with >= 3 compared columns")
    ctx.assumptions = [
        "pressure ranges lie inside the pressures spanned by the input volumes (asserted per case against the reference fit); range-edge requests lie inside "
        "the fitted range on the n-point grid shrunk at either end by the reference's end-node bound h/2 sup|F''| (the numerical end pressure of a one-sided "
        "quotient lies within that bound of the analytic one); requests that leave the fitted range are not asserted",
        "--delta-p-sample is an integer multiple (1, 2, 3, 4, 5, 7) of --delta-p, whether or not it divides n-1; non-integer ratios are outside the statement",
        "volume-mode grid = n equidistant volumes from Vmin/ratio to Vmax*ratio (the documented meaning of --v-ratio), either order",
        "the fit does not depend on the order in which volumes are listed in either input file; mode none reports the rows in INPUT01's order",
        "tolerances: printed half unit + 1e-7 (unit-bearing) / 1e-9 (unit-free) relative + Taylor-remainder bounds of a difference quotient on the n-point grid "
        "propagated through a cubic spline (mode none) or 4-point Lagrange inverse interpolation (pressure mode); at n=11 these bounds are wide "
        "(P: several GPa at the grid ends, F(P): ~0.1 eV), at n=401 they are ~1e-3 GPa and ~1e-4 eV",
        "constraint relations of the crystal systems follow the standard setting (checked against rotations in the selftest); the packaged relation files are C08/C09's subject",
    ]
    dims = OrderedDict((k, list(v)) for k, v in DIMS.items())
    allres = []
    if ctx.quick:
        _, res = ctx.run_lattice(MOD, "run_case", dims, 2, part="lattice<=2", canon=canon, chunksize=2)
        allres += res
    else:
        _, res = ctx.run_lattice(MOD, "run_case", dims, 3, part="lattice<=3", canon=canon, chunksize=2)
        allres += res
        core = OrderedDict((k, (list(v) if k not in PRESENTATION + ("compset",) else [v[0]])) for k, v in DIMS.items())
        core["nv"], core["sample"], core["tabvols"] = [6, 4, 12], [None, 2, 5], ["same", "other"]
        counts = OrderedDict((k, [v[0]]) for k, v in DIMS.items())
        for k in ("nv", "tabvols", "sample", "n", "mode", "data"):
            counts[k] = list(DIMS[k])
        counts["table"] = ["ortho9", "none"]
        _, res = ctx.run_lattice(MOD, "run_case", counts, None, part="full-product:counts-and-strides", canon=canon, chunksize=4)
        allres += res
        core["table"] = [t for t in DIMS["table"] if t in ("ortho9", "none", "ortho9+s", "cubic+s", "trigonal7+s", "tetragonal7+s", "monoclinic+s")]
        _, res = ctx.run_lattice(MOD, "run_case", core, None, part="full-product:data-and-options", canon=canon, chunksize=4)
        allres += res
        pres = OrderedDict((k, [v[0]]) for k, v in DIMS.items())
        for k in PRESENTATION + ("mode", "data"):
            pres[k] = list(DIMS[k])
        pres["n"] = [101, 11]
        pres["table"] = ["ortho9", "none", "trigonal7+s"]
        systems = OrderedDict((k, [v[0]]) for k, v in DIMS.items())
        for k in ("table", "compset", "mode", "data", "tabvols", "order02"):
            systems[k] = list(DIMS[k])
        _, res = ctx.run_lattice(MOD, "run_case", systems, None, part="full-product:systems", canon=canon, chunksize=4)
        allres += res
        _, res = ctx.run_lattice(MOD, "run_case", pres, None, part="full-product:presentation", canon=canon, chunksize=4)
        allres += res
    ctx.notes["alphabets"] = {k: len(v) for k, v in dims.items()}
    reqs = request_cases(ctx.quick)
    allres += ctx.run(MOD, "run_case", reqs, part="pressure-requests", chunksize=2)
    ctx.run_under(MOD, "run_case", reqs[:2] + anch[:1] if False else reqs[:3], ("-O",))   # interpreter started with -O (asserts stripped)
    ctx.notes["pressure_requests"] = {"requests": len(REQUESTS), "cases": len(reqs)}
    anch = anchored_cases(ctx.quick)
    allres += ctx.run(MOD, "run_case", anch, part="range-edge-requests", chunksize=2)
    ctx.notes["range_edge_requests"] = {"anchor": 2, "c": list(ANCHOR_C), "n": list(ANCHOR_N), "p": list(ANCHOR_P), "cases": len(anch),
                                        "margin": "reference's end-node bound h/2 sup|F''| on the n-point grid"}
    edges = edge_cases()
    allres += ctx.run(MOD, "run_case", edges, part="edge-invocations", chunksize=1)
    ctx.notes["edge_invocations"] = len(edges)
    ctx.notes["cells_compared"] = int(sum(r.get("cells", 0) or 0 for r in allres))
    ctx.notes["cells_not_compared_reference_undefined"] = int(sum(r.get("undefined", 0) or 0 for r in allres))
    ctx.notes["largest_error_over_tolerance"] = max([float(r.get("worst") or 0.0) for r in allres] or [0.0])
    by = {}
    for r in allres:
        for k, v in (r.get("worst_by") or {}).items():
            by[k] = max(by.get(k, 0.0), float(v))
    ctx.notes["largest_error_over_tolerance_by_column"] = {k: round(v, 4) for k, v in sorted(by.items())}


def selftest():
    from mc.ref import static_ref as S
    ok = S.selftest()
    # the data sets are what their names say: `quad` is exactly quadratic in f, `bm3` and `noise` are not
    for nv in (3, 4, 5, 6, 12):
        vols = numpy.array(synth.VOLUME_SETS[nv]) if nv != 3 else numpy.array(synth.VOLUME_SETS[5])[[0, 2, 4]]
        ok &= S.StrainFit(vols, energies_of("quad", vols)).residual() < 1e-10
        ok &= (S.StrainFit(vols, energies_of("bm3", vols)).residual() > 1e-6) if nv > 3 else (S.StrainFit(vols, energies_of("noise", vols)).residual() < 1e-10)
        if nv > 4:
            ok &= S.StrainFit(vols, energies_of("noise", vols)).residual() > 1e-4
        # requested pressure ranges inside the fitted range of every data set
        for data in ("quad", "bm3", "noise"):
            fit = S.StrainFit(vols, energies_of(data, vols))
            lo, hi = fit.pressure(vols.max()) * S.GPA_PER_AU, fit.pressure(vols.min()) * S.GPA_PER_AU
            ok &= all(lo <= a and b <= hi for a, b in PRANGES.values())
            ok &= all(lo <= pmin and pmin + dp * (n - 1) <= hi for pmin, dp, n in REQUESTS)
        for order in ORDERS:
            ok &= sorted(permutation(order, nv)) == list(range(nv))
        ok &= permutation("smallest-first", nv)[0] == nv - 1 and permutation("largest-last", nv)[-1] == 0 and permutation("asc", nv)[0] == nv - 1
    return bool(ok)
