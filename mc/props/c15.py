"""C15 — output files carry the in-memory results on the requested grids, units and names (mode A)."""
import glob
import os

import numpy
import yaml

from mc import synth, calc as K
from mc.explore import V, HarnessError, repo_root
from mc.ref.pipeline_ref import GPA_PER_AU, ANG3_PER_BOHR3

ID = "C15"
MOD = "mc.props.c15"

# transcribed from the documented table (docs/usage/output.rst at the pinned commit): keyword -> (pattern, unit, quantity)
DOC = {}
for kws, pat, unit, what in [
    (("cij_s", "cij", "adiabatic_elastic_moduli"), "c{ij}s_{base}_gpa.txt", "GPa", "adiabatic"),
    (("cij_t", "isothermal_elastic_moduli"), "c{ij}t_{base}_gpa.txt", "GPa", "isothermal"),
    (("B_V", "Bm_V", "bm_V", "bulk_modulus_voigt"), "bm_V_{base}_gpa.txt", "GPa", "bulk_modulus_voigt"),
    (("B_R", "Bm_R", "bm_R", "bulk_modulus_reuss"), "bm_R_{base}_gpa.txt", "GPa", "bulk_modulus_reuss"),
    (("B_VRH", "Bm_VRH", "bm_VRH", "bulk_modulus_voigt_reuss_hill"), "bm_VRH_{base}_gpa.txt", "GPa", "bulk_modulus_voigt_reuss_hill"),
    (("G_V", "shear_modulus_voigt"), "G_V_{base}_gpa.txt", "GPa", "shear_modulus_voigt"),
    (("G_R", "shear_modulus_reuss"), "G_R_{base}_gpa.txt", "GPa", "shear_modulus_reuss"),
    (("G_VRH", "shear_modulus_voigt_reuss_hill"), "G_VRH_{base}_gpa.txt", "GPa", "shear_modulus_voigt_reuss_hill"),
    (("v_p", "vp", "primary_velocities"), "v_p_{base}_km_s.txt", "km/s", "primary_velocities"),
    (("v_s", "vs", "secondary_velocities"), "v_s_{base}_km_s.txt", "km/s", "secondary_velocities"),
    (("v", "V", "volumes"), "v_{base}_ang3.txt", "ang3", "volumes"),
    (("p", "P", "pressures"), "p_{base}_gpa.txt", "GPa", "pressures"),
]:
    for kw in kws:
        DOC[kw] = (pat, unit, what, kws[0])
FACTOR = {"GPa": GPA_PER_AU, "km/s": 1.0, "ang3": ANG3_PER_BOHR3}
OVERRIDE_UNIT = {"GPa": ("kbar", 10.0 * GPA_PER_AU), "km/s": ("m/s", 1000.0), "ang3": ("bohr^3", 1.0)}

GRIDS = {
    "g0": dict(T_MIN=0, NT=3, DT=400, DT_SAMPLE=400, P_MIN=0, DELTA_P=2.0, DELTA_P_SAMPLE=2.0, NTV=21),
    "g1": dict(T_MIN=100, NT=4, DT=250, DT_SAMPLE=250, P_MIN=-2, DELTA_P=0.5, DELTA_P_SAMPLE=0.5, NTV=33),
    "g2": dict(T_MIN=0, NT=1, DT=1000, DT_SAMPLE=1000, P_MIN=3, DELTA_P=1.25, DELTA_P_SAMPLE=2.5, NTV=25),
    "g3": dict(T_MIN=50.5, NT=2, DT=33.25, DT_SAMPLE=33.25, P_MIN=0, DELTA_P=0.1, DELTA_P_SAMPLE=1.0, NTV=41),
    "g4": dict(T_MIN=10, NT=9, DT=25, DT_SAMPLE=50, P_MIN=0, DELTA_P=1.0, DELTA_P_SAMPLE=4.0, NTV=21),     # sampling strides differ from
    "g5": dict(T_MIN=0, NT=7, DT=100, DT_SAMPLE=300, P_MIN=1, DELTA_P=0.5, DELTA_P_SAMPLE=0.5, NTV=25),   # the grid steps (not used by cij's writer)
    "g6": dict(T_MIN=298.15, NT=4, DT=100, DT_SAMPLE=100, P_MIN=0, DELTA_P=2.0, DELTA_P_SAMPLE=2.0, NTV=21),  # fractional T_MIN with an integral step
    "g8": dict(T_MIN=0, NT=3, DT=500, DT_SAMPLE=500, P_MIN=20, DELTA_P=-0.5, DELTA_P_SAMPLE=-0.5, NTV=33),      # a pressure grid running downwards
    "g7": dict(T_MIN=1273.15, NT=3, DT=250, DT_SAMPLE=250, P_MIN=0.25, DELTA_P=1.5, DELTA_P_SAMPLE=1.5, NTV=21),
}
SYSTEMS = {"9": "orthorhombic", "13": "monoclinic", "21": None, "cubic-inconsistent": "cubic"}


def parse_table(path):
    with open(path) as fp:
        lines = [l for l in fp.read().split("\n") if l.strip()]
    head = lines[0].split()
    cols = [float(x) for x in head[1:]]
    rows, vals = [], []
    for l in lines[1:]:
        tok = l.split()
        rows.append(float(tok[0]))
        vals.append([float(x) for x in tok[1:]])
    return head[0], numpy.array(rows), numpy.array(cols), numpy.array(vals), [x for x in head[1:]]


def label_close(got, want, decimals=6):
    return numpy.all(numpy.abs(numpy.asarray(got) - numpy.asarray(want)) <= 0.5 * 10.0 ** (-decimals) + 1e-12 * numpy.abs(want))


def run_case(case):
    from cij.core.calculator import Calculator
    from cij.io.output.results_writer import ResultsWriter
    grid = GRIDS[case["grid"]]
    spec = dict(nv=6, nq=2, na=1, lattice="power", system=SYSTEMS[case["ncomp"]], compset="minimal", static="generic",
                weights="increasing", qha=dict(grid))
    skw = {}
    if case["ncomp"] == "cubic-inconsistent":
        # a table that contradicts the requested system (c22 = c11 + 1.5 GPa), accepted because the residual check is off
        spec.update(system="cubic", compset="nonzero", symmetry={"ignore_residuals": True})
        skw["perturb"] = {(2, 2): 1.5}
    base_name = case["base"]
    viol = []
    nfiles = 0
    with K.scratch() as d:
        ds, st = synth.write(d, spec, **skw)
        with open(os.path.join(repo_root(), "cij", "data", "output", "writer_rules.yml")) as fp:
            rules = yaml.safe_load(fp)
        try:
            c = Calculator(os.path.join(d, "settings.yaml"))
        except Exception as ex:
            return {"viol": [V(f"c15:calculator-raises:{type(ex).__name__}", K.fmt_exc(ex))], "outcome": "raises"}
        base = c.pressure_base if base_name == "tp" else c.volume_base
        t_want = grid["T_MIN"] + grid["DT"] * numpy.arange(grid["NT"])
        if base_name == "tp":
            col_want = grid["P_MIN"] + grid["DELTA_P"] * numpy.arange(grid["NTV"])
            corner_want = "P(GPa)"
        else:
            col_want = numpy.asarray(c.v_array, float) * ANG3_PER_BOHR3
            corner_want = "V(A^3)"
        keys = list(c.modulus_adiabatic.keys())

        def memory(what, k=None):
            if what == "adiabatic":
                return numpy.asarray(base.modulus_adiabatic[k], float)
            if what == "isothermal":
                return numpy.asarray(base.modulus_isothermal[k], float)
            return numpy.asarray(getattr(base, what), float)

        def check_file(path, want, factor, what, kw):
            nonlocal nfiles
            if not os.path.exists(path):
                viol.append(V(f"c15:file-missing:{what}", f"keyword {kw!r} ({base_name}): expected file {os.path.basename(path)} not written; directory has {sorted(os.listdir('.'))[:8]}"))
                return None
            nfiles += 1
            try:
                corner, rows, cols, vals, _ = parse_table(path)
            except (ValueError, IndexError) as ex:
                viol.append(V(f"c15:unparseable-table:{base_name}", f"{os.path.basename(path)} (keyword {kw!r}) is not a T x {corner_want} table: {open(path).read()[:80]!r}"))
                return None
            if corner_want not in corner:
                viol.append(V("c15:corner-label", f"{os.path.basename(path)}: corner label {corner!r} does not name {corner_want}"))
            if len(rows) != grid["NT"] or not label_close(rows, t_want):
                viol.append(V("c15:row-labels", f"{os.path.basename(path)}: row labels {rows.tolist()[:6]} expected T_MIN+k*DT = {t_want.tolist()[:6]}"))
                return vals
            if len(cols) != len(col_want) or not label_close(cols, col_want):
                viol.append(V(f"c15:column-labels:{base_name}", f"{os.path.basename(path)}: column labels {cols.tolist()[:4]}.. expected {col_want.tolist()[:4]}.."))
                return vals
            ref = want[:grid["NT"], :] * factor
            if vals.shape != ref.shape or not numpy.all(numpy.abs(vals - ref) <= 1e-7 * numpy.abs(ref) + 1e-300):
                viol.append(V(f"c15:values:{what}", f"{os.path.basename(path)} (keyword {kw!r}): file holds {vals.ravel()[:2].tolist()}, in-memory result in the documented unit {ref.ravel()[:2].tolist()}"))
            return vals

        by_rule = {}
        for rule in rules:
            for kw in rule["keywords"]:
                doc = DOC.get(kw)
                if doc is None:
                    # an alias added later: must behave like the other keywords of its rule
                    sib = [k for k in rule["keywords"] if k in DOC]
                    if not sib:
                        continue
                    doc = DOC[sib[0]]
                pat, unit, what, canon = doc
                if (what == "volumes" and base_name != "tp") or (what == "pressures" and base_name != "tv"):
                    continue
                out = os.path.join(d, f"out-{kw}")
                os.makedirs(out)
                with K.chdir(out):
                    try:
                        ResultsWriter(base).write(kw)
                    except Exception as ex:
                        viol.append(V(f"c15:write-raises:{what}:{type(ex).__name__}", f"keyword {kw!r} on {base_name}: {K.fmt_exc(ex)}"))
                        continue
                    contents = {}
                    if what in ("adiabatic", "isothermal"):
                        expected = {pat.format(ij="%d%d" % tuple(k.voigt), base=base_name): k for k in keys}
                        extra = sorted(set(os.listdir(".")) - set(expected))
                        if extra:
                            viol.append(V("c15:unexpected-files", f"keyword {kw!r}: unexpected files {extra[:5]}"))
                        for fn, k in expected.items():
                            v = check_file(fn, memory(what, k), FACTOR[unit], what, kw)
                            if v is not None:
                                contents[fn] = open(fn, "rb").read()
                    else:
                        fn = pat.format(base=base_name)
                        extra = sorted(set(os.listdir(".")) - {fn})
                        if extra:
                            viol.append(V("c15:unexpected-files", f"keyword {kw!r}: unexpected files {extra[:5]}"))
                        if check_file(fn, memory(what), FACTOR[unit], what, kw) is not None:
                            contents[fn] = open(fn, "rb").read()
                    by_rule.setdefault(canon, []).append((kw, contents))
        # aliases of one keyword produce identical content
        for canon, lst in by_rule.items():
            for kw, cont in lst[1:]:
                if cont != lst[0][1]:
                    viol.append(V("c15:alias-differs", f"aliases {lst[0][0]!r} and {kw!r} do not produce identical files"))
        # adiabatic and isothermal keywords select different tensors (they differ at T>0)
        if "cij_s" in by_rule and "cij_t" in by_rule and grid["NT"] > 1:
            s_files = by_rule["cij_s"][0][1]
            t_files = by_rule["cij_t"][0][1]
            same = [fs for fs in s_files if fs.replace("s_", "t_", 1) in t_files and s_files[fs] == t_files[fs.replace("s_", "t_", 1)]
                    and fs.startswith(("c11", "c22", "c33"))]
            if same:
                viol.append(V("c15:adiabatic-equals-isothermal", f"adiabatic and isothermal files are byte-identical for {same[:3]}"))
        # overrides: unit and (for single-table rules) file name
        for kw in ("bm_VRH", "v_s", "cij", "V" if base_name == "tp" else "p"):
            pat, unit, what, canon = DOC[kw]
            uname, ufac = OVERRIDE_UNIT[unit]
            out = os.path.join(d, f"ovr-{kw}")
            os.makedirs(out)
            with K.chdir(out):
                try:
                    cfg = {"keyword": kw, "unit": uname}
                    if what not in ("adiabatic", "isothermal"):
                        cfg["fname"] = f"my_{what}.dat"
                    ResultsWriter(base).write(cfg)
                except Exception as ex:
                    viol.append(V(f"c15:override-raises:{type(ex).__name__}", f"{cfg}: {K.fmt_exc(ex)}"))
                    continue
                if what in ("adiabatic", "isothermal"):
                    for k in keys[:3]:
                        check_file(pat.format(ij="%d%d" % tuple(k.voigt), base=base_name), memory(what, k), ufac, what + ":unit-override", kw)
                else:
                    if sorted(os.listdir(".")) != [cfg["fname"]]:
                        viol.append(V("c15:fname-override", f"{cfg}: files written {sorted(os.listdir('.'))}"))
                    else:
                        check_file(cfg["fname"], memory(what), ufac, what + ":unit-override", kw)
        # write_output(): the configured bases and variables
        outdir = os.path.join(d, "write_output")
        os.makedirs(outdir)
        with K.chdir(outdir):
            try:
                c.config["output"] = {"pressure_base": ["cij", "bm_VRH", {"keyword": "G_VRH", "unit": "kbar"}, "v"],
                                      "volume_base": ["p", "cij_t"]} if base_name == "tp" else {"volume_base": ["p", "vs"]}
                c.write_output()
                got = sorted(os.listdir("."))
                want = []
                if base_name == "tp":
                    want += ["c%d%ds_tp_gpa.txt" % tuple(k.voigt) for k in keys] + ["bm_VRH_tp_gpa.txt", "G_VRH_tp_gpa.txt", "v_tp_ang3.txt", "p_tv_gpa.txt"]
                    want += ["c%d%dt_tv_gpa.txt" % tuple(k.voigt) for k in keys]
                else:
                    want += ["p_tv_gpa.txt", "v_s_tv_km_s.txt"]
                if got != sorted(want):
                    viol.append(V("c15:write_output-files", f"write_output wrote {sorted(set(got) ^ set(want))[:6]} differently from the output section"))
            except Exception as ex:
                viol.append(V(f"c15:write_output-raises:{type(ex).__name__}", K.fmt_exc(ex)))
    return {"viol": viol, "nontrivial": nfiles > 5, "outcome": f"ok/{nfiles}files" if not viol else viol[0]["sig"], "files": nfiles}


def run_settings_route(case):
    """every documented keyword and alias requested THROUGH THE SETTINGS FILE (output section), in the string form or
    one of the mapping forms; Calculator(settings).write_output() must accept the section and leave every documented
    file (named by the documented pattern, or by the fname override)"""
    from cij.core.calculator import Calculator
    form = case["form"]
    viol = []
    req = {"tp": [], "tv": []}
    want = {}
    for kw, (pat, unit, what, canon) in DOC.items():
        if case.get("only") and canon != case["only"]:
            continue
        for base in ("tp", "tv"):
            if (what == "volumes" and base != "tp") or (what == "pressures" and base != "tv"):
                continue
            if form == "string":
                req[base].append(kw)
            elif form == "mapping":
                req[base].append({"keyword": kw})
            elif form == "mapping+unit":
                req[base].append({"keyword": kw, "unit": OVERRIDE_UNIT[unit][0]})
            else:
                if what in ("adiabatic", "isothermal"):
                    req[base].append({"keyword": kw})
                else:
                    req[base].append({"keyword": kw, "fname": f"{kw}_{base}.out"})
                    want[f"{kw}_{base}.out"] = kw
                    continue
            want[(pat, base, what)] = kw
    spec = dict(nv=6, nq=2, na=1, lattice="power", system="orthorhombic", compset="minimal", static="generic", weights="increasing",
                qha=dict(GRIDS["g0"]), output={"pressure_base": req["tp"], "volume_base": req["tv"]})
    with K.scratch() as d:
        synth.write(d, spec)
        out = os.path.join(d, "out")
        os.makedirs(out)
        with K.chdir(out):
            try:
                c = Calculator(os.path.join(d, "settings.yaml"))
                c.write_output()
            except Exception as ex:
                return {"viol": [V(f"c15:settings-route:raises:{type(ex).__name__}", f"output section in the {form} form listing every documented keyword and alias: {K.fmt_exc(ex)[:400]}")], "outcome": "raises"}
            got = set(os.listdir("."))
            keys = list(c.modulus_adiabatic.keys())
            for w, kw in want.items():
                if isinstance(w, str):
                    names = [w]
                else:
                    pat, base, what = w
                    names = [pat.format(ij="%d%d" % tuple(k.voigt), base=base) for k in keys] if what in ("adiabatic", "isothermal") else [pat.format(base=base)]
                missing = [n for n in names if n not in got]
                if missing:
                    viol.append(V(f"c15:settings-route:file-missing:{form}", f"keyword {kw!r} requested in the settings file ({form} form): {missing[:3]} not written"))
    return {"viol": viol, "nontrivial": True, "outcome": f"settings-route-ok/{len(got)}files" if not viol else viol[0]["sig"], "files": len(got)}


CUSTOM_RULES = [
    {"keywords": ["bm_V", "my_K"], "fname_pattern": "bm_V_{base}_kbar.txt", "var_type": "value", "unit_internal": "rydberg / bohr ^ 3",
     "unit": "kbar", "prop": "bulk_modulus_voigt", "description": "user rule re-using a packaged keyword, other unit and file name"},
    {"keywords": ["my_G"], "fname_pattern": "my_G_{base}.txt", "var_type": "value", "unit_internal": "rydberg / bohr ^ 3",
     "unit": "GPa", "prop": "shear_modulus_voigt", "description": "user rule with a new keyword"},
]
WRITER_WRITES = [["S", "bm_V"], ["C", "bm_V"], ["S", "B_V"], ["C", "my_G"], ["S", "G_V"], ["C", "my_K"], ["C", "vs"], ["S", "my_G"]]


def run_writers(case):
    """mode B over writer OBJECTS: a writer with the packaged rules (S) and one with user rules (C) that re-use the keyword
    bm_V are created in the given order and kept alive; each write must follow the rules of the writer it is sent to"""
    from cij.core.calculator import Calculator
    from cij.io.output.results_writer import ResultsWriter
    spec = dict(nv=6, nq=2, na=1, lattice="power", system="orthorhombic", compset="minimal", static="generic",
                weights="increasing", qha=dict(GRIDS["g0"]))
    viol = []
    with K.scratch() as d:
        synth.write(d, spec)
        try:
            c = Calculator(os.path.join(d, "settings.yaml"))
        except Exception as ex:
            return {"viol": [V(f"c15:calculator-raises:{type(ex).__name__}", K.fmt_exc(ex))], "outcome": "raises"}
        base = c.pressure_base
        import copy
        writers = {}
        for name in case["create"]:
            writers[name] = ResultsWriter(base) if name.startswith("S") else ResultsWriter(base, rules=copy.deepcopy(CUSTOM_RULES))
        expect = {("S", "bm_V"): ("bm_V_tp_gpa.txt", "bulk_modulus_voigt", GPA_PER_AU), ("S", "B_V"): ("bm_V_tp_gpa.txt", "bulk_modulus_voigt", GPA_PER_AU),
                  ("S", "G_V"): ("G_V_tp_gpa.txt", "shear_modulus_voigt", GPA_PER_AU), ("C", "bm_V"): ("bm_V_tp_kbar.txt", "bulk_modulus_voigt", 10.0 * GPA_PER_AU),
                  ("C", "my_K"): ("bm_V_tp_kbar.txt", "bulk_modulus_voigt", 10.0 * GPA_PER_AU), ("C", "my_G"): ("my_G_tp.txt", "shear_modulus_voigt", GPA_PER_AU),
                  ("C", "vs"): None, ("S", "my_G"): None}     # None: the keyword is unknown to that writer
        for n, (w, kw) in enumerate(case["writes"]):
            out = os.path.join(d, f"w{n}")
            os.makedirs(out)
            target = writers.get(w) or writers.get(w + "2")
            with K.chdir(out):
                exp = expect[(w, kw)]
                try:
                    target.write(kw)
                    if exp is None:
                        viol.append(V("c15:writers:foreign-keyword-accepted", f"created {case['create']}, write #{n} {kw!r} on writer {w}: a keyword of ANOTHER writer's rules was accepted; files {sorted(os.listdir('.'))}"))
                        continue
                except KeyError as ex:
                    if exp is not None:
                        viol.append(V("c15:writers:own-keyword-unknown", f"created {case['create']}, write #{n} {kw!r} on writer {w}: KeyError {ex}"))
                    continue
                except Exception as ex:
                    viol.append(V(f"c15:writers:raises:{type(ex).__name__}", f"created {case['create']}, write #{n} {kw!r} on writer {w}: {K.fmt_exc(ex)}"))
                    continue
                fn, prop, factor = exp
                got = sorted(os.listdir("."))
                if got != [fn]:
                    viol.append(V("c15:writers:file-name", f"created {case['create']}, write #{n} {kw!r} on writer {w}: wrote {got}, its own rule names {fn}"))
                    continue
                try:
                    vals = parse_table(fn)[3]
                except Exception as ex:
                    viol.append(V("c15:writers:unparseable", f"{fn}: {ex!r}"))
                    continue
                ref = numpy.asarray(getattr(base, prop), float)[:GRIDS["g0"]["NT"], :] * factor
                if vals.shape != ref.shape or not numpy.all(numpy.abs(vals - ref) <= 1e-7 * numpy.abs(ref)):
                    viol.append(V("c15:writers:values", f"created {case['create']}, write #{n} {kw!r} on writer {w}: {fn} holds {vals.ravel()[:2].tolist()}, expected {ref.ravel()[:2].tolist()} (unit of that writer's rule)"))
    return {"viol": viol, "nontrivial": len(case["writes"]) > 0, "outcome": "writers-ok" if not viol else viol[0]["sig"]}


ODD_FNAMES = ["K_{run1}.txt", "table_{base}.txt", "{}", "a b.txt", "vp.dat.txt", "path:vp.txt"]     # "path:" = handed over as pathlib.Path


def run_fnames(case):
    """file-name overrides that are not plain identifiers: braces, blanks, a pathlib.Path; the table must be written under
    exactly the given name"""
    from cij.core.calculator import Calculator
    from cij.io.output.results_writer import ResultsWriter
    import pathlib
    spec = dict(nv=6, nq=2, na=1, lattice="power", system="orthorhombic", compset="minimal", static="generic",
                weights="increasing", qha=dict(GRIDS["g0"]))
    viol = []
    with K.scratch() as d:
        synth.write(d, spec)
        try:
            c = Calculator(os.path.join(d, "settings.yaml"))
        except Exception as ex:
            return {"viol": [V(f"c15:calculator-raises:{type(ex).__name__}", K.fmt_exc(ex))], "outcome": "raises"}
        base = c.pressure_base if case["base"] == "tp" else c.volume_base
        name = case["fname"]
        given = pathlib.Path(name[5:]) if name.startswith("path:") else name
        want = name[5:] if name.startswith("path:") else name
        out = os.path.join(d, "out")
        os.makedirs(out)
        with K.chdir(out):
            try:
                ResultsWriter(base).write({"keyword": case["kw"], "fname": given})
            except Exception as ex:
                return {"viol": [V(f"c15:fname-override:raises:{type(ex).__name__}", f"file name {given!r} for keyword {case['kw']!r}: {K.fmt_exc(ex)}")], "outcome": "raises"}
            got = sorted(os.listdir("."))
            if got != [want]:
                viol.append(V("c15:fname-override:other-name", f"file name {given!r} for keyword {case['kw']!r}: files written {got}"))
            else:
                pat, unit, what, canon = DOC[case["kw"]]
                vals = parse_table(want)[3]
                ref = numpy.asarray(getattr(base, what), float)[:GRIDS["g0"]["NT"], :] * FACTOR[unit]
                if vals.shape != ref.shape or not numpy.all(numpy.abs(vals - ref) <= 1e-7 * numpy.abs(ref) + 1e-300):
                    viol.append(V("c15:fname-override:values", f"{want}: values differ from the in-memory result"))
    return {"viol": viol, "nontrivial": True, "outcome": "fname-ok" if not viol else viol[0]["sig"]}


SEQ_ALPHABET = ["bm_V", "B_V", {"keyword": "bm_V", "unit": "kbar", "fname": "bm_V_kbar.txt"}, {"keyword": "bulk_modulus_voigt", "fname": "copy_of_bm_V.txt"},
                "cij", "cij_s", "cij_t", {"keyword": "cij", "unit": "kbar"}, "vs", {"keyword": "v_s", "unit": "m/s", "fname": "vs_m_s.txt"}]


def run_sequence(case):
    """mode B: several requests through ONE writer (write_variables): every request must leave its file, with the content
    of the last request that named that file"""
    from cij.core.calculator import Calculator
    grid = GRIDS["g0"]
    spec = dict(nv=6, nq=2, na=1, lattice="power", system="orthorhombic", compset="minimal", static="generic",
                weights="increasing", qha=dict(grid))
    base_name = case["base"]
    viol = []
    with K.scratch() as d:
        synth.write(d, spec)
        try:
            c = Calculator(os.path.join(d, "settings.yaml"))
        except Exception as ex:
            return {"viol": [V(f"c15:calculator-raises:{type(ex).__name__}", K.fmt_exc(ex))], "outcome": "raises"}
        base = c.pressure_base if base_name == "tp" else c.volume_base
        keys = list(c.modulus_adiabatic.keys())
        out = os.path.join(d, "out")
        os.makedirs(out)
        import copy
        expected = {}      # file name -> (array, factor)
        requests = copy.deepcopy(list(case["seq"]))
        snapshot = copy.deepcopy(requests)
        if case.get("both_bases"):
            # the SAME request objects are first handed to the other base (a settings file may alias one list for both bases)
            other = c.volume_base if base_name == "tp" else c.pressure_base
            o2 = os.path.join(d, "out-other")
            os.makedirs(o2)
            with K.chdir(o2):
                try:
                    other.write_variables(requests)
                except Exception as ex:
                    return {"viol": [V(f"c15:sequence-raises:{type(ex).__name__}", f"{case['seq']} on the other base: {K.fmt_exc(ex)}")], "outcome": "raises"}
        for req in case["seq"]:
            cfg = {"keyword": req} if isinstance(req, str) else dict(req)
            pat, unit, what, canon = DOC[cfg["keyword"]]
            factor = FACTOR[unit]
            if "unit" in cfg:
                factor = {"kbar": 10.0 * GPA_PER_AU, "m/s": 1000.0}[cfg["unit"]]
            if what in ("adiabatic", "isothermal"):
                src = base.modulus_adiabatic if what == "adiabatic" else base.modulus_isothermal
                for k in keys:
                    expected[pat.format(ij="%d%d" % tuple(k.voigt), base=base_name)] = (numpy.asarray(src[k], float), factor)
            else:
                expected[cfg.get("fname") or pat.format(base=base_name)] = (numpy.asarray(getattr(base, what), float), factor)
        container = case.get("container", "list")
        handed = {"list": lambda: requests, "tuple": lambda: tuple(requests), "iterator": lambda: iter(requests),
                  "generator": lambda: (r for r in requests), "dict-values": lambda: dict(enumerate(requests)).values()}[container]()
        with K.chdir(out):
            try:
                base.write_variables(handed)
            except Exception as ex:
                return {"viol": [V(f"c15:sequence-raises:{type(ex).__name__}" + ("" if container == "list" else ":" + container), f"{case['seq']} handed over as {container}: {K.fmt_exc(ex)}")], "outcome": "raises"}
            if requests != snapshot:
                viol.append(V("c15:sequence:request-mutated", f"the request objects {snapshot} were changed to {requests} by writing them"))
            got = set(os.listdir("."))
            if got != set(expected):
                viol.append(V("c15:sequence:files" + ("" if container == "list" else ":" + container), f"requests {case['seq']} (handed over as {container}) on {base_name}: missing {sorted(set(expected) - got)[:4]}, unexpected {sorted(got - set(expected))[:4]}"))
            for fn, (arr, factor) in expected.items():
                if fn not in got:
                    continue
                try:
                    corner, rows, cols, vals, _ = parse_table(fn)
                except (ValueError, IndexError):
                    viol.append(V("c15:sequence:unparseable-table", f"requests {case['seq']} on {base_name}: {fn} is not a table"))
                    continue
                ref = arr[:grid["NT"], :] * factor
                if vals.shape != ref.shape or not numpy.all(numpy.abs(vals - ref) <= 1e-7 * numpy.abs(ref)):
                    viol.append(V("c15:sequence:content", f"requests {case['seq']} on {base_name}: {fn} does not hold the values of the last request that named it"))
    return {"viol": viol, "nontrivial": len(case["seq"]) > 1, "outcome": f"seq-ok/{len(expected)}files" if not viol else viol[0]["sig"], "files": len(expected)}


def explore(ctx):
    ctx.rule = ("complete product: 9 grids (one with a descending pressure grid) (incl. T_MIN>0, fractional DT, fractional T_MIN with integral DT, P_MIN<0, DT_SAMPLE != DT, DELTA_P_SAMPLE != DELTA_P) x 3 component sets (9/13/21) + a cubic table contradicting its system with the residual check switched off x "
                "2 bases; for each: every keyword and alias of the writer rules (read at run time, expectations transcribed from the "
                "documented table) written through ResultsWriter into its own directory and re-read by an independent parser; unit and "
                "file-name overrides; write_output() with a mixed output section; writer OBJECTS with packaged and with user rules (re-using a packaged keyword) created in 4 orders and kept alive, all sequences of <=2 writes over 8 (writer, keyword) letters; every documented keyword and alias requested through the settings file's output section in 4 forms (string, mapping, +unit, +fname) and rule by rule; all ordered sequences of <=2 (<=3 thorough) requests from a "
                "10-letter alphabet (keywords, aliases, unit/file-name overrides of 3 rules) through ONE writer: every request leaves its file "
                "with the content of the last request naming it, request objects unchanged, also after the same objects were first written on the other base, and when the requests are handed over as tuple / iterator / generator / dict view; file-name overrides with braces, blanks, several dots or given as pathlib.Path; non-trivial = more than 5 files checked / sequence longer than 1")
    ctx.assumptions = ["expected names/units transcribed from docs/usage/output.rst as rendered from the pinned writer_rules.yml", "CODATA unit factors from scipy.constants",
                       "file-name override asserted only for single-table keywords (for c_ij keywords one name cannot serve several components)"]
    cases = [{"grid": g, "ncomp": n, "base": b} for g in GRIDS for n in SYSTEMS for b in ("tp", "tv") if n != "cubic-inconsistent" or g in ("g0", "g3")]
    res = ctx.run(MOD, "run_case", cases, part="writer", chunksize=1)
    ctx.run_under(MOD, "run_case", cases[:2], ("-O",))
    import itertools
    wcases = [{"create": cr, "writes": [list(w) for w in ws]} for cr in (["S", "C"], ["C", "S"], ["S", "C", "S2"], ["C", "S", "C2"])
              for L in (1, 2) for ws in itertools.product(WRITER_WRITES, repeat=L)]
    res += ctx.run(MOD, "run_writers", wcases, part="writer-objects", chunksize=8, transitions=sum(len(c["writes"]) + len(c["create"]) for c in wcases))
    res += ctx.run(MOD, "run_fnames", [{"fname": f, "kw": kw, "base": b} for f in ODD_FNAMES for kw, b in (("v_p", "tp"), ("bm_VRH", "tv"), ("V", "tp"))],
                   part="file-name-overrides", chunksize=2)
    canons = sorted({v[3] for v in DOC.values()})
    res += ctx.run(MOD, "run_settings_route", [{"form": f} for f in ("string", "mapping", "mapping+unit", "mapping+fname")] +
                   [{"form": "string", "only": cn} for cn in canons], part="settings-route", chunksize=1)
    import itertools
    seqs = [list(sq) for L in ((1, 2) if ctx.quick else (1, 2, 3)) for sq in itertools.product(SEQ_ALPHABET, repeat=L)]
    both = [{"seq": sq, "base": b, "both_bases": True} for sq in seqs if len(sq) <= 2 and not any((r if isinstance(r, str) else r["keyword"]) in ("vs", "v_s") and False for r in sq)
            for b in ("tp", "tv")]
    conts = [{"seq": sq, "base": "tp", "container": ct} for sq in seqs if len(sq) == 2 and sq[0] != sq[1] for ct in ("tuple", "iterator", "generator", "dict-values")
             if ct != "tuple" or isinstance(sq[0], str)][:(160 if ctx.quick else None)]
    res += ctx.run(MOD, "run_sequence", [{"seq": sq, "base": b} for sq in seqs for b in (("tp",) if ctx.quick else ("tp", "tv"))] + both + conts,
                   part="request-sequences", chunksize=4, transitions=sum(len(sq) for sq in seqs))
    ctx.notes["files_checked"] = sum(r.get("files", 0) for r in res)
    ctx.notes["keywords"] = sorted(DOC)


def selftest():
    return abs(GPA_PER_AU - 14710.507) < 0.01 and abs(ANG3_PER_BOHR3 - 0.148184711) < 1e-8
