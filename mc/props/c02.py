"""C02 — adiabatic - isothermal gap = T V (dP/dT)^2 / (9 e_i e_j C_V); zero for shear keys and at T=0."""
from collections import OrderedDict

import numpy

from mc import duck as D
from mc.explore import V, HarnessError
from mc.props import c01

def seam_guard(ex):
    """an AttributeError raised BY THE DUCK (an attribute the duck-typed calculator does not carry) is a drift of the
    harness seam, not a property violation (DESIGN §12)"""
    if isinstance(ex, AttributeError) and "SimpleNamespace" in str(ex):
        raise HarnessError(f"duck-typed seam no longer matches the code: {ex}")


ID = "C02"
MOD = "mc.props.c02"
RTOL = 2e-7   # gap ~ (dP/dT)^2: twice the unit-bearing tolerance of DESIGN §5, on the Q-weighted absolute scale

DIMS = OrderedDict(list(c01.DIMS.items()) + [("cv", ["const", "field", "tiny", "large"])])
DIMS["tgrid"] = ["std", "zero", "low", "hot", "mix", "desc", "mid0", "n7", "n8", "n9", "n16"]
SHEAR = [(a, b) for a in range(1, 7) for b in range(a, 7) if b >= 4]


def run_case(case):
    from cij.core.phonon_contribution.nonshear import (
        LongitudinalElasticModulusPhononContribution as Long,
        OffDiagonalElasticModulusPhononContribution as Off,
    )
    spec = c01.spec_of(case)
    duck, laws, w, t, v = D.build(spec)
    e = D.strain_field(case["strain"], v)
    ref = c01.reference(laws, w, t, v)
    cv = duck.qha_calculator.volume_base.heat_capacity
    viol = []
    nontrivial = bool(numpy.any(ref["dPdT"] != 0))
    for i in range(3):
        for j in range(3):
            ei, ej = e[:, i], e[:, j]
            tag = "long" if i == j else "off"
            try:
                obj = (Long if i == j else Off)(duck, (ei, ej))
                gap = numpy.asarray(obj.value_adiabatic, float) - numpy.asarray(obj.value_isothermal, float)
                direct = numpy.asarray(obj.isothermal_to_adiabatic, float)
            except Exception as ex:
                seam_guard(ex)
                viol.append(V(f"c02:raises:{tag}:{type(ex).__name__}", f"({i + 1},{j + 1}) raised {ex!r}"))
                continue
            r = t[:, None] * v[None, :] * ref["dPdT"] ** 2 / (9 * (ei * ej)[None, :] * cv)
            s = t[:, None] * v[None, :] * ref["SdPdT"] ** 2 / (9 * (ei * ej)[None, :] * cv)
            if not numpy.all(numpy.isfinite(direct)):
                viol.append(V(f"c02:nonfinite:{tag}", f"gap c{i + 1}{j + 1}: non-finite (T grid {t.tolist()})"))
                continue
            bad = ~(numpy.abs(direct - r) <= RTOL * s + 1e-300)
            if bad.any():
                idx = tuple(int(x) for x in numpy.argwhere(bad)[0])
                viol.append(V(f"c02:mismatch:{tag}", f"gap c{i + 1}{j + 1} at {idx}: {float(direct[idx])!r} vs T V (dP/dT)^2/(9 e_i e_j C_V) = {float(r[idx])!r}"))
            # value_adiabatic - value_isothermal is the same quantity up to cancellation against the isothermal value
            iso = numpy.abs(numpy.asarray(obj.value_isothermal, float))
            if not numpy.all(numpy.abs(gap - direct) <= 4e-16 * (iso + numpy.abs(direct)) + 1e-300):
                viol.append(V(f"c02:adiabatic-not-iso-plus-gap:{tag}", f"value_adiabatic - value_isothermal differs from the gap term by {float(numpy.abs(gap - direct).max())!r}"))
            if numpy.any(t == 0) and numpy.any(direct[t == 0] != 0.0):
                viol.append(V(f"c02:nonzero-at-T0:{tag}", f"gap at T=0 is {direct[t == 0].ravel()[:3].tolist()}"))
            if i == j and numpy.any(direct < 0):
                viol.append(V("c02:negative-diagonal", f"gap c{i + 1}{i + 1} negative: {float(direct.min())!r}"))
    return {"viol": viol, "nontrivial": nontrivial, "outcome": ("trivial" if not nontrivial else "ok") if not viol else viol[0]["sig"]}


def run_reuse(case):
    """process/object history: ONE calculator-like object evaluated several times with fresh contribution objects, its
    temperature grid / spectrum / heat capacity replaced in between (same shapes); each evaluation must give the gap of the
    CURRENT state.  Also: several objects built and released one after the other."""
    from cij.core.phonon_contribution.nonshear import (
        LongitudinalElasticModulusPhononContribution as Long,
        OffDiagonalElasticModulusPhononContribution as Off,
    )
    viol = []
    states = [dict(c01.HIST_SPECS[0], tgrid=[0.0, 300.0, 1500.0]), dict(c01.HIST_SPECS[0], tgrid=[0.0, 450.0, 900.0]),
              dict(c01.HIST_SPECS[0], tgrid=[0.0, 300.0, 1500.0], wset="low", gset="same"), dict(c01.HIST_SPECS[0], tgrid=[10.0, 20.0, 2500.0], cv="const")]
    duck0 = None
    for n, k in enumerate(case["order"]):
        spec = c01.spec_of(states[k])
        duck, laws, w, t, v = D.build(spec)
        if case["mode"] == "same-object" and duck0 is not None:
            for a in ("t_array", "freq_array", "mode_gamma", "static_p_array"):
                setattr(duck0, a, getattr(duck, a))
            duck0.qha_calculator.volume_base.heat_capacity = duck.qha_calculator.volume_base.heat_capacity
            duck0.qha_calculator.volume_base.pressures = duck.qha_calculator.volume_base.pressures
            duck0.qha_calculator.volume_base.t_array = t
            duck = duck0
        duck0 = duck
        e = D.strain_field("const", v)
        ref = c01.reference(laws, w, t, v)
        cv = duck.qha_calculator.volume_base.heat_capacity
        for i, j in ((0, 0), (0, 1), (2, 1)):
            try:
                g = numpy.asarray((Long if i == j else Off)(duck, (e[:, i], e[:, j])).isothermal_to_adiabatic, float)
            except Exception as ex:
                seam_guard(ex)
                viol.append(V(f"c02:object-history:raises:{type(ex).__name__}", f"evaluation #{n} of {case}: {ex!r}"))
                return {"viol": viol, "outcome": viol[0]["sig"]}
            r = t[:, None] * v[None, :] * ref["dPdT"] ** 2 / (9 * (e[:, i] * e[:, j])[None, :] * cv)
            sc = t[:, None] * v[None, :] * ref["SdPdT"] ** 2 / (9 * (e[:, i] * e[:, j])[None, :] * cv)
            if g.shape != r.shape or not numpy.all(numpy.abs(g - r) <= RTOL * sc + 1e-300):
                viol.append(V(f"c02:object-history:{case['mode']}", f"evaluation #{n} (state {k}) of {case['order']} in mode {case['mode']}: gap c{i + 1}{j + 1} = {g.ravel()[-1]!r}, expected {r.ravel()[-1]!r}"))
                return {"viol": viol, "outcome": viol[0]["sig"]}
        if case["mode"] == "released":
            import gc
            del duck
            duck0 = None
            gc.collect()
    return {"viol": viol, "nontrivial": len(case["order"]) > 1, "outcome": "reuse-ok"}


def run_shear(case):
    """All 15 shear keys (and the 6 others as dependencies) through the real task list: adiabatic == isothermal."""
    from mc.props import c04
    spec = dict(c04.SPEC)
    spec.update(case["spec"])
    duck, laws, w, t, v = D.build(spec)
    strain = D.strain_field(case["strain"], v)
    pairs = [tuple(p) for p in case["keys"]]
    viol = []
    try:
        tl, keys, iso, adi = c04.run_request(duck, strain, pairs)
    except Exception as ex:
        seam_guard(ex)
        return {"viol": [V(f"c02:shear:raises:{type(ex).__name__}", f"{ex!r}")], "outcome": "raises"}
    nons = 0
    ref = c01.reference(laws, w, t, v) if any(p[1] <= 3 for p in pairs) else None
    cv = duck.qha_calculator.volume_base.heat_capacity
    frac = numpy.asarray(strain, float) / numpy.asarray(strain, float).sum(axis=1, keepdims=True)   # e_i = strain_i / sum(strain)
    for p, k in zip(pairs, keys):
        a, b = numpy.asarray(iso[k]), numpy.asarray(adi[k])
        if p[1] <= 3:
            # the gap of the non-shear keys as delivered by the task list (strain fractions of the possibly
            # un-normalised positive axial strains)
            ee = (frac[:, p[0] - 1] * frac[:, p[1] - 1])[None, :]
            r = t[:, None] * v[None, :] * ref["dPdT"] ** 2 / (9 * ee * cv)
            sc = t[:, None] * v[None, :] * ref["SdPdT"] ** 2 / (9 * ee * cv)
            bad = ~(numpy.abs((b - a) - r) <= RTOL * sc + 8e-16 * (numpy.abs(a) + numpy.abs(b)) + 1e-300)
            if bad.any():
                idx = tuple(int(x) for x in numpy.argwhere(bad)[0])
                viol.append(V("c02:tasklist:gap-mismatch", f"c{p[0]}{p[1]} via the task list at {idx} (strain {case['strain']}): adiabatic-isothermal = {float((b - a)[idx])!r} vs T V (dP/dT)^2/(9 e_i e_j C_V) = {float(r[idx])!r}"))
        if p[1] >= 4:
            if not numpy.array_equal(a, b):
                viol.append(V("c02:shear:adiabatic-differs", f"c{p[0]}{p[1]}: adiabatic differs from isothermal by {float(numpy.abs(a - b).max())!r} (strain {case['strain']})"))
        else:
            if numpy.any(t > 0) and numpy.any(b[t > 0] != a[t > 0]):
                nons += 1
    return {"viol": viol, "nontrivial": nons > 0 or all(p[1] >= 4 for p in pairs), "outcome": f"shear-ok/{nons}" if not viol else viol[0]["sig"]}


def explore(ctx):
    ctx.rule = ("mode A: deviation lattice of C01's alphabets + heat-capacity field; each configuration evaluates the gap for all 9 "
                "ordered (i,j) with i,j<=3 against -d2F/dTdV from mpmath; plus all 15 shear keys through the real task list "
                "(full set, each singleton, each pair with a non-shear key) x strain fields x spectra: adiabatic bit-identical to "
                "isothermal, and the gap of the non-shear keys delivered by the task list (also for positive strains not normalised to 1) against the same formula; mode B: all sequences of <=3 states (T grid / spectrum / C_V replaced) evaluated on ONE calculator-like object, and "
                "on objects released one after the other; non-trivial = dP/dT non-zero somewhere / non-shear gap non-zero in the same request")
    ctx.assumptions = c01.explore.__doc__ and [] or []
    ctx.assumptions = ["as C01", "C_V is an arbitrary supplied positive field (constant, (T,V)-varying)"]
    dims = OrderedDict((k, list(v)) for k, v in DIMS.items())
    if ctx.quick:
        ctx.run_lattice(MOD, "run_case", dims, 2, part="gap-lattice<=2", canon=c01.canon)
    else:
        small = OrderedDict(dims)
        small["shape"] = [s for s in dims["shape"] if s != [8, 10]]
        ctx.run_lattice(MOD, "run_case", small, None, part="gap-small-shapes-full-product", canon=c01.canon)
        ctx.run_lattice(MOD, "run_case", dims, 3, part="gap-all-shapes<=3", canon=c01.canon)
    allp = [(a, b) for a in range(1, 7) for b in range(a, 7)]
    shear_cases = []
    specs = [{}, {"tgrid": [0.0, 2.0, 300.0, 2500.0], "cv": "const"}, {"nq": 3, "na": 1, "wset": "edge", "tgrid": [5.0, 1500.0]}]
    for sp in (specs if not ctx.quick else specs[:2]):
        for s in ["const", "thirds", "field", "extreme", "ones", "raw"]:
            shear_cases.append({"spec": sp, "strain": s, "keys": [list(p) for p in allp]})
            shear_cases.append({"spec": sp, "strain": s, "keys": [list(p) for p in SHEAR]})
            for p in SHEAR:
                shear_cases.append({"spec": sp, "strain": s, "keys": [list(p)]})
                if not ctx.quick:
                    for q in allp[:3]:
                        shear_cases.append({"spec": sp, "strain": s, "keys": [list(q), list(p)]})
    ctx.run(MOD, "run_shear", shear_cases, part="shear-identity")
    # axis-length dimension (see c01.run_long_axis): the adiabatic values and the adiabatic-isothermal gap on T / V axes far
    # longer than the lattice's grids must equal, row by row, the same points evaluated in chunks of <= 8 on fresh objects
    lt = c01.LONG_T if ctx.quick else sorted(set(c01.LONG_T + list(range(17, 201)) + [256, 258, 320, 384, 385, 512, 513]))
    lv = c01.LONG_V if ctx.quick else sorted(set(c01.LONG_V + list(range(17, 201)) + [256, 257, 400, 402, 512, 513]))
    ctx.run("mc.props.c01", "run_long_axis", [{"axis": a, "n": n, "adiabatic": True, "prefix": "c02"} for a, ns in (("T", lt), ("V", lv)) for n in ns],
            part="axis-lengths", chunksize=1)
    ctx.notes["axis_lengths"] = {"T": lt, "V": lv}
    ctx.run_under(MOD, "run_shear", shear_cases[:2] + shear_cases[-2:], ("-O",))
    import itertools
    orders = [list(p) for L in (1, 2, 3) for p in itertools.product(range(4), repeat=L)]
    ctx.run(MOD, "run_reuse", [{"order": o, "mode": m} for o in orders for m in ("same-object", "released")], part="object-histories",
            transitions=sum(len(o) for o in orders) * 2)
    ctx.notes["alphabets"] = {k: v for k, v in DIMS.items()}


def selftest():
    from mc.ref import fph_ref
    return fph_ref.selftest()
