"""C06 — (T,V)->(T,P) conversion evaluates each quantity at the volume where P(T,V)=P (mode A)."""
from collections import OrderedDict
import os

import numpy

from mc import synth, calc as K
from mc.explore import V, HarnessError, repo_root

ID = "C06"
MOD = "mc.props.c06"

BASE = dict(nv=6, nq=2, na=1, lattice="power", system="monoclinic", compset="minimal", static="generic",
            weights="increasing", poly_degree=2)
DATASETS = {
    "A": dict(BASE),
    "B": dict(BASE, nv=12, nq=3, na=2, lattice="none", system="orthorhombic"),
    "C": dict(BASE, nv=4, nq=1, na=2, lattice="tab", system=None, compset="full21", static="cubicfit"),
}
# inside-range pressure grids (P_MIN, DELTA_P, NTV): max desired pressure <= half the reachable pressure
INSIDE = {"p0": (0, 1.0, 41), "p1": (-2, 0.5, 81), "p2": (5, 0.25, 121), "p3": (0, 0.3, 161)}
TGRIDS = {"hot": dict(T_MIN=0, NT=4, DT=4000, DT_SAMPLE=4000),
          # square (T,V) grids: qha appends 4 guard temperatures, so NT + 4 == NTV for the pressure grids p0 (41) and p1 (81)
          "sq41": dict(T_MIN=0, NT=37, DT=60, DT_SAMPLE=60), "sq81": dict(T_MIN=50, NT=77, DT=30, DT_SAMPLE=30), "t0": dict(T_MIN=0, NT=4, DT=600, DT_SAMPLE=600), "t1": dict(T_MIN=300, NT=3, DT=1200, DT_SAMPLE=1200), "t2": dict(T_MIN=0, NT=2, DT=50, DT_SAMPLE=50),
          # static_only: the QHA layer's F, P(T,V) carry no phonon part, so all isotherms of P coincide while cij's moduli keep their T dependence
          "t0-static": dict(T_MIN=0, NT=4, DT=600, DT_SAMPLE=600, static_only=True)}
AVERAGES = ["bulk_modulus_voigt", "bulk_modulus_reuss", "bulk_modulus_voigt_reuss_hill", "shear_modulus_voigt",
            "shear_modulus_reuss", "shear_modulus_voigt_reuss_hill", "primary_velocities", "secondary_velocities"]


def spec_of(case):
    s = dict(DATASETS[case["data"]])
    q = dict(TGRIDS[case["tgrid"]])
    if "pgrid" in case and case["pgrid"] not in ("between", "pmin-offset", "edge-top", "edge-bottom"):
        pmin, dp, ntv = INSIDE[case["pgrid"]] if isinstance(case["pgrid"], str) else case["pgrid"]
        q.update(P_MIN=pmin, DELTA_P=dp, DELTA_P_SAMPLE=dp * case.get("sample_stride", 1), NTV=ntv)
    s["qha"] = q
    if case.get("output") is not None:
        s["output"] = case["output"]          # the output section of the settings file (which tables a later write_output would write)
    return s


def isotherm_reference(p_row, f_row, p_new):
    """independent cubic spline in P along one isotherm + tolerance = 25% of the largest change of f over the three
    cells bracketing each evaluation point (+1e-9 relative)"""
    from scipy.interpolate import CubicSpline
    order = numpy.argsort(p_row)
    x, y = p_row[order], f_row[order]
    ref = CubicSpline(x, y)(p_new)
    k = numpy.clip(numpy.searchsorted(x, p_new) - 1, 0, len(x) - 2)
    dy = numpy.abs(numpy.diff(y))
    tol = numpy.zeros(len(p_new))
    for i, kk in enumerate(k):
        lo, hi = max(kk - 1, 0), min(kk + 2, len(dy))
        tol[i] = 0.25 * dy[lo:hi].max() + 1e-9 * abs(ref[i])
    return ref, tol


def run_case(case):
    from mc.ref import pipeline_ref as P
    spec = spec_of(case)
    viol = []
    with K.scratch() as d:
        ds, st = synth.write(d, spec)
        try:
            ref = P.Pipeline(d, repo_root(), laws=ds["laws"])
        except Exception as ex:
            raise HarnessError(f"reference pipeline failed: {ex!r}")
        if case.get("pgrid") == "pmin-offset":
            # grid starting at P_MIN = reach/2 whose top lies 30 % above the reach: overshoots by less than P_MIN
            reach0 = ref.p_reach_gpa
            pmin = round(0.5 * reach0, 1)
            spec["qha"].update(P_MIN=pmin, NTV=41, DELTA_P=float((1.3 * reach0 - pmin) / 40), DELTA_P_SAMPLE=float((1.3 * reach0 - pmin) / 40))
            ds, st = synth.write(d, spec)
            ref = P.Pipeline(d, repo_root(), laws=ds["laws"])
            if not (ref.p_desired_max_gpa >= 1.2 * ref.p_reach_gpa and ref.p_desired_max_gpa - ref.p_reach_gpa < pmin):
                raise HarnessError("pmin-offset construction failed")
            case = dict(case, near=True)
        if case.get("pgrid") == "between":
            # requested maximum half way between the reach at the coldest and at the hottest isotherm: above the pressure
            # reachable at *every* temperature, so it must be rejected (DELTA_P only: the fine volume grid is unchanged)
            ends = numpy.array(ref.q.p_tv_gpa)[:, -1]
            if not ends.max() - ends.min() > 1.0:
                raise HarnessError(f"isotherm reach spread too small: {ends.min()} .. {ends.max()}")
            target = 0.5 * (ends.min() + ends.max())
            spec["qha"].update(P_MIN=0, NTV=41, DELTA_P=float(target / 40), DELTA_P_SAMPLE=float(target / 40))
            ds, st = synth.write(d, spec)
            ref = P.Pipeline(d, repo_root(), laws=ds["laws"])
            ends2 = numpy.array(ref.q.p_tv_gpa)[:, -1]
            if not (ends2.min() + 0.25 <= ref.p_desired_max_gpa <= ends2.max() - 0.25):
                raise HarnessError("between-case construction failed")
            case = dict(case, near=True)
        if case.get("pgrid") in ("edge-top", "edge-bottom"):
            # still inside the range at every temperature, but the top (bottom) of the grid lies in the LAST (FIRST) volume
            # interval of the isotherm that limits it
            ptv = numpy.array(ref.q.p_tv_gpa)
            if case["pgrid"] == "edge-top":
                hi, hi2 = ptv[:, -1].min(), ptv[:, -2].min()
                top, pmin = hi - 0.3 * (hi - hi2), 0.0
                if not hi2 < top < hi:
                    raise HarnessError("edge-top construction failed")
            else:
                lo, lo2 = ptv[:, 0].max(), ptv[:, 1].max()
                pmin, top = lo + 0.3 * (lo2 - lo), 0.4 * ptv[:, -1].min()
                if not (lo < pmin < lo2 and pmin < 0):
                    raise HarnessError(f"edge-bottom construction failed: {lo} {lo2}")
            spec["qha"].update(P_MIN=float(pmin), NTV=41, DELTA_P=float((top - pmin) / 40), DELTA_P_SAMPLE=float((top - pmin) / 40))
            ds, st = synth.write(d, spec)
            ref = P.Pipeline(d, repo_root(), laws=ds["laws"])
            ptv = numpy.array(ref.q.p_tv_gpa)
            pd = numpy.array(ref.q.desired_pressures_gpa)
            if not (ptv[:, 0].max() < pd.min() and pd.max() < ptv[:, -1].min() and
                    (ptv[:, -2].min() < pd.max() if case["pgrid"] == "edge-top" else pd.min() < ptv[:, 1].max())):
                raise HarnessError("edge grid is not where it was meant to be")
            case = dict(case, edge=True)
        reach, want_max = ref.p_reach_gpa, ref.p_desired_max_gpa
        expect_error = case.get("expect") == "error"
        if expect_error and not want_max >= 2 * reach and not (want_max > reach and case.get("near")):
            raise HarnessError(f"overshoot case does not overshoot: max desired {want_max} reach {reach}")
        if not expect_error and not case.get("edge") and not want_max <= 0.5 * reach:
            raise HarnessError(f"inside case is not inside: max desired {want_max} reach {reach}")
        from cij.core.calculator import Calculator
        try:
            c = Calculator(os.path.join(d, "settings.yaml"))
        except ValueError as ex:
            if expect_error:
                return {"viol": [], "outcome": "rejected", "key": None}
            return {"viol": [V("c06:inside-grid-rejected", f"pressure grid inside the reachable range (max {want_max} GPa, reach {reach:.1f} GPa) rejected: {ex}")], "outcome": "raises"}
        except Exception as ex:
            return {"viol": [V(f"c06:raises:{type(ex).__name__}", K.fmt_exc(ex))], "outcome": "raises"}
        if expect_error:
            return {"viol": [V("c06:overshoot-accepted", f"pressure grid up to {want_max} GPa accepted although only {reach:.1f} GPa is reachable at every temperature")], "outcome": "accepted"}
        try:
            vb, pb = c.volume_base, c.pressure_base
            p_tv = numpy.asarray(vb.pressures)
            p_arr = numpy.asarray(pb.p_array)
            t = numpy.asarray(pb.t_array)
        except Exception as ex:
            return {"viol": [V(f"c06:raises:{type(ex).__name__}", K.fmt_exc(ex))], "outcome": "raises"}
        if not (numpy.array_equal(p_tv, ref.p_tv) and numpy.array_equal(p_arr, ref.p_desired)):
            viol.append(V("c06:grid-wiring", "volume_base.pressures / pressure_base.p_array differ from an independently driven qha instance"))
            return {"viol": viol, "outcome": viol[0]["sig"]}
        nt, npz = len(t), len(p_arr)
        pscale = float(numpy.abs(p_arr).max())
        # (i) converting the pressure field returns the requested pressures
        try:
            back = numpy.asarray(pb.v2p(p_tv))
            if back.shape != (nt, npz) or not numpy.all(numpy.abs(back - p_arr[None, :]) <= 1e-12 * pscale):
                viol.append(V("c06:pressure-roundtrip", f"v2p(P(T,V)) != requested pressures: max deviation {float(numpy.abs(back - p_arr[None, :]).max()) if back.shape == (nt, npz) else back.shape}"))
            # (ii) cubic-in-P synthetic fields are converted exactly (4-point Lagrange), with T-dependent coefficients
            for coef in ((0.3, -1.0, 2.0, 0.5), (1.0, 0.0, 0.0, -3.0)):
                tt = (1.0 + numpy.arange(nt))[:, None]
                x = p_tv / pscale
                f = coef[0] * tt + coef[1] * x + coef[2] * tt * x ** 2 + coef[3] * x ** 3
                xn = p_arr[None, :] / pscale
                want = coef[0] * tt + coef[1] * xn + coef[2] * tt * xn ** 2 + coef[3] * xn ** 3
                got = numpy.asarray(pb.v2p(f))
                if not numpy.all(numpy.abs(got - want) <= 1e-9 * numpy.abs(want).max()):
                    viol.append(V("c06:cubic-field-inexact", f"a cubic-in-P field is not reproduced: max error {float(numpy.abs(got - want).max())!r}"))
                    break
        except Exception as ex:
            viol.append(V(f"c06:v2p-raises:{type(ex).__name__}", K.fmt_exc(ex)))
        # (iii) every named quantity against an independent interpolation along the isotherm
        quantities = []
        keys = list(c.modulus_adiabatic.keys())
        for k in keys:
            quantities.append((f"c{k.voigt[0]}{k.voigt[1]}s", lambda k=k: (c.modulus_adiabatic[k], pb.modulus_adiabatic[k])))
            quantities.append((f"c{k.voigt[0]}{k.voigt[1]}t", lambda k=k: (c.modulus_isothermal[k], pb.modulus_isothermal[k])))
            nm = "c%d%d" % tuple(k.voigt)
            quantities.append((nm + ".attr", lambda nm=nm: (getattr(vb, nm), getattr(pb, nm))))
            quantities.append((nm + "t.attr", lambda nm=nm: (getattr(vb, nm + "t"), getattr(pb, nm + "t"))))
            quantities.append((nm + "s.attr", lambda nm=nm: (getattr(vb, nm + "s"), getattr(pb, nm + "s"))))
            # the 'corresponding' volume-base quantity of the attribute spellings: t = isothermal, s / none = adiabatic
            try:
                for suffix, src in (("t", c.modulus_isothermal), ("s", c.modulus_adiabatic), ("", c.modulus_adiabatic)):
                    if not numpy.array_equal(numpy.asarray(getattr(vb, nm + suffix)), numpy.asarray(src[k])):
                        viol.append(V(f"c06:attribute-selects-wrong-tensor:{suffix or 'none'}", f"volume_base.{nm + suffix} is not the {'isothermal' if suffix == 't' else 'adiabatic'} {nm}"))
            except Exception as ex:
                viol.append(V(f"c06:quantity-raises:c:{type(ex).__name__}", f"{nm}: {K.fmt_exc(ex)}"))
        for nm in ("s11", "s12", "s44", "s66", "s13"):
            quantities.append((nm, lambda nm=nm: (getattr(vb, nm), getattr(pb, nm))))
        for nm in AVERAGES:
            quantities.append((nm, lambda nm=nm: (getattr(vb, nm), getattr(pb, nm))))
        nq_checked = 0
        held = []
        for name, get in quantities:
            try:
                f_tv, f_tp = get()
                f_tv, f_tp = numpy.asarray(f_tv, float), numpy.asarray(f_tp, float)
            except Exception as ex:
                viol.append(V(f"c06:quantity-raises:{name.split('.')[0][:1]}:{type(ex).__name__}", f"{name}: {K.fmt_exc(ex)}"))
                continue
            if not numpy.all(numpy.isfinite(f_tv)):
                if not spec["qha"].get("static_only"):
                    viol.append(V("c06:nonfinite-volume-base", f"{name}: the (T,V) table has non-finite entries"))
                continue
            if f_tp.shape != (nt, npz):
                viol.append(V("c06:shape", f"{name}: pressure-base shape {f_tp.shape} expected {(nt, npz)}"))
                continue
            held.append((name, get()[1], f_tp.copy()))
            for a in range(nt):
                r, tol = isotherm_reference(p_tv[a], f_tv[a], p_arr)
                bad = ~(numpy.abs(f_tp[a] - r) <= tol)
                if bad.any():
                    j = int(numpy.argmax(bad))
                    viol.append(V(f"c06:mismatch:{'modulus' if name[0] in 'cs' and name[1].isdigit() else name}",
                                  f"{name} at T={t[a]:g} K, P index {j}: {float(f_tp[a, j])!r}, value on the isotherm at that pressure {float(r[j])!r} (tolerance {float(tol[j]):.2e})"))
                    break
            nq_checked += 1
        # a table handed out earlier must not change when later tables are requested (no shared output buffer)
        for name, arr, snapshot in held:
            if not numpy.array_equal(numpy.asarray(arr, float), snapshot):
                viol.append(V("c06:table-changed-after-later-request", f"the array returned for {name} changed after other pressure-base quantities were requested"))
                break
        try:
            both = dict(pb.modulus_adiabatic.items())
            ks = list(both)
            if len(ks) >= 2 and any(numpy.array_equal(numpy.asarray(both[ks[0]]), numpy.asarray(both[k])) for k in ks[1:3]):
                viol.append(V("c06:items-alias", "dict(pressure_base.modulus_adiabatic.items()) maps different components to identical tables"))
        except Exception as ex:
            viol.append(V(f"c06:items-raises:{type(ex).__name__}", K.fmt_exc(ex)))
        # (iv) V(T,P): decreasing in P and P(T, V(T,P)) = P
        try:
            v_tp = numpy.asarray(pb.volumes, float)
            v = numpy.asarray(vb.v_array, float)
            if v_tp.shape != (nt, npz):
                viol.append(V("c06:shape", f"volumes: shape {v_tp.shape}"))
            else:
                if not numpy.all(numpy.diff(v_tp, axis=1) < 0):
                    viol.append(V("c06:volume-not-decreasing", "V(T,P) is not strictly decreasing in P"))
                from scipy.interpolate import PchipInterpolator
                for a in range(nt):
                    o = numpy.argsort(v)
                    pv = PchipInterpolator(v[o], p_tv[a][o])(v_tp[a])
                    cell = numpy.abs(numpy.diff(p_tv[a])).max()
                    if not numpy.all(numpy.abs(pv - p_arr) <= 0.25 * cell):
                        j = int(numpy.argmax(numpy.abs(pv - p_arr)))
                        viol.append(V("c06:volume-pressure-inconsistent", f"P(T,V(T,P)) = {float(pv[j])!r} for requested P = {float(p_arr[j])!r} at T={t[a]:g}"))
                        break
        except Exception as ex:
            viol.append(V(f"c06:volumes-raises:{type(ex).__name__}", K.fmt_exc(ex)))
    return {"viol": viol, "nontrivial": nq_checked > 10, "outcome": f"ok/{nq_checked}q/{nt}x{npz}" if not viol else viol[0]["sig"],
            "nodes": nq_checked * nt * npz}


def overshoot_cases():
    """pressure grids that extend above the reach (>= 2x), built from the reach of each data set (about 300-400 GPa)."""
    out = []
    for data in DATASETS:
        for tg in ("t0", "t1", "t2"):
            for pg in ([0, 20.0, 41], [0, 100.0, 41], [900, 1.0, 11], [0, 5.0, 201], [-5, 25.0, 33]):
                out.append({"data": data, "tgrid": tg, "pgrid": pg, "expect": "error"})
        # sparse output sampling (DELTA_P_SAMPLE >> DELTA_P): the whole requested grid counts, not only the sampled pressures
        for pg, stride in (([0, 20.0, 41], 50), ([0, 20.0, 41], 7), ([0, 5.0, 201], 300)):
            out.append({"data": data, "tgrid": "t0", "pgrid": pg, "sample_stride": stride, "expect": "error"})
        # the refusal must not depend on which tables the settings file asks to be written
        for outsec in ({"pressure_base": [], "volume_base": ["p"]}, {"pressure_base": []}, {"volume_base": ["cij", "p"]},
                       {"pressure_base": ["v"], "volume_base": []}):
            out.append({"data": data, "tgrid": "t0", "pgrid": [0, 20.0, 41], "output": outsec, "expect": "error"})
        for tg in ("hot", "t1"):
            out.append({"data": data, "tgrid": tg, "pgrid": "between", "expect": "error"})
        for tg in ("t0", "t2"):
            out.append({"data": data, "tgrid": tg, "pgrid": "pmin-offset", "expect": "error"})
    return out


def explore(ctx):
    ctx.rule = ("3 synthetic data sets x 3 temperature grids x 4 inside pressure grids (+ square (T,V) grids with NT+4 == NTV) (max requested <= reach/2), + static_only runs (coinciding isotherms of P), + grids whose top / bottom lies in the last / first volume interval of the limiting isotherm: every modulus "
                "(adiabatic, isothermal, attribute spellings), compliances, 6 averages, 2 velocities and V at every (T,P) node vs an "
                "independent cubic spline along the isotherm; pressure round trip; exact conversion of cubic-in-P fields; plus 72 "
                "overshooting grids (max requested >= 2x reach; also with output sections that list no pressure-base table) and 6 grids whose maximum lies between the reach of the coldest and the hottest isotherm, all of which must be rejected; complete in both tiers; non-trivial = >10 quantities checked")
    ctx.assumptions = ["qha's P(T,V) and V(T,P) are trusted as a library", "tolerance: 25% of the local cell variation (DESIGN §5)"]
    inside = [{"data": dname, "tgrid": tg, "pgrid": pg} for dname in DATASETS for tg in TGRIDS if tg not in ("hot", "sq41", "sq81") for pg in INSIDE]
    inside += [{"data": dname, "tgrid": tg, "pgrid": pg} for dname in ("A", "C") for tg, pg in (("sq41", "p0"), ("sq81", "p1"))]
    inside += [{"data": dname, "tgrid": "t0-static", "pgrid": pg} for dname in DATASETS for pg in ("p0", "p2")]
    inside += [{"data": dname, "tgrid": tg, "pgrid": pg} for dname in DATASETS for tg, pg in (("t0", "edge-top"), ("t1", "edge-top"), ("t2", "edge-bottom"), ("t0", "edge-bottom"))]
    res = ctx.run(MOD, "run_case", inside, part="inside-grids", chunksize=1)
    ctx.notes["grid_nodes_checked"] = sum(r.get("nodes", 0) for r in res)
    ctx.run(MOD, "run_case", overshoot_cases(), part="overshooting-grids", chunksize=1)
    ctx.run_under(MOD, "run_case", inside[:1] + inside[-1:] + overshoot_cases()[:1], ("-O",))


def selftest():
    x = numpy.linspace(0, 10, 41)
    r, tol = isotherm_reference(x, x ** 3, numpy.array([2.5, 7.77]))
    return bool(numpy.allclose(r, [2.5 ** 3, 7.77 ** 3], rtol=1e-6))
