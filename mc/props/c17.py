"""C17 — input files round-trip: phonon data write/read, static table parse, `cij fill` output.

Three families of cases, all enumerated completely (mode A) plus a depth-2 history for the command
(mode B: `fill` applied to its own output):

  phonon   write_energy(path, data) -> read_energy(path)           (cij.io.traditional.qha_input)
  static   text written by io_ref  -> read_elast_data(path)        (cij.io.traditional.elast_dat)
  fill     `cij fill -s SYSTEM FILE` stdout -> read_elast_data     (cij.cli.cij:main via CliRunner)
  shipped  the example files of the tree, read by cij and by io_ref (differential only)

Tolerances (DESIGN §5, printed tables): half a unit in the last printed digit of the *stated* writer
format for the phonon file (P/V/E %12.6f, q coordinates %10.4f, frequencies %12.6f, weight block
%10.6f) plus 4 ulp of the value (the decimal literal is not a binary number); exact equality for
everything that is only *read* (static tables, cij's parse against io_ref's parse of the same bytes).
For the command, see _fill_tol().
"""
from __future__ import annotations

import os
import shutil
import tempfile
from decimal import Decimal

from collections import OrderedDict

from mc.explore import V, HarnessError, repo_root, lattice, lattice_size
from mc.ref import io_ref as R

ID = "C17"
MOD = "mc.props.c17"

EPS = 2.220446049250313e-16

# =========================================================================== phonon data

SHAPES = [(nv, nq, np_) for nv in (1, 2, 12) for nq in (1, 2, 10) for np_ in (3, 6, 60)]
FAMILIES = ["tiny", "unit", "large", "physical"]
NMNA = [(1, 1), (2, 10), (4, 20), (12, 240)]
COMMENTS = [None, "MgSiO3 pv 2x2x2 5 atoms"]

# stated writer formats -> decimals
DEC = {"P": 6, "V": 6, "E": 6, "qcoord": 4, "freq": 6, "wcoord": 6, "w": 6}


def _fam_value(family, k):
    """Distinct value of slot number k (k = 0, 1, 2, ... in file order)."""
    m = (k + 1) // 2
    sign = 1.0 if k % 2 else -1.0
    if family == "tiny":      # 0, +-1e-6, +-2e-6, ... ; every third slot carries 3e-7 below print precision
        return sign * m * 1e-6 + (3e-7 if k % 3 == 0 else 0.0)
    if family == "unit":      # +-1.5, then outwards in steps that use all six decimals
        return sign * (1.5 + m * 0.001003)
    if family == "large":     # +-99999.123456 inwards
        return sign * (99999.123456 - m * 1.000101)
    raise HarnessError(f"unknown family {family}")


def phonon_values(shape, family):
    """The data set as plain lists: {"volumes": [{"P","V","E","q":[{"coord","modes"}]}], "weights":[...]}"""
    nv, nq, np_ = shape
    vols, weights = [], []
    if family == "physical":
        # what a real file looks like: V descending, E < 0, P from negative upwards, Gamma first with
        # three slightly negative acoustic frequencies, positive weights
        for iv in range(nv):
            qs = []
            for iq in range(nq):
                coord = [0.0, 0.0, 0.0] if iq == 0 else \
                    [round(0.0371 * iq + 0.0001 * iv, 4), round(-0.0123 * iq - 0.0002 * iv, 4), round(0.5 - 0.0411 * iq, 4)]
                modes = []
                for im in range(np_):
                    if iq == 0 and im < 3:
                        modes.append(round(-0.1494 - 0.0113 * im - 0.0007 * iv, 6))
                    else:
                        modes.append(round(50.123456 + 13.700001 * im + 1.100003 * iq + 0.010007 * iv, 6))
                qs.append({"coord": coord, "modes": modes})
            vols.append({"P": round(-10.0 + 12.345678 * iv, 6), "V": round(700.123456 - 17.000111 * iv, 6),
                         "E": round(-215.469996 - 0.123457 * iv, 6), "q": qs})
        tot = nq * (nq + 1) / 2.0
        for iq in range(nq):
            c = [0.0, 0.0, 0.0] if iq == 0 else [round(0.037101 * iq, 6), round(-0.012303 * iq, 6), round(0.5 - 0.041107 * iq, 6)]
            weights.append({"coord": c, "w": round((iq + 1) / tot, 6)})
        return {"volumes": vols, "weights": weights}
    k = 0

    def nxt():
        nonlocal k
        v = _fam_value(family, k)
        k += 1
        return v

    for iv in range(nv):
        P, Vv, E = nxt(), nxt(), nxt()
        qs = []
        for iq in range(nq):
            coord = [nxt(), nxt(), nxt()]
            modes = [nxt() for _ in range(np_)]
            qs.append({"coord": coord, "modes": modes})
        vols.append({"P": P, "V": Vv, "E": E, "q": qs})
    for iq in range(nq):
        c = [nxt(), nxt(), nxt()]
        weights.append({"coord": c, "w": nxt()})
    return {"volumes": vols, "weights": weights}


def _tol(x, dec):
    return 0.5 * 10.0 ** (-dec) + 4 * EPS * abs(x)


def _phonon_case(case):
    from cij.io.traditional.qha_input import read_energy, write_energy
    from cij.io.traditional.models import QHAInputData, VolumeData, QPointData, QPointWeight
    shape = tuple(case["shape"])
    nv, nq, np_ = shape
    nm, na = case["nmna"]
    fam = case["family"]
    comment = COMMENTS[case["comment"]]
    ref = phonon_values(shape, fam)
    data = QHAInputData(nv, nq, np_, nm, na,
                        [QPointWeight(tuple(w["coord"]), w["w"]) for w in ref["weights"]],
                        [VolumeData(v["P"], v["V"], v["E"], [QPointData(tuple(q["coord"]), list(q["modes"])) for q in v["q"]])
                         for v in ref["volumes"]])
    viol = []
    d = tempfile.mkdtemp(dir="/dev/shm", prefix="c17p-")
    try:
        path = os.path.join(d, "input01")
        try:
            if comment is None:
                write_energy(path, data)
            else:
                write_energy(path, data, comment=comment)
        except Exception as e:
            return {"viol": [V(f"c17:phonon:write-raises:{type(e).__name__}", f"write_energy raised {e!r} for {case}")],
                    "outcome": "write-raises"}
        try:
            rd = read_energy(path)
        except Exception as e:
            return {"viol": [V(f"c17:phonon:read-raises:{type(e).__name__}",
                               f"read_energy raised {e!r} on the file write_energy produced for {case}")],
                    "outcome": "read-raises"}
        with open(path, encoding="utf8") as fp:
            text = fp.read()
    finally:
        shutil.rmtree(d, ignore_errors=True)

    # ---- cij's parse as plain data
    try:
        got = {"nv": rd.nv, "nq": rd.nq, "np": rd.np, "nm": rd.nm, "na": rd.na,
               "volumes": [{"P": v.pressure, "V": v.volume, "E": v.energy,
                            "q": [{"coord": list(q.coord), "modes": list(q.modes)} for q in v.q_points]}
                           for v in rd.volumes],
               "weights": [{"coord": list(w.coord), "w": w.weight} for w in rd.weights]}
    except Exception as e:
        return {"viol": [V("c17:phonon:structure:result-shape", f"read_energy result is not the documented structure: {e!r}")],
                "outcome": "bad-structure"}

    # ---- counts
    for name, exp in (("nv", nv), ("nq", nq), ("np", np_), ("nm", nm), ("na", na)):
        if got[name] != exp or isinstance(got[name], bool) or not isinstance(got[name], int):
            viol.append(V(f"c17:phonon:counts:{name}", f"{name} read back as {got[name]!r}, written {exp}"))
    # ---- structure
    ok = True
    if len(got["volumes"]) != nv:
        viol.append(V("c17:phonon:structure:volumes", f"{len(got['volumes'])} volume blocks read, {nv} written"))
        ok = False
    if len(got["weights"]) != nq:
        viol.append(V("c17:phonon:structure:weights", f"{len(got['weights'])} weights read, {nq} written"))
        ok = False
    for iv, v in enumerate(got["volumes"]):
        if len(v["q"]) != nq:
            viol.append(V("c17:phonon:structure:q-points", f"volume {iv}: {len(v['q'])} q-points read, {nq} written"))
            ok = False
            break
        for iq, q in enumerate(v["q"]):
            if len(q["coord"]) != 3 or len(q["modes"]) != np_:
                viol.append(V("c17:phonon:structure:modes", f"volume {iv} q {iq}: {len(q['coord'])} coordinates, "
                                                            f"{len(q['modes'])} modes read; 3 and {np_} written"))
                ok = False
                break
        if not ok:
            break
    if ok and any(len(w["coord"]) != 3 for w in got["weights"]):
        viol.append(V("c17:phonon:structure:weight-coords", "a weight line was read with other than 3 coordinates"))
        ok = False

    # ---- values to the written precision
    lossy = 0
    if ok:
        bad = {}

        def cmp(field, where, obs, exp):
            nonlocal lossy
            if not (abs(obs - exp) <= _tol(exp, DEC[field])):
                bad.setdefault(field, []).append((where, obs, exp))
            elif obs != exp:
                lossy += 1

        for iv, (g, r) in enumerate(zip(got["volumes"], ref["volumes"])):
            for f in ("P", "V", "E"):
                cmp(f, f"volume {iv}", g[f], r[f])
            for iq, (gq, rq) in enumerate(zip(g["q"], r["q"])):
                for ic in range(3):
                    cmp("qcoord", f"volume {iv} q {iq} coord {ic}", gq["coord"][ic], rq["coord"][ic])
                for im in range(np_):
                    cmp("freq", f"volume {iv} q {iq} mode {im}", gq["modes"][im], rq["modes"][im])
        for iq, (gw, rw) in enumerate(zip(got["weights"], ref["weights"])):
            for ic in range(3):
                cmp("wcoord", f"weight {iq} coord {ic}", gw["coord"][ic], rw["coord"][ic])
            cmp("w", f"weight {iq}", gw["w"], rw["w"])
        names = {"P": "pressure", "V": "volume", "E": "energy", "qcoord": "q-coordinate", "freq": "frequency",
                 "wcoord": "weight-coordinate", "w": "weight"}
        for f, items in bad.items():
            where, obs, exp = items[0]
            viol.append(V(f"c17:phonon:value:{names[f]}",
                          f"{len(items)} {names[f]} slot(s) differ by more than half a unit of the {DEC[f]}th decimal; "
                          f"first: {where}: read {obs!r}, written {exp!r}"))

    # ---- independent parse of the same bytes
    try:
        rp = R.parse_phonon(text)
    except R.FormatError as e:
        viol.append(V("c17:phonon:ref-cannot-parse", f"the written file is not in the phonon data layout: {e}"))
        rp = None
    if rp is not None:
        if rp.get("labels_line") and [t.lower() for t in rp["labels_line"]] != ["nv", "nq", "np", "nm", "na"] \
                and len(rp["labels_line"]) == 5:
            viol.append(V("c17:phonon:header-labels", f"count labels written as {rp['labels_line']}"))
        for name in ("nv", "nq", "np", "nm", "na"):
            if rp[name] != got[name]:
                viol.append(V(f"c17:phonon:ref-parse-differs:{name}", f"{name}: cij {got[name]} reference {rp[name]}"))
        if ok and rp["volumes"] != got["volumes"]:
            what = "?"
            for iv, (a, b) in enumerate(zip(rp["volumes"], got["volumes"])):
                if a != b:
                    if (a["P"], a["V"], a["E"]) != (b["P"], b["V"], b["E"]):
                        what = f"P/V/E of volume {iv}: reference {(a['P'], a['V'], a['E'])} cij {(b['P'], b['V'], b['E'])}"
                    else:
                        what = f"q-point data of volume {iv}"
                    break
            viol.append(V("c17:phonon:ref-parse-differs:volumes", f"independent parse of the same bytes differs: {what}"))
        if ok and rp["weights"] != got["weights"]:
            viol.append(V("c17:phonon:ref-parse-differs:weights", "independent parse of the weight block differs"))
        # the reference parse itself must reproduce what was written (guards the reference and the writer)
        if ok and not viol:
            for iv, (a, r) in enumerate(zip(rp["volumes"], ref["volumes"])):
                for f in ("P", "V", "E"):
                    if not abs(a[f] - r[f]) <= _tol(r[f], DEC[f]):
                        viol.append(V(f"c17:phonon:written-label:{f}", f"value labelled {f}= of volume {iv} is {a[f]}, data has {r[f]}"))
    return {"viol": viol, "nontrivial": True,
            "outcome": f"phonon/{fam}/" + ("exact" if lossy == 0 else "rounded") if not viol else "violation",
            "key": f"ph{shape}{fam}{nm},{na},{case['comment']}"}


# =========================================================================== static tables

SUBSETS = {
    "cubic3": [(1, 1), (1, 2), (4, 4)],
    "ortho9": [(1, 1), (1, 2), (1, 3), (2, 2), (2, 3), (3, 3), (4, 4), (5, 5), (6, 6)],
    "mono13": [(1, 1), (1, 2), (1, 3), (1, 5), (2, 2), (2, 3), (2, 5), (3, 3), (3, 5), (4, 4), (4, 6), (5, 5), (6, 6)],
    "full21": list(R.VOIGT_PAIRS),
}
ORDERS = ["voigt", "reversed", "shipped"]
NAMINGS = ["c11", "C11", "c_11", "C1111", "c1111swap", "c21",
           # "whatever the prefix": prefixes of more than one character, with and without separators
           "cij11", "Cij_11", "elast11", "C^st_11", "Cijkl1111"]
PREFIXES = {"cij11": "cij", "Cij_11": "Cij_", "elast11": "elast", "C^st_11": "C^st_"}
STATIC_NV = [1, 2, 9]
STATIC_LAYOUTS = ["plain", "padded", "crlf-tabs"]


def order_pairs(pairs, order):
    pairs = sorted(pairs)
    if order == "voigt":
        return pairs
    if order == "reversed":
        return pairs[::-1]
    if order == "shipped":   # examples/*: c11 c22 c33 c12 c13 c23 c44 c55 c66, then the rest
        head = [(1, 1), (2, 2), (3, 3), (1, 2), (1, 3), (2, 3), (4, 4), (5, 5), (6, 6)]
        return [p for p in head if p in pairs] + [p for p in pairs if p not in head]
    raise HarnessError(order)


def col_name(pair, naming):
    if naming == "c11":
        return R.name_2digit(pair, "c")
    if naming == "C11":
        return R.name_2digit(pair, "C")
    if naming == "c_11":
        return R.name_2digit(pair, "c_")
    if naming == "C1111":
        return R.name_4digit(pair, "C", 0)
    if naming == "c1111swap":
        return R.name_4digit(pair, "c", 1)
    if naming == "c21":
        return f"c{pair[1]}{pair[0]}"
    if naming in PREFIXES:
        return R.name_2digit(pair, PREFIXES[naming])
    if naming == "Cijkl1111":
        return R.name_4digit(pair, "Cijkl", 0)
    raise HarnessError(naming)


_FMTS = ["%.3f", "%.2f", "%.1f", "%d", "%.8f", "%.5f"]


ENDINGS = ["eol", "no-final-eol", "1-empty-line", "3-empty-lines", "whitespace-line", "whitespace-no-eol", "empty+whitespace"]


def _apply_ending(text, ending, eol):
    """`text` ends with one line terminator after its last row.  What follows the last row is only ever
    blank: nothing is tabulated there."""
    if ending == "eol":
        return text
    if ending == "no-final-eol":
        return text[:-len(eol)]
    tail = {"1-empty-line": eol, "3-empty-lines": eol * 3, "whitespace-line": "  \t " + eol, "whitespace-no-eol": "   ",
            "empty+whitespace": eol + " \t" + eol + eol}[ending]
    return text + tail


def static_table(subset, order, naming, lattice, nv, layout, lathdr=0, ending="eol"):
    """(text, expected) of a static table in which every slot holds a distinct number."""
    pairs = order_pairs(SUBSETS[subset], order)
    names = [("v" if layout == "crlf-tabs" else "V")] + [col_name(p, naming) for p in pairs]
    rows, k = [], 0
    for iv in range(nv):
        vol = "%.8f" % (617.47767 - 31.45771 * iv)
        row = [vol]
        for ic, p in enumerate(pairs):
            x = 40.0 + 23.17 * ic + 7.31291 * iv + 0.0101 * ic * iv
            if p in ((1, 4), (2, 5), (3, 6), (4, 6)) or (ic + iv) % 7 == 3:
                x = -x
            row.append(_FMTS[k % len(_FMTS)] % x)
            k += 1
        rows.append(row)
    lat = None
    if lattice:
        lat = [["%.15f" % (1.014113439015351 - 0.0161 * iv), "%.9f" % (8.878861667 - 0.0152 * iv),
                "%.4f" % (2.9101 - 0.0503 * iv)] for iv in range(nv)]
    vref, cellmass = "586.01996000", "200.782"
    title = "V_0 N cellmass akimotoite (24.305+16.0*3+28.086)*2"
    text = R.write_static(title, vref, nv, cellmass, names, rows, lat, layout, lattice_header=R.LATTICE_HEADERS[lathdr])
    text = _apply_ending(text, ending, R.LAYOUTS[layout]["eol"])
    flat = [float(t) for r in rows for t in r] + ([float(t) for r in lat for t in r] if lat else [])
    if len(set(flat)) != len(flat):
        raise HarnessError("static table generator produced a repeated value")
    exp = {"vref": float(vref), "nv": nv, "cellmass": float(cellmass),
           "volumes": [float(r[0]) for r in rows],
           "rows": [dict(zip(pairs, (float(t) for t in r[1:]))) for r in rows],
           "lattice": [tuple(float(t) for t in r) for r in lat] if lat else []}
    return text, exp


def _elast_plain(ed):
    """cij ElastData -> plain data; component keys as (.voigt tuple); also checks the key type."""
    from cij.util import c_
    notes = []
    rows = []
    for v in ed.volumes:
        row = {}
        for k, val in v.static_elastic_modulus.items():
            try:
                pair = tuple(k.voigt)
            except Exception:
                notes.append(f"key {k!r} is not a canonical component key")
                continue
            if pair in row:
                notes.append(f"component {pair} appears twice in a row")
            if not (k == c_(*pair) and hash(k) == hash(c_(*pair)) and c_(*pair) in v.static_elastic_modulus):
                notes.append(f"key {k!r} is not equal/hash-equal to c_{pair}")
            row[pair] = val
        rows.append(row)
    return {"vref": ed.vref, "nv": ed.nv, "cellmass": ed.cellmass, "volumes": [v.volume for v in ed.volumes],
            "rows": rows, "lattice": [tuple(x) for x in ed.lattice_parmeters]}, notes


def _cmp_static(got, exp, prefix, viol, what):
    """Exact comparison of two plain static-table parses."""
    for f in ("vref", "nv", "cellmass"):
        if got[f] != exp[f] or type(got[f]) is not type(exp[f]):
            viol.append(V(f"{prefix}:{f}", f"{what}: {f} read as {got[f]!r}, tabulated {exp[f]!r}"))
    if got["volumes"] != exp["volumes"]:
        viol.append(V(f"{prefix}:volumes", f"{what}: volumes read {got['volumes']}, tabulated {exp['volumes']}"))
    if len(got["rows"]) != len(exp["rows"]):
        viol.append(V(f"{prefix}:row-count", f"{what}: {len(got['rows'])} rows read, {len(exp['rows'])} tabulated"))
    else:
        for iv, (g, e) in enumerate(zip(got["rows"], exp["rows"])):
            if set(g) != set(e):
                viol.append(V(f"{prefix}:keys", f"{what}: row {iv}: components read {sorted(g)}, tabulated {sorted(e)}"))
                break
            diff = [(p, g[p], e[p]) for p in e if g[p] != e[p]]
            if diff:
                viol.append(V(f"{prefix}:values", f"{what}: row {iv}: {len(diff)} component(s) differ, first c{diff[0][0]}: "
                                                  f"read {diff[0][1]!r}, tabulated {diff[0][2]!r}"))
                break
    if got["lattice"] != exp["lattice"]:
        viol.append(V(f"{prefix}:lattice", f"{what}: lattice parameters read {got['lattice'][:3]}..., "
                                           f"tabulated {exp['lattice'][:3]}... ({len(got['lattice'])} vs {len(exp['lattice'])} rows)"))


def _static_case(case):
    from cij.io.traditional.elast_dat import read_elast_data
    text, exp = static_table(case["subset"], case["order"], case["naming"], case["lattice"], case["nv"], case["layout"],
                             case.get("lathdr", 0), case.get("ending", "eol"))
    viol = []
    d = tempfile.mkdtemp(dir="/dev/shm", prefix="c17s-")
    try:
        path = os.path.join(d, "elast.dat")
        with open(path, "w", encoding="utf8", newline="") as fp:
            fp.write(text)
        try:
            ed = read_elast_data(path)
        except Exception as e:
            return {"viol": [V(f"c17:static:read-raises:{type(e).__name__}:{case['naming']}",
                               f"read_elast_data raised {e!r} on a table with {case}")], "outcome": "read-raises"}
    finally:
        shutil.rmtree(d, ignore_errors=True)
    got, notes = _elast_plain(ed)
    for n in notes[:2]:
        viol.append(V("c17:static:key-type", n))
    _cmp_static(got, exp, "c17:static", viol, "read_elast_data")
    # the reference reads its own table back to the same numbers (guards writer + parser)
    rp = R.parse_static(text)
    mine = {"vref": rp["vref"], "nv": rp["nv"], "cellmass": rp["cellmass"], "volumes": rp["volumes"],
            "rows": rp["rows"], "lattice": rp["lattice"]}
    if mine != exp:
        raise HarnessError("io_ref does not read back its own static table")
    return {"viol": viol, "outcome": f"static/{case['subset']}/{case['naming']}/lat{int(case['lattice'])}/hdr{case.get('lathdr', 0)}/{case.get('ending', 'eol')}" if not viol else "violation",
            "key": "st" + "/".join(str(case.get(k, 0)) for k in ("subset", "order", "naming", "lattice", "nv", "layout", "lathdr", "ending"))}


# =========================================================================== fill command

SYSTEM_NAMES = ["triclinic", "monoclinic", "orthorhombic", "tetragonal7", "tetragonal6", "trigonal7", "trigonal6",
                "hexagonal", "cubic"]
NUMSTYLES = ["float", "int", "intV", "longdec"]
GIVEN = ["independent", "all-nonzero"]
VALUEKINDS = ["consistent", "within-tolerance"]
TINY = [None, "0.00003", "0.0000005"]        # magnitude of the weak component (index 0: none)
TINY_PAIR = {"triclinic": (4, 6), "monoclinic": (4, 6), "orthorhombic": (6, 6), "tetragonal7": (1, 6), "tetragonal6": (6, 6),
             "trigonal7": (1, 5), "trigonal6": (1, 4), "hexagonal": (4, 4), "cubic": (4, 4)}   # an independent component each
OVERDET_GIVEN = ["one-dependent", "all-nonzero"]      # "independent" leaves nothing that could disagree
OVERDET_NUMSTYLES = ["float", "longdec"]              # integer-looking columns cannot carry a 0.04 disagreement

# "longdec" inputs carry 9 decimals; the command prints 6.  DESIGN §5 allows half a unit in the last
# printed digit for printed tables, so this is compared at the printed precision and *counted* (evidence
# notes), not reported.  Set to True to demand the input's digits instead.
STRICT_LONG_DECIMALS = False


_COEF = {1.0: Decimal(1), -1.0: Decimal(-1), 0.5: Decimal("0.5"), -0.5: Decimal("-0.5")}


def _dec_text(x: Decimal) -> str:
    s = format(x, "f")
    return s


def fill_table(system, numstyle, given, case_letter, order, nv, lattice, layout, vref="586.01996000",
               cellmass="200.782", variant=0, valuekind="consistent", lathdr=0, tiny=0):
    """(text, info): a table that is sufficient for `system` and consistent with it.
    `variant` k shifts every number (components, volumes, lattice parameters) so that two tables differ in every slot.
    info: volumes (Decimal), full: per volume {pair: Decimal} of all 21 components as they must come
    out, given pairs, raw lattice rows."""
    S = R.SYSTEMS[system]
    indep = sorted(S["independent"])
    dec_cycle = [5, 3, 2, 1]
    indep_vals = []   # per volume {pair: Decimal}
    for iv in range(nv):
        row = {}
        for p in indep:
            ip = R.VOIGT_PAIRS.index(p)
            x = Decimal("40.0") + Decimal("23.17") * (20 - ip) + Decimal("2.31291") * iv + Decimal("0.137") * ((ip * 7) % 5) + \
                Decimal("0.71") * variant
            if p in ((1, 4), (2, 5), (3, 6), (4, 6), (1, 6)):
                x = -x
            if tiny and p == TINY_PAIR[system]:
                # a weak component: non-zero at every volume, far above the drop tolerance of the command (1e-8),
                # far below everything else in the table
                t = Decimal(TINY[tiny])
                x = (t + t / 50 * iv) * (-1 if x < 0 else 1)
            elif numstyle == "int":
                x = x.quantize(Decimal("1"))
            elif numstyle == "longdec":
                x = (x + Decimal("0.000000123") * (ip + 1)).quantize(Decimal("1e-9"))
            else:
                x = x.quantize(Decimal(1).scaleb(-dec_cycle[ip % 4]))
                if x == x.to_integral_value():
                    x += Decimal("0.1")
            row[p] = x
        indep_vals.append(row)
    full = []
    for row in indep_vals:
        f = {p: Decimal(0) for p in R.VOIGT_PAIRS}
        f.update(row)
        for p, form in S["dependent"].items():
            f[p] = sum((_COEF[c] * row[q] for c, q in form), Decimal(0))
            if f[p] == f[p].to_integral_value():        # "503", not "503.0": keep integer-looking columns integer-looking
                f[p] = f[p].quantize(Decimal(1))
        full.append(f)
    deps = sorted(S["dependent"])
    if given == "independent":
        cols = indep
    elif given == "one-dependent":       # the independent ones + the last dependent one (c66 / c55 ...)
        cols = indep + deps[-1:]
    elif given == "independent+zero":    # ... + a component that vanishes by symmetry, tabulated as zeros
        cols = indep + [zero_pair(system)]
    else:
        cols = R.nonzero_pairs(system)
    cols = order_pairs(cols, order)
    tab = [{p: full[iv][p] for p in cols} for iv in range(nv)]      # what is written on the page
    if given == "independent+zero":
        for iv in range(nv):
            tab[iv][zero_pair(system)] = Decimal(["0.000", "0.0", "-0.00"][iv % 3])
    residual = 0.0
    if valuekind == "within-tolerance":
        # every tabulated dependent component disagrees with its relation by a few 0.01 (distinct per slot); the
        # disagreement stays below half the residual tolerance of the fill (sum of squares <= 0.05 < 0.1 per row)
        if not [p for p in cols if p in deps]:
            raise HarnessError("within-tolerance needs a tabulated dependent component")
        for iv in range(nv):
            for k, p in enumerate(deps):
                if p in tab[iv]:
                    delta = Decimal("0.04") + Decimal("0.004") * k + Decimal("0.001") * iv
                    tab[iv][p] = full[iv][p] + (delta if k % 2 == 0 else -delta)
            lsq, res = R.fill_lsq(system, {p: float(x) for p, x in tab[iv].items()})
            residual = max(residual, res)
            full[iv] = {p: Decimal(str(round(lsq[p], 9))) for p in R.VOIGT_PAIRS}
        if not residual <= 0.05:
            raise HarnessError(f"within-tolerance table has residual {residual} > half the tolerance")
    elif valuekind != "consistent":
        raise HarnessError(valuekind)
    vols = []
    for iv in range(nv):
        v = Decimal("617.47767") - Decimal("31.45771") * iv + Decimal("11.10301") * variant
        if numstyle in ("int", "intV"):
            v = v.quantize(Decimal("1"))
        elif numstyle == "longdec":
            v = (v + Decimal("0.000000321")).quantize(Decimal("1e-9"))
        vols.append(v)

    def vtext(v):
        if numstyle in ("int", "intV"):
            return _dec_text(v)
        if numstyle == "longdec":
            return _dec_text(v)
        return _dec_text(v) + "000"       # shipped style: 617.47767000

    rows = [[vtext(vols[iv])] + [_dec_text(tab[iv][p]) for p in cols] for iv in range(nv)]
    lat = None
    if lattice:
        lat = [["%.15f" % (1.014113439015351 - 0.0161 * iv + 0.0007 * variant), "%.15f" % (0.878861666717805 - 0.0152 * iv + 0.0007 * variant),
                "%.15f" % (2.910090805459099 - 0.0503 * iv + 0.0007 * variant)] for iv in range(nv)]
    if case_letter == "mixed":       # capitals and small letters in one label row; a tabulated vanishing column gets a capital
        names = ["V"] + [R.name_2digit(p, "C" if (i % 2 == 0 or p not in R.nonzero_pairs(system)) else "c") for i, p in enumerate(cols)]
    else:
        names = ["V"] + [R.name_2digit(p, case_letter) for p in cols]
    title = f"V_0 N cellmass {system} (24.305+16.0*3+28.086)*2"
    text = R.write_static(title, vref, nv, cellmass, names, rows, lat, layout, lattice_header=R.LATTICE_HEADERS[lathdr])
    vals = [tab[iv][p] for iv in range(nv) for p in indep]
    if len(set(vals)) != len(vals) or any(v == 0 for v in vals):
        raise HarnessError(f"fill table generator: repeated or zero independent value for {system}")
    for iv in range(nv):
        for p in R.nonzero_pairs(system):
            if full[iv][p] == 0:
                raise HarnessError(f"fill table generator: dependent component {p} vanishes for {system}")
    return text, {"volumes": vols, "full": full, "given": cols, "indep": indep, "tabulated": tab, "residual": residual}


def zero_pair(system):
    """The first component (Voigt order) that vanishes by the symmetry of `system`."""
    nz = set(R.nonzero_pairs(system))
    return next(p for p in R.VOIGT_PAIRS if p not in nz)


def _fits(x: Decimal, places=6) -> bool:
    return x == x.quantize(Decimal(1).scaleb(-places))


def _fill_tol(expected: Decimal, token: str, strict: bool) -> float:
    """Tolerance for one printed cell of the command's output against the exact decimal it must carry.
    strict (the expected number has <= 6 decimals; the shipped tables have <= 5): the printed table has to
    carry the number itself; 1e-9 relative (+1e-9 absolute for numbers that must be 0) is the double-precision
    slack of the least-squares fill (DESIGN §5, unit-free identities).
    otherwise: half a unit in the last printed digit (DESIGN §5, printed tables)."""
    slack = 1e-9 * max(1.0, abs(float(expected)))
    if strict:
        return slack
    return R.printed_half_unit(token) + slack


def _invoke_fill(system, path, cwd):
    """Run `cij fill -s SYSTEM FILE` in-process in `cwd`; returns (exit_code, exception, stdout)."""
    from click.testing import CliRunner
    from cij.cli.cij import main
    old = os.getcwd()
    os.chdir(cwd)
    try:
        try:
            runner = CliRunner(mix_stderr=False)
        except TypeError:       # click >= 8.2: stderr is always separate
            runner = CliRunner()
        res = runner.invoke(main, ["fill", "-s", system, os.path.basename(path)])
    finally:
        os.chdir(old)
    out = res.stdout if hasattr(res, "stdout") else res.output
    return res.exit_code, res.exception, out


def _check_fill_output(out_text, in_parse, expected_full, expected_vols, system, tag, viol, tmpdir, fname,
                       strict_cells):
    """Everything the statement says about one output of the command.  Returns cij's parse (plain) or None."""
    from cij.io.traditional.elast_dat import read_elast_data
    # valid static table, by the reference's strict parser
    try:
        op = R.parse_static(out_text)
    except R.FormatError as e:
        viol.append(V(f"c17:{tag}:invalid-table:layout", f"stdout of `cij fill -s {system}` is not a static table: {e}"))
        return None, None
    # valid static table for cij's own reader
    path = os.path.join(tmpdir, fname)
    with open(path, "w", encoding="utf8", newline="") as fp:
        fp.write(out_text)
    try:
        ed = read_elast_data(path)
    except Exception as e:
        viol.append(V(f"c17:{tag}:invalid-table:read-raises:{type(e).__name__}",
                      f"read_elast_data raised {e!r} on the stdout of `cij fill -s {system}`"))
        return None, op
    got, notes = _elast_plain(ed)
    for n in notes[:2]:
        viol.append(V(f"c17:{tag}:key-type", n))
    ref_view = {"vref": op["vref"], "nv": op["nv"], "cellmass": op["cellmass"], "volumes": op["volumes"],
                "rows": op["rows"], "lattice": op["lattice"]}
    _cmp_static(got, ref_view, f"c17:{tag}:reader-vs-reference", viol, "read_elast_data(stdout) against io_ref parse of stdout")
    # header lines verbatim
    if op["header_lines"] != in_parse["header_lines"]:
        viol.append(V(f"c17:{tag}:header-lines", f"first two lines of stdout {op['header_lines']} != input {in_parse['header_lines']}"))
    # lattice block verbatim (line terminators aside)
    strip_blank_tail = lambda ls: ls[:max((i + 1 for i, l in enumerate(ls) if l.strip() != ""), default=0)]  # noqa: E731
    if strip_blank_tail(op["rest_lines"]) != strip_blank_tail(in_parse["rest_lines"]):
        viol.append(V(f"c17:{tag}:lattice-block", f"lines after the table: stdout has {strip_blank_tail(op['rest_lines'])[:3]}..., "
                                                   f"input has {strip_blank_tail(in_parse['rest_lines'])[:3]}..."))
    # volumes
    nv = in_parse["nv"]
    if op["nv"] != nv or len(op["volumes"]) != nv:
        viol.append(V(f"c17:{tag}:row-count", f"{len(op['volumes'])} rows in stdout, {nv} in the input"))
        return got, op
    lost = 0
    badv = []
    for iv in range(nv):
        e = expected_vols[iv]
        strict = strict_cells or _fits(e)
        if not strict:
            lost += 1
        if not abs(op["volumes"][iv] - float(e)) <= _fill_tol(e, op["row_tokens"][iv][0], strict):
            badv.append((iv, op["row_tokens"][iv][0], str(e)))
    if badv:
        viol.append(V(f"c17:{tag}:volumes", f"{len(badv)} volume(s) not preserved, first row {badv[0][0]}: printed {badv[0][1]}, input {badv[0][2]}"))
    # components: every non-vanishing one present; absent ones must vanish; values
    keys = op["keys"]
    must = set(R.nonzero_pairs(system))
    missing = sorted(must - set(keys))
    if missing:
        viol.append(V(f"c17:{tag}:keys:missing", f"components that do not vanish for {system} are not in stdout: {missing}; columns {op['names']}"))
    badc = []
    for iv in range(nv):
        for ic, p in enumerate(keys):
            e = expected_full[iv][p]
            strict = strict_cells or _fits(e)
            if not strict:
                lost += 1
            tok = op["row_tokens"][iv][1 + ic]
            if not abs(op["rows"][iv][p] - float(e)) <= _fill_tol(e, tok, strict):
                badc.append((iv, p, tok, str(e)))
    if badc:
        iv, p, tok, e = badc[0]
        kind = "extra-nonzero" if p not in must else "values"
        viol.append(V(f"c17:{tag}:{kind}", f"{len(badc)} cell(s) of stdout differ from the symmetry-filled input, first row {iv} "
                                           f"c{p[0]}{p[1]}: printed {tok}, must be {e}"))
    op["_lost"] = lost
    return got, op


def _fill_case(case):
    from cij.io.traditional.elast_dat import read_elast_data, apply_symetry_on_elast_data
    system = case["system"]
    numstyle = case["numstyle"]
    vkind = case.get("valuekind", "consistent")
    text, info = fill_table(system, numstyle, case["given"], case["letter"], case["order"], case["nv"],
                            case["lattice"], case["layout"], valuekind=vkind, lathdr=case.get("lathdr", 0), tiny=case.get("tiny", 0))
    in_parse = R.parse_static(text)
    viol = []
    d = tempfile.mkdtemp(dir="/dev/shm", prefix="c17f-")
    outcome = "?"
    try:
        path = os.path.join(d, "input02")
        with open(path, "w", encoding="utf8", newline="") as fp:
            fp.write(text)
        code, exc, out1 = _invoke_fill(system, path, d)
        if code != 0 or exc is not None:
            ename = type(exc).__name__ if exc is not None else f"exit{code}"
            viol.append(V(f"c17:fill:raises:{ename}:{numstyle}-columns",
                          f"`cij fill -s {system}` on a sufficient, {vkind} table ({numstyle} numbers, {case['given']} components "
                          f"given, nv={case['nv']}) ended with exit code {code}, {exc!r}; stdout so far {out1[:120]!r}; "
                          f"input file: {text[:400]!r}"))
            return {"viol": viol, "outcome": f"fill-raises/{ename}", "key": _fill_key(case)}
        strict_all = STRICT_LONG_DECIMALS
        got1, op1 = _check_fill_output(out1, in_parse, info["full"], info["volumes"], system, "fill", viol, d, "out1", strict_all)
        lost = (op1 or {}).get("_lost", 0)

        # a relation whose dependent component was NOT tabulated is met by the emitted numbers themselves, to the
        # printed precision -- whatever compromise the fit makes between tabulated numbers (a table that mixes
        # raw and fitted numbers does not)
        if op1 is not None and len(op1["rows"]) == in_parse["nv"]:
            badr = []
            for p, form in R.SYSTEMS[system]["dependent"].items():
                if p in info["given"] or p not in op1["keys"] or any(q not in op1["keys"] for _, q in form):
                    continue
                for iv in range(in_parse["nv"]):
                    tok = lambda q: op1["row_tokens"][iv][1 + op1["keys"].index(q)]  # noqa: E731
                    lhs = op1["rows"][iv][p]
                    rhs = sum(c * op1["rows"][iv][q] for c, q in form)
                    tol = R.printed_half_unit(tok(p)) + sum(abs(c) * R.printed_half_unit(tok(q)) for c, q in form) + 1e-9 * max(1.0, abs(rhs))
                    if not abs(lhs - rhs) <= tol:
                        badr.append((iv, p, lhs, rhs))
            if badr:
                iv, p, lhs, rhs = badr[0]
                viol.append(V("c17:fill:relation-of-untabulated-component",
                              f"`cij fill -s {system}`: {len(badr)} emitted relation(s) broken, first row {iv}: c{p[0]}{p[1]} printed {lhs!r} "
                              f"but its relation gives {rhs!r} from the printed partners; input {text[:300]!r}"))

        # differential: the library's own symmetry-filled parse of the input
        if got1 is not None and op1 is not None:
            try:
                ed = read_elast_data(path)
                apply_symetry_on_elast_data(ed, {"system": system})
                dif, _ = _elast_plain(ed)
            except Exception as e:
                viol.append(V(f"c17:fill:differential-raises:{type(e).__name__}",
                              f"apply_symetry_on_elast_data(read_elast_data(input)) raised {e!r} for {system}"))
                dif = None
            if dif is not None:
                bad = []
                for iv in range(min(len(dif["rows"]), len(got1["rows"]))):
                    a, b = got1["rows"][iv], dif["rows"][iv]
                    for p in sorted(set(a) | set(b)):
                        x, y = a.get(p, 0.0), b.get(p, 0.0)
                        tok = op1["row_tokens"][iv][1 + op1["keys"].index(p)] if p in op1["keys"] else "0"
                        e = info["full"][iv][p]
                        strict = strict_all or _fits(e)
                        if not abs(x - y) <= _fill_tol(Decimal(repr(y)), tok, strict):
                            bad.append((iv, p, x, y))
                # the two parses have the same components (a column in one and not in the other is a different parse,
                # whatever number it holds)
                ka, kb = sorted({p for r in got1["rows"] for p in r}), sorted({p for r in dif["rows"] for p in r})
                if ka != kb:
                    viol.append(V("c17:fill:differential:keys",
                                  f"`cij fill -s {system}`: components of parse(stdout) {['c%d%d' % p for p in ka]} != components of "
                                  f"apply_symetry_on_elast_data(parse(input)) {['c%d%d' % p for p in kb]}; label row of the input "
                                  f"{in_parse['names']}"))
                if len(dif["rows"]) != len(got1["rows"]) or bad:
                    viol.append(V("c17:fill:differential:values",
                                  f"parse(stdout) != apply_symetry_on_elast_data(parse(input)): {len(bad)} cell(s), first {bad[:1]}"))
                if dif["volumes"] != in_parse["volumes"] or dif["lattice"] != in_parse["lattice"]:
                    viol.append(V("c17:fill:differential:frame", "the library fill changed volumes or lattice parameters of the parse"))

        # mode B: histories of length 2 -- a second fill on the first output
        chain_done = []
        if op1 is not None and not viol:
            present = set(op1["keys"])
            for s2 in case["chain"]:
                path1 = os.path.join(d, "out1")
                code, exc, out2 = _invoke_fill(s2, path1, d)
                if code != 0 or exc is not None:
                    ename = type(exc).__name__ if exc is not None else f"exit{code}"
                    viol.append(V(f"c17:fill-chain:raises:{ename}:{'same' if s2 == system else 'subgroup'}",
                                  f"`cij fill -s {s2}` on the output of `cij fill -s {system}` ended with {code}, {exc!r}"))
                    continue
                exp_full = [{p: (Decimal(repr(op1["rows"][iv][p])) if p in present else Decimal(0)) for p in R.VOIGT_PAIRS}
                            for iv in range(op1["nv"])]
                exp_vols = [Decimal(repr(v)) for v in op1["volumes"]]
                v2 = []
                _, op2 = _check_fill_output(out2, op1, exp_full, exp_vols, system, "fill-chain", v2, d, "out2", True)
                if op2 is not None and set(op2["keys"]) != present:
                    v2.append(V("c17:fill-chain:keys", f"second fill ({s2}) changed the component set {sorted(present)} -> {sorted(op2['keys'])}"))
                viol.extend(v2)
                chain_done.append((s2, out2 == out1))
        outcome = f"fill/{system}/{numstyle}/{vkind}/" + (f"tiny{TINY[case['tiny']]}/" if case.get("tiny") else "") + ("digits-dropped" if lost else "exact") + \
                  ("/chain-bytes-identical" if chain_done and all(b for _, b in chain_done) else
                   "/chain-reformatted" if chain_done else "")
    finally:
        shutil.rmtree(d, ignore_errors=True)
    return {"viol": viol, "outcome": outcome if not viol else "violation", "key": _fill_key(case)}


def _fill_key(case):
    return "fi" + "/".join(str(case.get(k, "consistent")) for k in ("system", "numstyle", "given", "valuekind", "letter", "order", "nv",
                                                                     "lattice", "layout", "lathdr", "tiny"))


def chain_ops(system):
    """Second operations enabled after `fill -s system`: the same system, triclinic, and every other
    system whose relations the filled tensor satisfies and whose independent components are all
    non-vanishing columns of the first output (so the second call is again on a sufficient table)."""
    S = R.SYSTEMS[system]
    probe = {p: 100.0 + 13.7 * i for i, p in enumerate(sorted(S["independent"]))}
    full = R.fill_reference(system, probe)
    present = set(R.nonzero_pairs(system))
    ops = [system]
    for s2 in SYSTEM_NAMES:
        if s2 == system:
            continue
        ind2 = R.SYSTEMS[s2]["independent"]
        if s2 != "triclinic" and not set(ind2) <= present:
            continue
        if s2 == "triclinic":
            ops.append(s2)
            continue
        again = R.fill_reference(s2, {p: full[p] for p in ind2})
        if all(abs(again[p] - full[p]) <= 1e-12 for p in R.VOIGT_PAIRS):
            ops.append(s2)
    return ops


# =========================================================================== shipped files

SHIPPED_PHONON = ["examples/akimotoite/input01", "examples/diopside/input01", "examples/bridgmanite/input01"]
SHIPPED_STATIC = [("examples/akimotoite/input02", "trigonal7"), ("examples/bridgmanite/elast.dat", "orthorhombic"),
                  ("examples/diopside/input02", "monoclinic"),
                  ("docs/tutorial/_attachments/plotting/elast.dat", "orthorhombic")]


def _shipped_case(case):
    from cij.io.traditional.qha_input import read_energy
    from cij.io.traditional.elast_dat import read_elast_data, apply_symetry_on_elast_data
    path = os.path.join(repo_root(), case["path"])
    viol = []
    if not os.path.exists(path) or os.path.getsize(path) == 0:
        return {"viol": [], "nontrivial": False, "outcome": "shipped/absent-or-empty", "key": "sh" + case["path"]}
    with open(path, encoding="utf8", newline="") as fp:
        text = fp.read()
    if case["what"] == "phonon":
        rp = R.parse_phonon(text)
        try:
            rd = read_energy(path)
        except Exception as e:
            return {"viol": [V(f"c17:shipped-phonon:read-raises:{type(e).__name__}", f"read_energy({case['path']}) raised {e!r}")]}
        got = {"nv": rd.nv, "nq": rd.nq, "np": rd.np, "nm": rd.nm, "na": rd.na,
               "volumes": [{"P": v.pressure, "V": v.volume, "E": v.energy,
                            "q": [{"coord": list(q.coord), "modes": list(q.modes)} for q in v.q_points]} for v in rd.volumes],
               "weights": [{"coord": list(w.coord), "w": w.weight} for w in rd.weights]}
        for k in ("nv", "nq", "np", "nm", "na", "volumes", "weights"):
            if got[k] != rp[k]:
                viol.append(V(f"c17:shipped-phonon:ref-parse-differs:{k}", f"{case['path']}: {k} read by cij differs from the independent parse"))
        return {"viol": viol, "outcome": "shipped/phonon", "key": "sh" + case["path"]}
    # static: reader differential, then the command on the shipped file
    system = case["system"]
    rp = R.parse_static(text)
    try:
        ed = read_elast_data(path)
    except Exception as e:
        return {"viol": [V(f"c17:shipped-static:read-raises:{type(e).__name__}", f"read_elast_data({case['path']}) raised {e!r}")]}
    got, notes = _elast_plain(ed)
    for n in notes[:2]:
        viol.append(V("c17:shipped-static:key-type", n))
    _cmp_static(got, {k: rp[k] for k in ("vref", "nv", "cellmass", "volumes", "rows", "lattice")},
                "c17:shipped-static", viol, f"read_elast_data({case['path']})")
    d = tempfile.mkdtemp(dir="/dev/shm", prefix="c17x-")
    try:
        p2 = os.path.join(d, "input02")
        shutil.copyfile(path, p2)
        code, exc, out = _invoke_fill(system, p2, d)
        if code != 0 or exc is not None:
            viol.append(V(f"c17:shipped-fill:raises:{type(exc).__name__ if exc else code}", f"`cij fill -s {system} {case['path']}`: {code} {exc!r}"))
        else:
            try:
                op = R.parse_static(out)
            except R.FormatError as e:
                viol.append(V("c17:shipped-fill:invalid-table:layout", f"{case['path']}: {e}"))
                op = None
            if op is not None:
                strip = lambda ls: ls[:max((i + 1 for i, l in enumerate(ls) if l.strip() != ""), default=0)]  # noqa: E731
                if op["header_lines"] != rp["header_lines"]:
                    viol.append(V("c17:shipped-fill:header-lines", f"{op['header_lines']} != {rp['header_lines']}"))
                if strip(op["rest_lines"]) != strip(rp["rest_lines"]):
                    viol.append(V("c17:shipped-fill:lattice-block", f"{case['path']}: lattice block not verbatim"))
                if op["volumes"] != rp["volumes"]:
                    viol.append(V("c17:shipped-fill:volumes", f"{op['volumes']} != {rp['volumes']}"))
                try:
                    ed2 = read_elast_data(path)
                    apply_symetry_on_elast_data(ed2, {"system": system})
                    dif, _ = _elast_plain(ed2)
                except Exception as e:
                    viol.append(V(f"c17:shipped-fill:differential-raises:{type(e).__name__}",
                                  f"apply_symetry_on_elast_data(read_elast_data({case['path']})) raised {e!r}"))
                    dif = {"rows": []}
                bad = []
                for iv in range(min(rp["nv"], len(dif["rows"]), len(op["rows"]))):
                    a, b = op["rows"][iv], dif["rows"][iv]
                    for p in sorted(set(a) | set(b)):
                        tok = op["row_tokens"][iv][1 + op["keys"].index(p)] if p in a else "0"
                        y = b.get(p, 0.0)
                        # a filled value that is a number of <= 6 decimals must be on the page itself
                        strict = abs(round(y, 6) - y) <= 1e-9 * max(1.0, abs(y))
                        if not abs(a.get(p, 0.0) - y) <= _fill_tol(Decimal(repr(y)), tok, strict):
                            bad.append((iv, p, a.get(p), y))
                if bad:
                    viol.append(V("c17:shipped-fill:differential:values", f"{case['path']}: {len(bad)} cell(s), first {bad[0]}"))
    finally:
        shutil.rmtree(d, ignore_errors=True)
    return {"viol": viol, "outcome": "shipped/static+fill", "key": "sh" + case["path"]}


# =========================================================================== histories (mode B)
#
# A reader is a function of the bytes at the path at the time of the call.  Here the *process history*
# is enumerated: every valid sequence of operations over one scratch path p (and a second path q) up to
# a depth, each replayed from scratch on fresh real files; after every read the result must equal
# io_ref's parse of the bytes that are at that path at that moment -- whatever was written, read,
# symmetry-filled in memory or edited in the returned objects before.

HIST_STATIC_OPS = ["wX", "wY", "rp", "rq", "fill", "medit", "mpop"]
HIST_PHONON_OPS = ["wA", "wB", "rp", "rq", "medit", "mpop"]
PATHMODES = ["unique", "fixed", "relative"]
# unique:   p, q are absolute paths in a directory created for the case
# fixed:    p, q are absolute paths with a name that is the same for every case a worker process executes
#           (/dev/shm/c17h-fixed-<pid>/...), and the case starts with a "previous tenant": another table is
#           written to p and q, read, and the files are removed -- then the history proper starts
# relative: p and q have the SAME relative name in two directories; every operation runs with the
#           working directory set accordingly and passes the relative name

HIST_TABLES = {   # name -> fill_table arguments; all differ in title, vref, nv, cellmass, components, every number
    "X": dict(system="cubic", numstyle="float", given="independent", case_letter="c", order="voigt", nv=2, lattice=0,
              layout="plain", vref="586.01996000", cellmass="200.782", variant=0),
    "Y": dict(system="hexagonal", numstyle="float", given="independent", case_letter="C", order="reversed", nv=3, lattice=1,
              layout="padded", vref="1454.2561", cellmass="433.1008", variant=1),
    "Z": dict(system="tetragonal6", numstyle="float", given="independent", case_letter="c", order="voigt", nv=1, lattice=1,
              layout="crlf-tabs", vref="2260.92", cellmass="803.104", variant=2),       # lives at q
    "W": dict(system="orthorhombic", numstyle="float", given="independent", case_letter="c", order="voigt", nv=4, lattice=1,
              layout="plain", vref="1918.4798", cellmass="562.768", variant=3),          # the previous tenant
}
HIST_PHONON = {   # name -> (shape, family, (nm, na))
    "A": ((2, 2, 3), "unit", (2, 10)),
    "B": ((1, 3, 6), "large", (4, 20)),
    "C": ((2, 1, 3), "physical", (1, 1)),       # lives at q
    "W": ((3, 2, 3), "unit", (12, 240)),        # the previous tenant
}


def history_sequences(ops, depth):
    """All valid operation sequences of length <= depth that end in a read.  Valid: `rp` needs an earlier
    write to p (q holds its table from the start); fill / medit / mpop need an earlier read (they act on
    the object the last read returned); fill needs that object not to have been edited by medit / mpop
    (an edited object is no longer a consistent table, a refusal there would say nothing)."""
    out = []

    def rec(seq, written, have, tainted):
        if seq and seq[-1] in ("rp", "rq"):
            out.append(list(seq))
        if len(seq) >= depth:
            return
        for op in ops:
            if op[0] == "w":
                rec(seq + [op], True, have, tainted)
            elif op == "rp":
                if written:
                    rec(seq + [op], written, True, False)
            elif op == "rq":
                rec(seq + [op], written, True, False)
            elif op == "fill":
                if have and not tainted:
                    rec(seq + [op], written, have, tainted)
            else:
                if have:
                    rec(seq + [op], written, have, True)

    rec([], False, False, False)
    return out


def _qha_plain(rd):
    return {"nv": rd.nv, "nq": rd.nq, "np": rd.np, "nm": rd.nm, "na": rd.na,
            "volumes": [{"P": v.pressure, "V": v.volume, "E": v.energy,
                         "q": [{"coord": list(q.coord), "modes": list(q.modes)} for q in v.q_points]} for v in rd.volumes],
            "weights": [{"coord": list(w.coord), "w": w.weight} for w in rd.weights]}


def _qha_data(name):
    from cij.io.traditional.models import QHAInputData, VolumeData, QPointData, QPointWeight
    shape, fam, (nm, na) = HIST_PHONON[name]
    ref = phonon_values(shape, fam)
    return QHAInputData(shape[0], shape[1], shape[2], nm, na,
                        [QPointWeight(tuple(w["coord"]), w["w"]) for w in ref["weights"]],
                        [VolumeData(v["P"], v["V"], v["E"], [QPointData(tuple(q["coord"]), list(q["modes"])) for q in v["q"]])
                         for v in ref["volumes"]])


def _quiet(f, *a):
    try:
        return f(*a)
    except R.FormatError:
        return None


class _In:
    """Run an operation with the working directory set (relative path mode)."""

    def __init__(self, d):
        self.d, self.old = d, None

    def __enter__(self):
        if self.d:
            self.old = os.getcwd()
            os.chdir(self.d)

    def __exit__(self, *a):
        if self.old:
            os.chdir(self.old)


def _history_case(case):
    from cij.io.traditional.elast_dat import read_elast_data, apply_symetry_on_elast_data
    from cij.io.traditional.qha_input import read_energy, write_energy
    what, ops, mode = case["what"], case["ops"], case["pathmode"]
    static = what == "static"
    viol = []
    base = None
    try:
        # ---- places: where -> (cwd or None, name handed to cij, absolute path)
        if mode == "fixed":
            base = f"/dev/shm/c17h-fixed-{os.getpid()}"
            shutil.rmtree(base, ignore_errors=True)
            os.makedirs(base)
            place = {"p": (None, os.path.join(base, "table.dat"), os.path.join(base, "table.dat")),
                     "q": (None, os.path.join(base, "other.dat"), os.path.join(base, "other.dat"))}
        else:
            base = tempfile.mkdtemp(dir="/dev/shm", prefix="c17h-")
            if mode == "unique":
                place = {"p": (None, os.path.join(base, "table.dat"), os.path.join(base, "table.dat")),
                         "q": (None, os.path.join(base, "other.dat"), os.path.join(base, "other.dat"))}
            else:
                for sub in ("a", "b"):
                    os.makedirs(os.path.join(base, sub))
                place = {"p": (os.path.join(base, "a"), "table.dat", os.path.join(base, "a", "table.dat")),
                         "q": (os.path.join(base, "b"), "table.dat", os.path.join(base, "b", "table.dat"))}
        content = {}        # where -> name of what was written there last
        earlier = {"p": [], "q": []}   # plain parses of everything that was at that place before

        def write(where, name):
            cwd, arg, path = place[where]
            if static:
                text, _ = fill_table(**HIST_TABLES[name])
                with open(path, "w", encoding="utf8", newline="") as fp:
                    fp.write(text)
            else:
                try:
                    with _In(cwd):
                        write_energy(arg, _qha_data(name))
                except Exception as e:
                    viol.append(V(f"c17:history:phonon:write-raises:{type(e).__name__}", f"write_energy raised {e!r} after {done}"))
                    return False
            content[where] = name
            return True

        def expected(where):
            with open(place[where][2], encoding="utf8", newline="") as fp:
                text = fp.read()
            if static:
                rp = R.parse_static(text)
                return {k: rp[k] for k in ("vref", "nv", "cellmass", "volumes", "rows", "lattice")}
            rp = R.parse_phonon(text)
            return {k: rp[k] for k in ("nv", "nq", "np", "nm", "na", "volumes", "weights")}

        def read(where, label):
            """One read + the oracle.  Returns the object (or None)."""
            cwd, arg, path = place[where]
            try:
                exp = expected(where)
            except R.FormatError as e:
                if static:
                    raise HarnessError(f"io_ref cannot parse its own table: {e}")
                # the phonon files of a history are written by cij's writer
                viol.append(V("c17:history:phonon:ref-cannot-parse",
                              f"the file write_energy produced (data {content.get(where)}) is not in the phonon data layout: {e}"))
                return None
            try:
                with _In(cwd):
                    obj = read_elast_data(arg) if static else read_energy(arg)
                got = _elast_plain(obj)[0] if static else _qha_plain(obj)
            except Exception as e:
                viol.append(V(f"c17:history:{what}:read-raises:{type(e).__name__}", f"read raised {e!r} at step {label} of {ops} ({mode})"))
                return None
            if got != exp:
                if static:
                    tmp = []
                    _cmp_static(got, exp, "x", tmp, "read")
                    fields = [v["sig"].split(":")[-1] for v in tmp] or ["?"]
                else:
                    fields = [k for k in exp if got[k] != exp[k]]
                if any(got == e for e in earlier[where]):
                    cause = "stale:equals-earlier-content-of-the-path"
                elif any(got == e for w in earlier for e in earlier[w]) or any(
                        w != where and w in content and os.path.exists(place[w][2]) and got == _quiet(expected, w) for w in place):
                    cause = "equals-content-of-another-path"
                elif any(o in ("fill", "medit", "mpop") for o in done):
                    cause = "carries-in-memory-changes-of-an-earlier-result"
                else:
                    cause = "other"
                viol.append(V(f"c17:history:{what}:read-differs-from-file:{cause}",
                              f"history {ops} on path mode `{mode}`: the read at step {label} ({where} holds {content.get(where)}) differs from "
                              f"the independent parse of the bytes at the path in {fields}; e.g. "
                              f"{fields[0]}: read {str(got.get(fields[0]))[:160]} file has {str(exp.get(fields[0]))[:160]}"))
            earlier[where].append(exp)
            return obj

        done = []
        # ---- previous tenant of the fixed names
        if mode == "fixed":
            for where in ("p", "q"):
                if write(where, "W"):
                    done.append(f"tenant:w{where}")
                    read(where, f"tenant-read-{where}")
                    done.append(f"tenant:r{where}")
                os.remove(place[where][2])
            content.clear()
        # ---- q holds its own data from the start
        write("q", "Z" if static else "C")
        obj, obj_from = None, None
        nreads = 0
        for i, op in enumerate(ops):
            label = f"{i}:{op}"
            if op[0] == "w":
                write("p", op[1])
            elif op in ("rp", "rq"):
                where = op[1]
                obj = read(where, label)
                obj_from = content.get(where)
                nreads += 1
            elif obj is None:
                pass        # the read before failed (already reported)
            elif op == "fill":
                system = HIST_TABLES[obj_from]["system"]
                try:
                    apply_symetry_on_elast_data(obj, {"system": system})
                except Exception as e:
                    viol.append(V(f"c17:history:static:fill-raises:{type(e).__name__}",
                                  f"apply_symetry_on_elast_data(result of reading table {obj_from}, {system}) raised {e!r} at step {label} of {ops}"))
            elif op == "medit":
                try:
                    if static:
                        if obj.volumes:
                            d0 = obj.volumes[0].static_elastic_modulus
                            d0[next(iter(d0))] = 12345.678
                            obj.volumes.append(obj.volumes[0])
                        obj.lattice_parmeters.append((9.25, 9.5, 9.75))
                    else:
                        if obj.volumes and obj.volumes[0].q_points:
                            obj.volumes[0].q_points[0].modes[0] = 777.125
                            obj.volumes[0].q_points.append(obj.volumes[0].q_points[0])
                        obj.weights.append(obj.weights[0] if obj.weights else ((0.0, 0.0, 0.0), 1.0))
                except Exception as e:      # an immutable result cannot leak edits: fine
                    done.append(f"(medit not possible: {type(e).__name__})")
            elif op == "mpop":
                try:
                    if obj.volumes:
                        obj.volumes.pop()
                    if static and obj.lattice_parmeters:
                        obj.lattice_parmeters.pop(0)
                    if not static and obj.weights:
                        obj.weights.pop(0)
                except Exception as e:
                    done.append(f"(mpop not possible: {type(e).__name__})")
            done.append(op)
    finally:
        if base:
            shutil.rmtree(base, ignore_errors=True)
    return {"viol": viol, "outcome": f"history/{what}/{mode}/reads{nreads}" if not viol else "violation",
            "key": f"h/{what}/{mode}/" + ",".join(ops)}


HIST_DEPTH = {"quick": 4, "thorough": 5}


def history_cases(quick):
    depth = HIST_DEPTH["quick" if quick else "thorough"]
    out = []
    for what, ops in (("static", HIST_STATIC_OPS), ("phonon", HIST_PHONON_OPS)):
        for seq in history_sequences(ops, depth):
            for mode in PATHMODES:
                out.append({"kind": "history", "what": what, "ops": seq, "pathmode": mode})
    return out


# =========================================================================== engine interface

def run_case(case):
    kind = case["kind"]
    if kind == "phonon":
        return _phonon_case(case)
    if kind == "static":
        return _static_case(case)
    if kind == "fill":
        return _fill_case(case)
    if kind == "shipped":
        return _shipped_case(case)
    if kind == "history":
        return _history_case(case)
    raise HarnessError(f"unknown case kind {kind}")


def phonon_cases():
    return [{"kind": "phonon", "shape": list(s), "family": f, "nmna": list(nn), "comment": c}
            for s in SHAPES for f in FAMILIES for nn in NMNA for c in range(len(COMMENTS))]


def static_cases():
    out = [{"kind": "static", "subset": sub, "order": o, "naming": n, "lattice": lat, "nv": nv, "layout": lay, "lathdr": 0}
           for sub in SUBSETS for o in ORDERS for n in NAMINGS for lat in (False, True) for nv in STATIC_NV
           for lay in STATIC_LAYOUTS]
    # spelling of the one-line header of the lattice block (only where there is a block); crossed with what the
    # block depends on (subset = row width before it, n_V = its length, layout = blanks / line ends around it)
    out += [{"kind": "static", "subset": sub, "order": "voigt", "naming": "c11", "lattice": True, "nv": nv, "layout": lay, "lathdr": h}
            for h in range(1, len(R.LATTICE_HEADERS)) for sub in SUBSETS for nv in STATIC_NV for lay in STATIC_LAYOUTS]
    # how the file ends after the last tabulated row (of the table, or of the lattice block): no final line terminator,
    # empty lines, whitespace-only lines.  Nothing is tabulated there: no block tabulated -> no lattice parameters read.
    out += [{"kind": "static", "subset": sub, "order": "voigt", "naming": "c11", "lattice": lat, "nv": nv, "layout": lay, "lathdr": 0,
             "ending": e}
            for e in ENDINGS[1:] for sub in ("cubic3", "full21") for lat in (False, True) for nv in STATIC_NV for lay in STATIC_LAYOUTS]
    return out


FILL_MINOR = OrderedDict([("letter", ["c", "C"]), ("order", ["voigt", "reversed"]), ("nv", [4, 1, 9]),
                          ("layout", ["plain", "crlf-tabs", "padded"]), ("lathdr", [0, 1, 2, 3, 4])])


def fill_cases(quick):
    """systems x number styles x given x lattice block: full product in both tiers.  The presentation
    dimensions (letter case, column order, n_V, layout) form a deviation lattice: quick walks it to
    1 deviation from the default (and runs the full second-operation alphabet at the default only),
    thorough walks the full product with the full second-operation alphabet everywhere."""
    minors = [(dict(cfg), k) for cfg, k in lattice(FILL_MINOR, 1 if quick else None)]
    out = []
    for s in SYSTEM_NAMES:
        ops = chain_ops(s)
        for ns in NUMSTYLES:
            for g in GIVEN:
                for lat in (0, 1):
                    for cfg, k in minors:
                        if cfg["lathdr"] and not (lat and ns == "float" and g == "independent"):
                            continue    # the header spelling exists only with a block; crossed with systems and presentation only
                        out.append({"kind": "fill", "system": s, "numstyle": ns, "given": g, "valuekind": "consistent", "lattice": lat,
                                    "letter": cfg["letter"], "order": cfg["order"], "nv": cfg["nv"], "layout": cfg["layout"],
                                    "lathdr": cfg["lathdr"],
                                    "chain": ops if (not quick or k == 0) else ops[:1]})
        # value magnitude: one independent component is weak (3e-5 / 5e-7) at every volume.  It is tabulated, it does not
        # vanish, so it belongs to the output and to the symmetry-filled parse alike.
        for tiny in range(1, len(TINY)):
            for g in GIVEN:
                for cfg, k in minors:
                    if cfg["lathdr"] or (quick and k and cfg["nv"] == FILL_MINOR["nv"][0]):
                        continue        # quick: default presentation and the n_V deviations ("at every volume")
                    out.append({"kind": "fill", "system": s, "numstyle": "float", "given": g, "valuekind": "consistent", "lattice": 1,
                                "letter": cfg["letter"], "order": cfg["order"], "nv": cfg["nv"], "layout": cfg["layout"], "lathdr": 0,
                                "tiny": tiny, "chain": ops if not quick else ops[:1]})
        # a component that vanishes by symmetry is tabulated explicitly (zeros at every volume) x letter case of the label row
        if len(R.nonzero_pairs(s)) < 21:
            for letter in ("c", "C", "mixed"):
                for cfg, k in minors:
                    if cfg["lathdr"] or cfg["letter"] != "c" or (quick and k and cfg["nv"] == FILL_MINOR["nv"][0]):
                        continue
                    out.append({"kind": "fill", "system": s, "numstyle": "float", "given": "independent+zero", "valuekind": "consistent",
                                "lattice": 1, "letter": letter, "order": cfg["order"], "nv": cfg["nv"], "layout": cfg["layout"], "lathdr": 0,
                                "chain": ops[:1]})
        # value kind "within-tolerance": tabulated components over-determine the relations and disagree slightly.
        # Only where something can disagree: a system with dependent components, and a dependent one tabulated.
        # No second fill: the compromise of a slightly inconsistent table is not itself consistent, so fill is not
        # a fixed point there (and nothing says it should be).
        if R.SYSTEMS[s]["dependent"]:
            for ns in OVERDET_NUMSTYLES:
                for g in OVERDET_GIVEN:
                    for lat in (0, 1):
                        for cfg, k in minors:
                            if cfg["lathdr"]:
                                continue
                            out.append({"kind": "fill", "system": s, "numstyle": ns, "given": g, "valuekind": "within-tolerance",
                                        "lattice": lat, "letter": cfg["letter"], "order": cfg["order"], "nv": cfg["nv"],
                                        "layout": cfg["layout"], "chain": []})
    return out


def shipped_cases():
    return [{"kind": "shipped", "what": "phonon", "path": p} for p in SHIPPED_PHONON] + \
           [{"kind": "shipped", "what": "static", "path": p, "system": s} for p, s in SHIPPED_STATIC]


def explore(ctx):
    ctx.rule = (
        "mode A. phonon: 27 shapes (n_V x n_q x n_p in {1,2,12}x{1,2,10}x{3,6,60}) x 4 value "
        "families (tiny: 0, +-k*1e-6 and 3e-7 below the print precision; unit: +-1.5 outwards; large: +-99999.123456 "
        "inwards; physical: descending V, negative E, negative acoustic frequencies at Gamma) x 4 (nm,na) x 2 comment "
        "lines, every slot of a data set holding a distinct number. static: 4 component subsets x 3 column orders x 11 "
        "column spellings (c11, C11, c_11, 4-digit, swapped 4-digit, c21, and the prefixes cij, Cij_, elast, C^st_, Cijkl) x lattice block absent/present x n_V in {1,2,9} x 3 shipped presentations (blanks, padded, "
        "CRLF+tabs), every slot distinct; plus 6 file endings after the last row (no final terminator, empty lines, "
        "whitespace-only lines) x lattice block absent/present x n_V x presentations; plus, with a lattice block, 4 further spellings of its one-line header (upper case, "
        "`a b c`, a `#` comment, a sentence) x subsets x n_V x presentations. fill: 9 systems x 4 number styles x {independent, all non-vanishing} "
        "components given x lattice block (full product), plus a symmetry-forbidden component tabulated as zeros x {c, C, mixed} "
        "label rows x 8 systems, plus a weak independent component (3e-5 / 5e-7 at every volume) x 9 "
        "systems x given, plus value kind `within-tolerance` (tabulated dependent components "
        "disagree with their relation by 0.04..0.08, residual <= half the tolerance) x 6 systems with dependent components x "
        "{float, 9-decimal} x {independent + one dependent, all non-vanishing} given x lattice block; each x deviation lattice over presentation {c/C, column order, n_V in "
        "{4,1,9}, layout in {plain, CRLF+tabs, padded}, lattice-header spelling (5, only with a block, float/independent)}: bound 1 in quick, full product in thorough; mode B: histories of "
        "length 2 (second `fill` over the enabled systems: same, triclinic, sufficient sub-symmetries; in quick the full "
        "second alphabet only at the default presentation, `same` elsewhere). phonon and static products are complete in "
        "both tiers. shipped example files: cij reader against the independent parser, and the command on each shipped "
        "table. mode B (process histories): every valid operation sequence up to depth 4 (quick) / 5 (thorough) that ends "
        "in a read, over one path p and a second path q -- static: {write table X to p, write table Y to p, read p, read q, "
        "symmetry-fill the last result in memory, edit / pop the lists of the last result}; phonon: {write_energy A to p, "
        "write_energy B to p, read p, read q, edit, pop} -- x 3 path modes (fresh absolute paths; one fixed absolute name per "
        "worker process with a previous tenant written, read and removed first; equal relative names in two working "
        "directories); after every read: result == io_ref parse of the bytes at the path at that moment. Every case is non-trivial (the smallest data set has 13 distinct numeric slots) except a shipped file "
        "that is absent or empty in the tree.")
    ctx.assumptions = [
        "CPython float()/'%f' are correctly rounded (trusted base)",
        "phonon file: written precision = the stated writer formats (P/V/E %12.6f, q coordinates %10.4f, frequencies "
        "%12.6f, weight block %10.6f); a value may come back changed by at most half a unit of that digit (+4 ulp)",
        "static table layout = the shipped one: title, `vref nv cellmass`, column names, nv rows, optional one-line "
        "header + nv rows of lattice parameters (a blank line between table and lattice block is NOT enumerated: no "
        "shipped file has one)",
        "fill: which components vanish / depend is hard-coded from the meaning of the relations (io_ref.SYSTEMS), not "
        "read from cij/data/constraints; a column that must vanish may be absent from the output (absent == 0)",
        "fill: numbers with <= 6 decimals must be carried exactly (1e-9 relative slack for the least-squares solve); "
        "9-decimal inputs are compared at half a unit of the last *printed* digit and counted in notes "
        "(STRICT_LONG_DECIMALS=False)",
        "histories: fill is enabled only on a result that was not edited (an edited object is not a consistent table); "
        "worker processes are long-lived, so a leak from one case into a later one also shows (fixed-name mode)",
        "fill of an over-determined, slightly inconsistent table = the unit-weight least-squares compromise between the "
        "tabulated numbers and the relations (io_ref.fill_lsq: each relation written with coefficient one on its dependent "
        "component), which is what the library documents and does; it is NOT the orthogonal projection onto the invariant "
        "subspace, and relations between tabulated components stay violated by a fraction of the input disagreement "
        "(C09 bounds that by sqrt(residual_atol)); asserted instead: equality with that reference and with the library "
        "fill at the printed precision, and exact validity (printed precision) of every relation whose dependent "
        "component was not tabulated",
        "the lattice block is introduced by any one non-blank, non-numeric line (the statement does not fix its spelling; "
        "the shipped files spell it lattice_a lattice_b lattice_c with varying blanks)",
        "header lines and lattice block are compared verbatim after removing line terminators (CRLF input is re-emitted "
        "with LF by text-mode I/O)",
    ]
    ph = phonon_cases()
    st = static_cases()
    fi = fill_cases(ctx.quick)
    sh = shipped_cases()

    # (static cases cost ~3 ms each; the engine's map chunks of up to 64 cases keep the pool overhead negligible)
    ctx.run(MOD, "run_case", ph, part="phonon-roundtrip")
    ctx.run(MOD, "run_case", st, part="static-read")
    ctx.run_under(MOD, "run_case", ph[:2] + st[:2] + st[-1:], ("-O",))   # interpreter started with -O (asserts stripped)
    n_hist = sum(1 + len(c["chain"]) for c in fi)
    ctx.run(MOD, "run_case", fi, part="fill-command+chain", states=n_hist, transitions=n_hist)
    full_minor, _ = lattice_size(FILL_MINOR, None)
    done_minor, _ = lattice_size(FILL_MINOR, 1 if ctx.quick else None)
    if done_minor < full_minor:
        ctx.exhaustive = False      # engine convention: a deviation lattice walked to a bound below its full product
    ctx.run(MOD, "run_case", sh, part="shipped-files")
    hi = history_cases(ctx.quick)
    for what in ("static", "phonon"):
        sub = [c for c in hi if c["what"] == what]
        ctx.run(MOD, "run_case", sub, part=f"history-{what}", states=len(sub), transitions=sum(len(c["ops"]) for c in sub))

    ctx.notes["alphabets"] = {
        "phonon": {"shapes": len(SHAPES), "families": len(FAMILIES), "nm_na": len(NMNA), "comments": len(COMMENTS),
                   "cases": len(ph), "largest_data_set_slots": 12 * (3 + 10 * 63) + 40},
        "static": {"endings": ENDINGS, "lattice_header_spellings": R.LATTICE_HEADERS, "subsets": {k: len(v) for k, v in SUBSETS.items()}, "orders": len(ORDERS), "spellings": NAMINGS,
                   "lattice": 2, "n_V": STATIC_NV, "layouts": STATIC_LAYOUTS, "cases": len(st)},
        "fill": {"systems": len(SYSTEM_NAMES), "number_styles": NUMSTYLES, "given": GIVEN, "lattice": 2,
                 "value_kinds": VALUEKINDS, "weak_component": {"magnitudes": TINY[1:], "pair": {k: list(v) for k, v in TINY_PAIR.items()},
                                                               "cases": sum(1 for c in fi if c.get("tiny"))}, "within_tolerance": {"systems": [s for s in SYSTEM_NAMES if R.SYSTEMS[s]["dependent"]],
                                                                 "number_styles": OVERDET_NUMSTYLES, "given": OVERDET_GIVEN,
                                                                 "cases": sum(1 for c in fi if c["valuekind"] == "within-tolerance")},
                 "presentation_lattice": {"dims": {k: v for k, v in FILL_MINOR.items()}, "bound": 1 if ctx.quick else len(FILL_MINOR),
                                          "configs_in_bound": done_minor, "full_product": full_minor},
                 "cases": len(fi), "histories_depth_le_2": n_hist, "chain_ops": {s: chain_ops(s) for s in SYSTEM_NAMES}},
        "shipped": [c["path"] for c in sh],
        "history": {"static_ops": HIST_STATIC_OPS, "phonon_ops": HIST_PHONON_OPS, "path_modes": PATHMODES,
                    "depth": HIST_DEPTH["quick" if ctx.quick else "thorough"],
                    "sequences_static": len({tuple(c["ops"]) for c in hi if c["what"] == "static"}),
                    "sequences_phonon": len({tuple(c["ops"]) for c in hi if c["what"] == "phonon"}),
                    "cases": len(hi), "reads_checked": sum(sum(1 for o in c["ops"] if o in ("rp", "rq")) for c in hi)},
    }
    ctx.notes["fill_outcomes"] = {k: v for k, v in ctx.outcomes.items() if k.startswith("fill")}
    ctx.notes["not_asserted"] = [
        "digits of the fill input beyond the 6th decimal (pandas prints 6); counted as outcome `digits-dropped`",
        "byte identity of fill(fill(x)) with fill(x) (outcome label chain-bytes-identical / chain-reformatted); "
        "asserted instead: equal parse, header lines and lattice block verbatim, same component set",
        "a blank line between table and lattice block (no shipped file has one)",
        "fill(fill(x)) == fill(x) for a slightly inconsistent x (the least-squares compromise is not itself consistent)",
        "that the emitted table satisfies relations BETWEEN TABULATED components of a slightly inconsistent input "
        "(it does not on the unchanged tree, by design of the least-squares fill; C09 owns the sqrt(tolerance) bound)",
        "column spellings other than c11/C11 for the *command* (`fill_cij` only recognises c<digit><digit>)",
    ]


def selftest():
    fails = []

    def chk(name, cond):
        if not cond and name not in fails:
            fails.append(name)

    # 1. canonical keys: every spelling of every pair
    for p in R.VOIGT_PAIRS:
        for n in NAMINGS:
            chk("voigt_key spelling " + n, R.voigt_key(col_name(p, n)) == p)
    chk("voigt_key non-component", R.voigt_key("V") is None and R.voigt_key("lattice_a") is None)
    # all 81 four-digit names fall on the 21 pairs with the right multiplicities (3x1, 3x2, 12x4, 3x8)
    import itertools
    cnt = {}
    for t in itertools.product("123", repeat=4):
        k = R.voigt_key("c" + "".join(t))
        cnt[k] = cnt.get(k, 0) + 1
    chk("voigt_key orbit sizes", sorted(cnt.values()) == [1] * 3 + [2] * 3 + [4] * 12 + [8] * 3 and len(cnt) == 21)
    # 2. static writer/parser are inverse on every enumerated table (static_table also asserts distinct slots)
    for c in static_cases():
        text, exp = static_table(c["subset"], c["order"], c["naming"], c["lattice"], c["nv"], c["layout"], c["lathdr"], c.get("ending", "eol"))
        rp = R.parse_static(text)
        if c.get("ending", "eol") != "eol":
            chk("ending changes the bytes only after the last row", text != static_table(c["subset"], c["order"], c["naming"], c["lattice"],
                                                                                        c["nv"], c["layout"])[0])
        if c["lathdr"]:
            chk("lattice header spelling is on the page", rp["lattice_lines"][0] == R.LATTICE_HEADERS[c["lathdr"]] and len(rp["lattice"]) == c["nv"])
        chk("static write/parse inverse", {k: rp[k] for k in ("vref", "nv", "cellmass", "volumes", "rows", "lattice")} == exp)
    # 3. phonon parser against a file written here in the shipped (Fortran-like) layout, and distinctness
    for shape in ((1, 1, 3), (2, 2, 6), (12, 10, 60)):
        for fam in FAMILIES:
            ref = phonon_values(shape, fam)
            lines = [" title", " text", " Number of volumes (nv), q-vectors (nq), normal modes (np)",
                     "   %d   %d   %d   2   10" % shape, ""]
            for v in ref["volumes"]:
                lines.append(" P=  %r      V=  %r      E=  %r   " % (v["P"], v["V"], v["E"]))
                for q in v["q"]:
                    lines.append("   %r   %r   %r " % tuple(q["coord"]))
                    lines += ["  %r   " % m for m in q["modes"]]
            lines.append(" weight")
            lines += ["  %r  %r  %r  %r" % (*w["coord"], w["w"]) for w in ref["weights"]]
            rp = R.parse_phonon("\n".join(lines) + "\n")
            chk("phonon parse of shipped layout " + fam,
                rp["volumes"] == ref["volumes"] and rp["weights"] == ref["weights"] and (rp["nv"], rp["nq"], rp["np"]) == shape)
            if fam in ("unit", "large"):
                flat = [x for v in ref["volumes"] for x in [v["P"], v["V"], v["E"]] + [y for q in v["q"] for y in q["coord"] + q["modes"]]]
                flat += [y for w in ref["weights"] for y in w["coord"] + [w["w"]]]
                chk("phonon slots distinct at 4 decimals " + fam, len(set("%.4f" % x for x in flat)) == len(flat))
            if fam == "tiny":
                fr = [m for v in ref["volumes"] for q in v["q"] for m in q["modes"]]
                chk("phonon tiny frequencies distinct at 6 decimals", len(set("%.6f" % x for x in fr)) == len(fr))
            if fam == "physical":
                fr = [m for v in ref["volumes"] for q in v["q"] for m in q["modes"]]
                chk("phonon physical frequencies distinct", len(set(fr)) == len(fr))
    # 4. strict parser refuses broken layouts
    t, _ = static_table("ortho9", "voigt", "c11", True, 2, "plain")
    broken = {"lattice header missing": t.replace(R.LATTICE_HEADER + "\n", ""),
              "extra numeric row": t + "1 2 3\n",
              "duplicate component": t.replace("c12", "c11", 1),
              "short row": t.replace(t.splitlines()[3], " ".join(t.splitlines()[3].split()[:-1]))}
    for name, b in broken.items():
        try:
            R.parse_static(b)
            chk("strict static parser accepts: " + name, False)
        except R.FormatError:
            pass
    # 5. fill knowledge: counts of independent / non-vanishing components per system (Nye)
    counts = {s: (len(R.SYSTEMS[s]["independent"]), len(R.nonzero_pairs(s))) for s in SYSTEM_NAMES}
    chk("component counts per system",
        counts == {"triclinic": (21, 21), "monoclinic": (13, 13), "orthorhombic": (9, 9), "tetragonal7": (7, 11),
                   "tetragonal6": (6, 9), "trigonal7": (7, 15), "trigonal6": (6, 12), "hexagonal": (5, 9), "cubic": (3, 9)})
    # the hard-coded forms are invariant under the generating rotations of their class
    chk("reference tensors invariant under their point-group generators", _selftest_rotations())
    # 6. fill tables: consistent with the reference fill, every generated table parses
    for s in SYSTEM_NAMES:
        for ns in NUMSTYLES:
            for g in GIVEN:
                text, info = fill_table(s, ns, g, "c", "voigt", 4, True, "plain")
                rp = R.parse_static(text)
                for iv in range(4):
                    full = R.fill_reference(s, {p: rp["rows"][iv][p] for p in R.SYSTEMS[s]["independent"]})
                    chk("fill table consistent with fill_reference",
                        all(abs(full[p] - float(info["full"][iv][p])) < 1e-9 for p in R.VOIGT_PAIRS))
                    chk("fill table text carries the exact decimals",
                        all(abs(rp["rows"][iv][p] - float(info["full"][iv][p])) < 1e-12 for p in rp["keys"]))
                if ns == "int":
                    chk("integer style has integer-looking independent columns",
                        all(tok.lstrip("-").isdigit() for row in rp["row_tokens"] for tok, p in zip(row[1:], rp["keys"])
                            if p in R.SYSTEMS[s]["independent"]))
    # 7. least-squares fill: the worked example (hexagonal, c66 tabulated 0.2 above (c11-c12)/2), agreement with the
    #    exact fill on consistent input, and every enumerated within-tolerance table stays below half the tolerance
    x, res = R.fill_lsq("hexagonal", {(1, 1): 300.0, (1, 2): 100.0, (1, 3): 80.0, (3, 3): 250.0, (4, 4): 60.0, (6, 6): 100.2})
    chk("fill_lsq worked example", all(abs(x[p] - v) < 1e-9 for p, v in {(1, 1): 300.04, (1, 2): 99.96, (6, 6): 100.12, (2, 2): 300.04,
                                                                            (1, 3): 80.0, (2, 3): 80.0, (5, 5): 60.0, (1, 4): 0.0}.items())
        and abs(res - 0.016) < 1e-9)
    for s in SYSTEM_NAMES:
        ind = {p: 100.0 + 17.3 * i + 0.7 * i * i for i, p in enumerate(R.SYSTEMS[s]["independent"])}
        full = R.fill_reference(s, ind)
        for given in (ind, {p: full[p] for p in R.nonzero_pairs(s)}):
            x, res = R.fill_lsq(s, given)
            chk("fill_lsq equals the exact fill on consistent input", res < 1e-18 and all(abs(x[p] - full[p]) < 1e-9 for p in R.VOIGT_PAIRS))
        if R.SYSTEMS[s]["dependent"]:
            for g in OVERDET_GIVEN:
                for ns in OVERDET_NUMSTYLES:
                    text, info = fill_table(s, ns, g, "c", "voigt", 9, 1, "plain", valuekind="within-tolerance")
                    rp = R.parse_static(text)
                    chk("within-tolerance table: residual in (0, 0.05]", 1e-4 < info["residual"] <= 0.05)
                    moved = sum(1 for iv in range(9) for p in rp["keys"] if abs(rp["rows"][iv][p] - float(info["full"][iv][p])) > 1e-3)
                    chk("within-tolerance table: the fill must move tabulated numbers", moved >= 9)
    # 8. weak-component tables: the weak pair is an independent component of its system, the table stays consistent,
    #    and the weak values sit between the command's drop tolerance (1e-8) and 1e-4 at every volume
    for s in SYSTEM_NAMES:
        chk("weak pair is independent", TINY_PAIR[s] in R.SYSTEMS[s]["independent"])
        for t in range(1, len(TINY)):
            for g in GIVEN:
                text, info = fill_table(s, "float", g, "c", "voigt", 9, 1, "plain", tiny=t)
                rp = R.parse_static(text)
                for iv in range(9):
                    full = R.fill_reference(s, {p: rp["rows"][iv][p] for p in R.SYSTEMS[s]["independent"]})
                    chk("weak table consistent", all(abs(full[p] - float(info["full"][iv][p])) < 1e-12 for p in R.VOIGT_PAIRS))
                    chk("weak magnitude", 1e-7 < abs(rp["rows"][iv][TINY_PAIR[s]]) < 1e-4)
    chk("printed_half_unit", R.printed_half_unit("399.200123") == 0.5e-6 and R.printed_half_unit("61") == 0.5 and
        abs(R.printed_half_unit("1.5e-07") - 0.5e-8) < 1e-20)
    if fails:
        print("selftest failures:", fails)
    return not fails


def _selftest_rotations():
    """Rotate the reference tensors by the generators of their point group; they must not change."""
    import numpy as np
    ok = True

    def tensor4(full):
        c = np.zeros((3, 3, 3, 3))
        for (a, b), x in full.items():
            for (i, j) in {R.V2S[a], R.V2S[a][::-1]}:
                for (k, l) in {R.V2S[b], R.V2S[b][::-1]}:
                    c[i - 1, j - 1, k - 1, l - 1] = x
                    c[k - 1, l - 1, i - 1, j - 1] = x
        return c

    def rotz(deg):
        t = np.deg2rad(deg)
        return np.array([[np.cos(t), -np.sin(t), 0], [np.sin(t), np.cos(t), 0], [0, 0, 1.0]])

    gens = {
        "cubic": [rotz(90), np.array([[0, 0, 1.0], [1, 0, 0], [0, 1, 0]])],
        "hexagonal": [rotz(60)], "trigonal7": [rotz(120)],
        "trigonal6": [rotz(120), np.diag([1.0, -1, -1])],        # 3-fold about z, 2-fold about x
        "tetragonal7": [rotz(90)], "tetragonal6": [rotz(90), np.diag([1.0, -1, -1])],
        "orthorhombic": [np.diag([-1.0, -1, 1]), np.diag([1.0, -1, -1])],
        "monoclinic": [np.diag([-1.0, 1, -1])],                  # 2-fold about y (unique axis b)
        "triclinic": [],
    }
    for s, gs in gens.items():
        ind = R.SYSTEMS[s]["independent"]
        full = R.fill_reference(s, {p: 100.0 + 17.3 * i + 0.7 * i * i for i, p in enumerate(ind)})
        c = tensor4(full)
        for g in gs:
            c2 = np.einsum("ia,jb,kc,ld,abcd->ijkl", g, g, g, g, c)
            ok &= bool(np.allclose(c2, c, atol=1e-9))
    return ok
