"""C13 — results do not depend on how the same physical data are presented (mode A, metamorphic)."""
import copy
import functools
import itertools
import json
import os

import numpy

from mc import synth, calc as K
from mc.explore import V, HarnessError

ID = "C13"
MOD = "mc.props.c13"
TOL = 1e-9

BASES = {
    "mono": dict(nv=5, nq=4, na=2, lattice="tab", system="monoclinic", compset="minimal", static="generic", weights="increasing",
                 qha=dict(T_MIN=0, NT=3, DT=600, DT_SAMPLE=600, NTV=31, DELTA_P=1.5, DELTA_P_SAMPLE=1.5)),
    "cubic": dict(nv=5, nq=3, na=1, lattice="none", system="cubic", compset="minimal", static="cubicfit", weights="scaled",
                  qha=dict(T_MIN=100, NT=2, DT=900, DT_SAMPLE=900, NTV=25, DELTA_P=2.0, DELTA_P_SAMPLE=2.0)),
    "ortho": dict(nv=5, nq=2, na=2, lattice="power", system="orthorhombic", compset="minimal", static="generic", weights="equal",
                  interpolator="spline", order=3,
                  qha=dict(T_MIN=0, NT=3, DT=400, DT_SAMPLE=400, NTV=27, DELTA_P=1.0, DELTA_P_SAMPLE=1.0)),
    # repeated branches: the last q-point lists the same frequencies as the one before it, two degenerate branches inside a q-point
    "dupq": dict(nv=5, nq=3, na=1, dupq=True, lattice="power", system="orthorhombic", compset="minimal", static="generic", weights="increasing",
                 qha=dict(T_MIN=0, NT=3, DT=500, DT_SAMPLE=500, NTV=25, DELTA_P=1.5, DELTA_P_SAMPLE=1.5)),
    # q-points whose printed coordinate labels coincide (few digits) while weights and frequencies differ
    "qlabel": dict(nv=5, nq=4, na=1, qlabels="collide", lattice="none", system="cubic", compset="minimal", static="cubicfit", weights="increasing",
                   qha=dict(T_MIN=0, NT=3, DT=500, DT_SAMPLE=500, NTV=25, DELTA_P=1.5, DELTA_P_SAMPLE=1.5)),
    # mixed shear constants with equal axial strains (no lattice block): column orders decide the task-creation order
    "trig": dict(nv=5, nq=2, na=1, lattice="none", system="trigonal7", declare=False, compset="nonzero", static="generic", weights="increasing",
                 qha=dict(T_MIN=0, NT=2, DT=800, DT_SAMPLE=800, NTV=21, DELTA_P=2.0, DELTA_P_SAMPLE=2.0)),
    # no system requested; c14 crosses zero and is tabulated as exactly 0.00 at the fourth volume (row orders put that row first)
    "zerocross": dict(nv=5, nq=2, na=1, lattice="power", system=None, compset="full21", static="generic", weights="increasing", zero_entry=[[1, 4], 3],
                      qha=dict(T_MIN=0, NT=2, DT=800, DT_SAMPLE=800, NTV=21, DELTA_P=2.0, DELTA_P_SAMPLE=2.0)),
    # a dense q-mesh (beyond any chunk size an implementation might use): 300 q-points x 3 modes
    "dense": dict(nv=5, nq=300, na=1, lattice="none", system="cubic", compset="minimal", static="cubicfit", weights="increasing",
                  qha=dict(T_MIN=0, NT=2, DT=900, DT_SAMPLE=900, NTV=21, DELTA_P=2.0, DELTA_P_SAMPLE=2.0)),
}
# the volume-block clause is checked for every documented interpolator (node-based ones sub-sample the volumes by position)
for _m, _o in (("lagrange", 3), ("krogh", 2), ("pchip", 3), ("akima", 3), ("hermite", 2), ("lsq_poly", 2), ("spline", 2)):
    BASES["vb-" + _m] = dict(nv=5, nq=2, na=1, lattice="none", system="cubic", compset="minimal", static="cubicfit", weights="increasing",
                             interpolator=_m, order=_o, qha=dict(T_MIN=0, NT=2, DT=900, DT_SAMPLE=900, NTV=21, DELTA_P=2.0, DELTA_P_SAMPLE=2.0))



def observe(d):
    from cij.core.calculator import Calculator
    c = Calculator(os.path.join(d, "settings.yaml"))
    out = {}
    for k in c.modulus_isothermal:
        nm = "c%d%d" % tuple(k.voigt)
        out[nm + "t"] = numpy.asarray(c.modulus_isothermal[k], float)
        out[nm + "s"] = numpy.asarray(c.modulus_adiabatic[k], float)
        out[nm + "s_tp"] = numpy.asarray(c.pressure_base.modulus_adiabatic[k], float)
    for nm in ("bulk_modulus_voigt_reuss_hill", "shear_modulus_voigt_reuss_hill", "primary_velocities", "volumes"):
        out[nm + "_tp"] = numpy.asarray(getattr(c.pressure_base, nm), float)
    return out


@functools.lru_cache(maxsize=16)
def base_observation(name):
    spec = BASES[name]
    with K.scratch() as d:
        synth.write(d, spec)
        return observe(d)


def transform(ds, tr):
    """returns (dataset, static-file keyword arguments) re-presenting the same physical data"""
    ds = copy.deepcopy(ds)
    kw = {}
    kind = tr["kind"]
    if kind == "qperm":          # q-points 2..n in another order, with their weights
        p = [0] + [i + 1 for i in tr["perm"]]
        ds["freqs"] = ds["freqs"][:, p, :]
        ds["weights"] = [ds["weights"][i] for i in p]
        ds["qcoords"] = [ds["qcoords"][i] for i in p]
    elif kind == "mperm":        # modes in another order within one q-point, consistently across volumes
        q = tr["q"]
        perm = list(tr["perm"])
        if q == 0:
            perm = [0, 1, 2] + [3 + i for i in perm]
        ds["freqs"][:, q, :] = ds["freqs"][:, q, perm]
    elif kind == "wscale":
        ds["weights"] = [w * tr["factor"] for w in ds["weights"]]
    elif kind == "cols":
        cols = list(ds["supplied"])
        kw["columns"] = [cols[i] for i in tr["perm"]]
        if tr.get("upper"):
            kw["names"] = {p: "C%d%d" % p for p in cols}
    elif kind == "upper":
        kw["names"] = {p: "C%d%d" % p for p in ds["supplied"]}
    elif kind == "rows":
        kw["rows"] = list(tr["perm"])
    elif kind == "vblocks":
        p = list(tr["perm"])
        ds["vols"] = ds["vols"][p]
        ds["energies"] = ds["energies"][p]
        ds["freqs"] = ds["freqs"][p]
        # the static table keeps its own row order (re-presented separately by kind "rows")
        ds["_static_rows_inverse"] = p
    else:
        raise HarnessError(f"unknown transformation {kind}")
    return ds, kw


def run_case(case):
    name, tr = case["base"], case["tr"]
    spec = BASES[name]
    try:
        base = base_observation(name)
    except Exception as ex:
        return {"viol": [V(f"c13:base-raises:{type(ex).__name__}", K.fmt_exc(ex))], "outcome": "base-raises"}
    ds0 = synth.make(spec)
    ds, kw = transform(ds0, tr)
    viol = []
    with K.scratch() as d:
        if tr["kind"] == "vblocks":
            # static file from the un-permuted data set, phonon file from the permuted one
            synth.write(d, spec, ds=ds0)
            with open(os.path.join(d, "input01"), "w") as fp:
                fp.write(synth.phonon_file_text(ds))
        else:
            synth.write(d, spec, ds=ds, **kw)
        try:
            obs = observe(d)
        except Exception as ex:
            if tr["kind"] == "vblocks":
                return {"viol": [], "outcome": f"vblocks-rejected:{type(ex).__name__}", "nontrivial": True}
            return {"viol": [V(f"c13:raises:{tr['kind']}:{type(ex).__name__}", f"re-presented data ({json.dumps(tr)}) raised {K.fmt_exc(ex)}")], "outcome": "raises"}
    if sorted(obs) != sorted(base):
        viol.append(V(f"c13:keys:{tr['kind']}", f"set of results differs: {sorted(set(obs) ^ set(base))}"))
    worst = 0.0
    for k in base:
        if k not in obs:
            continue
        a, b = base[k], obs[k]
        if a.shape != b.shape:
            viol.append(V(f"c13:shape:{tr['kind']}", f"{k}: {a.shape} vs {b.shape}"))
            continue
        scale = numpy.abs(a).max()
        dev = float(numpy.abs(a - b).max() / scale) if numpy.all(numpy.isfinite(b)) else float("inf")
        worst = max(worst, dev)
        if not dev <= TOL:
            sig = f"c13:differs:{tr['kind']}" + (":silently-different-numbers" if tr["kind"] == "vblocks" else "")
            viol.append(V(sig, f"{k} changes by {dev:.3e} of its scale under {json.dumps(tr)}"))
            break
    return {"viol": viol, "nontrivial": tr["kind"] != "identity", "outcome": f"same/{tr['kind']}" if not viol else viol[0]["sig"], "worst": worst}


def transformations(name, quick):
    spec = BASES[name]
    nq, na, nv = spec["nq"], spec["na"], spec["nv"]
    if name.startswith("vb-"):
        vb = list(itertools.permutations(range(nv)))
        if quick:
            ident = list(range(nv))
            vb = [tuple(ident[:i] + [ident[i + 1], ident[i]] + ident[i + 2:]) for i in range(nv - 1)] + [tuple(ident[::-1])] + \
                 [tuple(ident[i:] + ident[:i]) for i in range(1, nv)] + [(4, 2, 0, 3, 1), (0, 1, 2, 4, 3)]
        return [{"kind": "vblocks", "perm": list(p)} for p in vb if list(p) != list(range(nv))]
    if name == "dense":
        n = nq - 1
        ident = list(range(n))
        qs = [ident[::-1], ident[1:] + ident[:1], ident[100:] + ident[:100], ident[:254] + [ident[255], ident[254]] + ident[256:],
              ident[:63] + [ident[64], ident[63]] + ident[65:], ident[:127] + [ident[128], ident[127]] + ident[129:]]
        out = [{"kind": "qperm", "perm": p} for p in qs]
        out += [{"kind": "mperm", "q": q, "perm": [2, 1, 0]} for q in (1, 63, 64, 127, 128, 255, 256, 299)]
        out += [{"kind": "mperm", "q": q, "perm": [1, 2, 0]} for q in (64, 128, 256)]
        out += [{"kind": "wscale", "factor": 7.5}]
        return out
    npm = 3 * na
    ncol = len(synth.make(spec)["supplied"])
    out = []
    out += [{"kind": "qperm", "perm": list(p)} for p in itertools.permutations(range(nq - 1)) if list(p) != list(range(nq - 1))]
    for q in range(nq):
        n = npm - 3 if q == 0 else npm
        perms = list(itertools.permutations(range(n)))
        if quick and len(perms) > 30:
            ident = list(range(n))
            gens = [ident[:i] + [ident[i + 1], ident[i]] + ident[i + 2:] for i in range(n - 1)]
            gens += [ident[::-1]] + [ident[i:] + ident[:i] for i in range(1, n)]
            perms = [tuple(g) for g in gens]
        out += [{"kind": "mperm", "q": q, "perm": list(p)} for p in perms if list(p) != list(range(n))]
    out += [{"kind": "wscale", "factor": f} for f in (0.01, 7.5, 1e3, 1e-7, 1e-12, 2.0 ** -40, 1e9)]
    ident = list(range(ncol))
    if ncol <= 4:
        cperms = [list(p) for p in itertools.permutations(ident)]
    else:
        cperms = []
        for i, j in itertools.combinations(range(ncol), 2):
            p = list(ident)
            p[i], p[j] = p[j], p[i]
            cperms.append(p)
        cperms += [ident[i:] + ident[:i] for i in range(1, ncol)] + [ident[::-1]]
    out += [{"kind": "cols", "perm": p} for p in cperms if p != ident]
    out += [{"kind": "cols", "perm": cperms[-1], "upper": True}, {"kind": "upper"}]
    rows = list(itertools.permutations(range(nv)))
    if quick:
        ident = list(range(nv))
        rows = [tuple(ident[:i] + [ident[i + 1], ident[i]] + ident[i + 2:]) for i in range(nv - 1)] + [tuple(ident[::-1])] + \
               [tuple(ident[i:] + ident[:i]) for i in range(1, nv)]
    out += [{"kind": "rows", "perm": list(p)} for p in rows if list(p) != list(range(nv))]
    vb = list(itertools.permutations(range(nv)))
    if quick:
        vb = rows
    out += [{"kind": "vblocks", "perm": list(p)} for p in vb if list(p) != list(range(nv))]
    return out


def explore(ctx):
    ctx.rule = ("7 base data sets (a 21-column table whose c14 is exactly zero at one volume / q-points with coinciding coordinate labels / trigonal table with all 15 non-vanishing columns, no system requested and no lattice block / monoclinic 13 columns / cubic 3 columns / orthorhombic 9 columns with spline interpolation / one whose last q-point repeats the previous one's branches and that has degenerate branches), a dense "
                "300-q-point set (reversal, rotations, swaps around positions 64/128/256, mode orders at those q-points) and one small set per "
                "documented interpolator for the volume-block clause; "
                "re-presentations: all orders of q-points 2..n with weights, mode orders within each q-point (all n! in thorough, "
                "generators = adjacent transpositions, reversal, rotations in quick; at Gamma only the optical modes move), weight "
                "scale factors from 1e-12 to 1e9, static column orders (all for 3 columns; transpositions+rotations+reversal for 9/13), upper "
                "case, static row orders (all 120 thorough), phonon volume-block orders (all 120 thorough: same numbers or an error); "
                "each re-presented run compared with the base run on every modulus (T,V and T,P) and on K, G, v_p, V(T,P); "
                "non-trivial = every non-identity transformation")
    ctx.assumptions = ["equal to rounding = 1e-9 of the quantity's scale", "acoustic modes are identified by position (first three at the first q-point), so they are not moved"]
    cases = []
    for name in BASES:
        for tr in transformations(name, ctx.quick):
            cases.append({"base": name, "tr": tr})
    res = ctx.run(MOD, "run_case", cases, part="re-presentations", chunksize=4)
    ctx.run_under(MOD, "run_case", cases[:2] + cases[-1:], ("-O",))
    ctx.notes["worst_relative_change"] = max([r.get("worst", 0.0) for r in res if r.get("worst") is not None and r.get("worst") != float("inf")] or [0.0])
    ctx.exhaustive = not ctx.quick


def selftest():
    return True
