"""C05 — total modulus = interpolated static table + phonon part, end to end from files (mode A)."""
from collections import OrderedDict
import os

import numpy

from mc import synth, calc as K
from mc.explore import V, HarnessError, repo_root

ID = "C05"
MOD = "mc.props.c05"
RTOL = 1e-7

GRIDS = {
    "g0": {},
    "g1": {"NT": 2, "DT": 1000, "DT_SAMPLE": 1000, "NTV": 61, "DELTA_P": 0.5, "DELTA_P_SAMPLE": 0.5},
    "g2": {"NT": 6, "DT": 50, "DT_SAMPLE": 50, "T_MIN": 100, "NTV": 45, "DELTA_P": 0.7, "DELTA_P_SAMPLE": 0.7, "P_MIN": 2},
    "g3": {"volume_ratio": 1.3, "NTV": 51, "P_MIN": -3, "NT": 3},
    "g4": {"order": 4, "NTV": 47},          # 4th/5th-order finite-strain fit of F(T,V) in the QHA layer; the static
    "g5": {"order": 5, "NT": 2, "DT": 800, "DT_SAMPLE": 800},   # pressure of the property stays the cubic fit's
    "g6": {"NT": 67, "DT": 25, "DT_SAMPLE": 25, "NTV": 70},     # axes longer than 64 points (round 7: block / chunk logic lives beyond the small grids)
}
DIMS = OrderedDict([
    ("nv", [6, 4, 12]),
    ("shape", [[2, 1], [1, 2], [3, 2], [8, 10]]),
    ("lattice", ["none", "power", "tab", "nlc"]),
    ("system", [None] + synth.SYSTEMS + ["table:orthorhombic", "table:cubic", "table:hexagonal", "table:monoclinic"]),   # table:<s>: NO system requested, all 21 columns tabulated with the symmetry of <s> (explicit all-zero columns)
    ("compset", ["minimal", "nonzero", "full21"]),
    ("static", ["cubicfit", "generic"]),
    ("grid", ["g0", "g1", "g2", "g3", "g4", "g5", "g6"]),
    ("cwd", ["neutral", "decoy-inputs"]),
    ("rows", ["given", "reversed", "rotated"]),
    ("nm", [1, 2, 4]),                          # formula units per cell (header field of the phonon file)      # row order of the static table (lattice rows move with their volumes)
    ("weights", ["increasing", "equal", "scaled", "int", "zero-first", "zero-last"]),
    ("poly_degree", [2, 1]),
    ("pve", ["f", "E", "plus"]),
    ("static_nv", [None, 12, 4, 5]),      # the static table tabulated at its own volumes (another count than the phonon file's)        # number format of the P= V= E= header of each volume block (plain, exponent notation, explicit sign)
    ("lheader", [" lattice_a lattice_b lattice_c", "LATTICE_A LATTICE_B LATTICE_C", "a b c", "# lattice parameters (bohr)",
                 "lattice_a lattice_b lattice_c alpha beta gamma"]),    # the last one: three trailing columns (cell angles) after the axis lengths   # one-line header of the lattice block
])


def spec_of(case):
    s = {k: case[k] for k in ("nv", "lattice", "system", "compset", "static", "weights", "poly_degree")}
    s["nm"] = case.get("nm", 1)
    s["pve"] = case.get("pve", "f")
    s["static_nv"] = case.get("static_nv")
    s["declare"] = case.get("declare", True)
    s["nq"], s["na"] = case["shape"]
    s["qha"] = dict(GRIDS[case["grid"]])
    s["interpolator"], s["order"] = case.get("interpolator", "lsq_poly"), case.get("order", 3)
    return s


MARGIN = [0.0]


def compare(viol, sig, what, obs, ref_grid, ref_an, scale):
    obs = numpy.asarray(obs)
    if numpy.iscomplexobj(obs):
        viol.append(V(f"c05:complex:{sig}", f"{what} is complex"))
        return
    if obs.shape != ref_grid.shape:
        viol.append(V(f"c05:shape:{sig}", f"{what}: shape {obs.shape} expected {ref_grid.shape}"))
        return
    if not numpy.all(numpy.isfinite(obs)):
        viol.append(V(f"c05:nonfinite:{sig}", f"{what}: non-finite entries"))
        return
    tol = RTOL * (numpy.abs(ref_grid) + scale) + 2.0 * numpy.abs(ref_grid - ref_an)
    err_g, err_a = numpy.abs(obs - ref_grid), numpy.abs(obs - ref_an)
    MARGIN[0] = max(MARGIN[0], float((numpy.minimum(err_g, err_a) / tol).max()))
    bad = ~((err_g <= tol) | (err_a <= tol))
    if bad.any():
        idx = tuple(int(i) for i in numpy.argwhere(bad)[0])
        viol.append(V(f"c05:mismatch:{sig}", f"{what} at grid index {idx}: {float(obs[idx])!r}, reference {float(ref_grid[idx])!r} (tolerance {float(tol[idx]):.2e})"))


def run_case(case):
    from mc.ref import pipeline_ref as P
    spec = spec_of(case)
    viol = []
    MARGIN[0] = 0.0
    with K.scratch() as d, K.scratch() as elsewhere:
        nvr = spec.get("static_nv") or spec["nv"]
        rows = {"given": None, "reversed": list(range(nvr))[::-1], "rotated": list(range(2, nvr)) + [0, 1]}[case.get("rows", "given")]
        skw = {"lattice_header": case["lheader"]} if case.get("lheader") else {}
        if "alpha" in skw.get("lattice_header", ""):
            skw["lattice_extra"] = " 90.000000 90.000000 120.000000"
        ds, st = synth.write(d, spec, rows=rows, **skw)
        if case.get("cwd") == "decoy-inputs":
            # the process runs in a directory that holds same-named files of ANOTHER data set; the settings file is
            # addressed by absolute path, so the inputs next to it are the ones that must be read
            other = dict(spec, nv=5, lattice="none" if spec["lattice"] != "none" else "power", static="cubicfit" if spec["static"] != "cubicfit" else "generic",
                         wset="low", weights="equal")
            synth.write(elsewhere, other)
        try:
            from cij.core.calculator import Calculator
            with K.chdir(elsewhere):
                c = Calculator(os.path.join(d, "settings.yaml"))
            iso, adi = c.modulus_isothermal, c.modulus_adiabatic
        except Exception as ex:
            return {"viol": [V(f"c05:raises:{type(ex).__name__}", f"Calculator on a well-formed data set raised {K.fmt_exc(ex)}")], "outcome": "raises"}
        try:
            ref = P.Pipeline(d, repo_root(), laws=ds["laws"], fill=K.system_fill(ds["system"] if spec["declare"] else None))
        except Exception as ex:
            raise HarnessError(f"reference pipeline failed: {ex!r}")
        # wiring of the QHA layer: the same grid, pressures and heat capacity, bit for bit
        for name, o, r in (("v_array", c.v_array, ref.v), ("t_array", c.t_array, ref.t),
                           ("pressures", c.volume_base.pressures, ref.p_tv),
                           ("heat_capacity", c.qha_calculator.volume_base.heat_capacity, ref.cv)):
            if not numpy.array_equal(numpy.asarray(o), r):
                viol.append(V(f"c05:qha-wiring:{name}", f"{name} differs from an independently driven qha instance (max abs diff {float(numpy.abs(numpy.asarray(o) - r).max()) if numpy.shape(o) == r.shape else 'shape'})"))
        if viol:
            return {"viol": viol, "outcome": viol[0]["sig"]}
        pscale = float(numpy.abs(ref.ps_analytic).max())
        compare(viol, "static_pressure", "static pressure", c.static_p_array, ref.ps_grid, ref.ps_analytic, pscale)
        want = sorted(ref.filled)
        got = sorted(tuple(k.voigt) for k in iso)
        if got != want or sorted(tuple(k.voigt) for k in adi) != want:
            viol.append(V("c05:keys", f"components {got} expected {want} (system {ds['system']}, supplied {ds['supplied']})"))
        mods = ref.moduli([p for p in want if p in got])
        scale = float(numpy.abs(mods[(1, 1)][0] - mods[(1, 1)][4]).max()) if (1, 1) in mods else 1e-4
        byp = {tuple(k.voigt): k for k in iso}
        for p, (ig, ag, ia, aa, s) in mods.items():
            kind = "shear" if p[1] >= 4 else ("long" if p[0] == p[1] else "off")
            compare(viol, f"isothermal:{kind}", f"c{p[0]}{p[1]} isothermal", iso[byp[p]], ig, ia, scale)
            compare(viol, f"adiabatic:{kind}", f"c{p[0]}{p[1]} adiabatic", adi[byp[p]], ag, aa, scale)
        if case.get("meta") and not viol:
            # phonon part independent of the tabulated static values: scale the table by 1.37
            with K.scratch() as d2:
                synth.write(d2, spec, ds=ds, scale=1.37, rows=rows, **skw)
                c2 = Calculator(os.path.join(d2, "settings.yaml"))
                for p in mods:
                    ph1 = numpy.asarray(iso[byp[p]]) - mods[p][4]
                    k2 = [k for k in c2.modulus_isothermal if tuple(k.voigt) == p][0]
                    ph2 = numpy.asarray(c2.modulus_isothermal[k2]) - 1.37 * mods[p][4]
                    if not numpy.all(numpy.abs(ph1 - ph2) <= 1e-9 * (numpy.abs(mods[p][4]) * 2.37 + scale)):
                        viol.append(V("c05:phonon-depends-on-static", f"c{p[0]}{p[1]}: total - static changes by {float(numpy.abs(ph1 - ph2).max())!r} when the static table is scaled by 1.37"))
                        break
    nshear = sum(1 for p in want if p[1] >= 4)
    return {"viol": viol, "nontrivial": True, "outcome": f"ok/{len(want)}keys/{nshear}shear" if not viol else viol[0]["sig"],
            "margin": MARGIN[0]}


VARIANTS = {"none": {}, "cubic": {"system": "cubic"}, "hex": {"system": "hexagonal"}, "tetra7": {"system": "tetragonal7"},
            "ortho": {"system": "orthorhombic"}, "ortho-spline": {"system": "orthorhombic", "interpolator": "spline", "order": 3}}


def run_history(case):
    """process history: several Calculators built one after the other in ONE process on the SAME input files with different
    settings files (crystal system, interpolator); each must equal the reference for its own settings."""
    from mc.ref import pipeline_ref as P
    import yaml
    from cij.core.calculator import Calculator
    base = dict(nv=6, nq=2, na=1, lattice="power", system=None, compset="full21", static="generic", weights="increasing", poly_degree=2,
                qha=dict(GRIDS["g0"]))
    viol = []
    with K.scratch() as d:
        # a full 21-column table that is isotropic (hence consistent with every system) up to small (< tolerance) deviations,
        # so that every system's filling is accepted and CHANGES the table slightly (least-squares adjustment)
        ds = synth.make(dict(base, system="cubic", compset="full21"))
        for p in synth.PAIRS21:
            if p[0] == p[1] and p[0] >= 4:
                ds["table"][p] = (ds["table"][(1, 1)] - ds["table"][(1, 2)]) / 2
        for n, p in enumerate(synth.PAIRS21):
            ds["table"][p] = ds["table"][p] + 0.01 * ((n % 5) - 2)
        synth.write(d, base, ds=ds)
        for n, vname in enumerate(case["seq"]):
            var = VARIANTS[vname]
            st = synth.settings_dict(dict(base, **{k: v for k, v in var.items() if k != "system"}, system=var.get("system")))
            sname = f"settings-{n}.yaml"
            with open(os.path.join(d, sname), "w") as fp:
                yaml.safe_dump(st, fp)
            try:
                c = Calculator(os.path.join(d, sname))
            except Exception as ex:
                viol.append(V(f"c05:history:raises:{type(ex).__name__}", f"step {n} ({vname}) of {case['seq']}: {K.fmt_exc(ex)}"))
                break
            # reference: static part = own fill of the tabulated values by least squares onto the system's invariant subspace
            got = {tuple(k.voigt): numpy.asarray(a, float) for k, a in c.modulus_isothermal.items()}
            fresh = fresh_observation(d, sname, vname, case.get("fresh_file"))
            if sorted(got) != sorted(fresh):
                viol.append(V("c05:history:keys", f"step {n} ({vname}) of {case['seq']}: components {sorted(got)} vs a fresh process {sorted(fresh)}"))
                break
            for p in got:
                if not numpy.all(numpy.abs(got[p] - fresh[p]) <= 1e-12 * numpy.abs(fresh[p]).max()):
                    viol.append(V("c05:history:differs-from-fresh-process", f"step {n} ({vname}) of {case['seq']}: c{p[0]}{p[1]} differs from the same calculation in a fresh process by {float(numpy.abs(got[p] - fresh[p]).max() / numpy.abs(fresh[p]).max()):.2e}"))
                    break
            if viol:
                break
            if case.get("collect"):
                return {"viol": [], "fresh": {"%d%d" % p: a.tolist() for p, a in fresh.items()}}
    return {"viol": viol, "nontrivial": len(case["seq"]) > 1, "outcome": "history-ok" if not viol else viol[0]["sig"]}


_FRESH = {}


def fresh_observation(d, sname, vname=None, fresh_file=None):
    """the same settings in a fresh interpreter (cached per variant: the data set is the same for every history); explore()
    precomputes them once into `fresh_file`, a replay without that file recomputes"""
    import json
    import subprocess
    import sys
    import yaml
    key = open(os.path.join(d, sname)).read()
    if key not in _FRESH and fresh_file and os.path.exists(fresh_file):
        with open(fresh_file) as fp:
            allv = json.load(fp)
        if vname in allv:
            _FRESH[key] = {(int(k[0]), int(k[1])): numpy.array(v) for k, v in allv[vname].items()}
    if key not in _FRESH:
        code = ("import sys, json, numpy; sys.path.insert(0, %r); from cij.core.calculator import Calculator; c = Calculator(%r); "
                "print(json.dumps({'%%d%%d' %% tuple(k.voigt): numpy.asarray(a).tolist() for k, a in c.modulus_isothermal.items()}))") % (repo_root(), os.path.join(d, sname))
        r = subprocess.run([sys.executable, "-B", "-W", "ignore", "-c", code], capture_output=True, text=True)
        if r.returncode != 0:
            raise HarnessError("fresh-process reference run failed: " + r.stderr[-300:])
        _FRESH[key] = {(int(k[0]), int(k[1])): numpy.array(v) for k, v in json.loads(r.stdout.strip().splitlines()[-1]).items()}
    return _FRESH[key]


def canon(case):
    c = dict(case)
    c["declare"] = True
    if str(c["system"]).startswith("table:"):
        c["system"], c["declare"] = c["system"][6:], False
        c["compset"] = "full21" if c["compset"] != "nonzero" else "nonzero"   # without a requested system only a complete tensor is well-formed
    if c["system"] in (None, "triclinic"):
        if c["compset"] == "nonzero":
            c["compset"] = "full21"
    if c["weights"].startswith("zero") and (c["shape"][0] < 2 or (c["weights"] == "zero-last" and c["shape"][0] < 3 and c["shape"][1] < 2)):
        c["weights"] = "increasing"           # some weighted optical / non-Gamma mode must remain (otherwise C_V = 0 everywhere)
    if c.get("static_nv") == c["nv"]:
        c["static_nv"] = None
    if c["lattice"] == "none":
        c["lheader"] = DIMS["lheader"][0]
    return c


def explore(ctx):
    ctx.rule = ("mode A: BFS over the deviation lattice of data-set and configuration alphabets (volumes, shape, lattice block, "
                "10 system settings (declared, or only built into the table: explicit all-zero columns without a requested system), 4 spellings of the lattice block's header line, component set, static-table kind, 6 grids incl. QHA fit order 4 and 5, working directory with decoy "
                "same-named inputs, weights, spectrum degree); every configuration is a "
                "real Calculator run on generated files compared with pipeline_ref (own parsers, own V*c fit, own strain rule, own "
                "qha instance, sam_ref); level-<=1 configurations also re-run with the static table scaled by 1.37; mode B: all ordered pairs "
                "(triples thorough) of 6 settings variants (system / interpolator) run one after the other in ONE process on the SAME "
                "input files, each compared with the same settings in a fresh interpreter; non-trivial = all")
    ctx.assumptions = ["qha 1.1.3 trusted as a library (its grid, P(T,V), C_V)", "spectra are polynomial in ln V of degree <= interpolation order, so the interpolant is exact",
                       "tolerance 1e-7 + twice the reference's own analytic-vs-grid difference for finite-difference pieces (strain fractions, static pressure)"]
    dims = OrderedDict((k, list(v)) for k, v in DIMS.items())
    bound = 2 if ctx.quick else 3
    cases = []
    from mc.explore import lattice
    seen = set()
    edges = 0
    from mc.explore import case_key
    for cfg, k in lattice(dims, bound):
        c = canon(dict(cfg))
        c["meta"] = k <= 1
        key = case_key(c)
        edges += max(k, 1)
        if key in seen:
            continue
        seen.add(key)
        cases.append(c)
    ctx.exhaustive = False
    ctx.notes["lattice"] = {"dims": {k: len(v) for k, v in dims.items()}, "bound": bound, "configs": len(cases)}
    res = ctx.run(MOD, "run_case", cases, part=f"lattice<={bound}", transitions=edges, chunksize=2)
    ctx.run_under(MOD, "run_case", cases[:1] + [c for c in cases if c["system"] == "monoclinic" and c["lattice"] != "none"][:2], ("-O",))
    import itertools
    seqs = [list(p) for p in itertools.permutations(VARIANTS, 2)] + ([list(p) for p in itertools.permutations(VARIANTS, 3)] if not ctx.quick else
                                                                      [["cubic", "none", "cubic"], ["none", "hex", "none"], ["ortho-spline", "ortho", "none"]])
    import json
    import tempfile
    from concurrent.futures import ThreadPoolExecutor
    import logging
    logging.disable(logging.CRITICAL)
    fresh_file = tempfile.mktemp(prefix="cij-c05-fresh-", suffix=".json", dir="/dev/shm")
    try:
        with ThreadPoolExecutor(6) as ex:
            outs = list(ex.map(lambda v: run_history({"seq": [v], "collect": True}), list(VARIANTS)))
        with open(fresh_file, "w") as fp:
            json.dump({v: o.get("fresh", {}) for v, o in zip(VARIANTS, outs)}, fp)
        ctx.run(MOD, "run_history", [{"seq": sq, "fresh_file": fresh_file} for sq in seqs], part="same-files-histories", chunksize=2,
                transitions=sum(len(q) for q in seqs))
    finally:
        if os.path.exists(fresh_file):
            os.remove(fresh_file)
    ctx.notes["worst_error_over_tolerance"] = max([r.get("margin", 0.0) for r in res] or [0.0])


def selftest():
    from mc.ref import sam_ref
    return sam_ref.selftest()
