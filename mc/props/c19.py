"""C19 — `cij extract` / `cij extract-geotherm` return table values faithfully (mode A).

Tables x(T,P) are written in the qha `save_x_tp` layout from analytic functions (mc.ref.tables_ref;
one distinct function per variable, asymmetric under T<->P, all rows and all columns distinct), the
commands are run in-process (click CliRunner on cij.cli.cij.main) in a per-case directory under
/dev/shm, and their stdout is parsed by an independent parser.

Oracles
  extract      printed column of variable x == row of x's table at the nearest temperature (or column at
               the nearest pressure), to half a unit in the last printed digit; labels == the other
               coordinate's grid; one column per requested variable, in the requested order.
  geotherm     node of the grid: the table entry (1e-9 rel + print precision); bicubic polynomial: exact
               everywhere (1e-9 of the table's scale + print precision); generic smooth function: error
               <= cubic-spline bound at every level of the ladder 21->41->81 (pointwise), largest error
               over the path decreasing along the ladder, and <= 25 % of the local cell variation at the
               finest level (DESIGN section 5);
               the geotherm's own columns unchanged, in order, followed by one column per variable.
"""
import math
import os
import shutil
import tempfile
from collections import OrderedDict

import numpy as np

from mc.explore import V, HarnessError
from mc.ref import tables_ref as R

ID = "C19"
MOD = "mc.props.c19"

RANGES = {"R1": (0.0, 2000.0, 0.0, 40.0),      # T and P ranges overlap only partially
          "R2": (0.0, 40.0, 0.0, 40.0),        # T and P ranges coincide numerically
          "R3": (300.0, 2300.0, 10.0, 50.0)}   # first grid values are not zero (extract: 0 is "below first")
GRIDS = {"41x41": (41, 41), "81x41": (81, 41), "21x21": (21, 21), "81x81": (81, 81)}
IJ_SMALL = [(1, 1), (1, 2), (4, 4)]
ALLDOC = R.documented_tp_files()
KIDX = {var: k for k, (var, _) in enumerate(ALLDOC)}
FNAME = dict(ALLDOC)
VARSETS = {1: ["c11s"], 2: ["v_p", "c44s"], 5: ["bm_VRH", "c12s", "v", "G_V", "c11t"]}
UNKNOWN_VARS = ["bm", "G", "vp", "vs", "B_V", "V", "c11", "cij"]   # help-text examples / writer keywords, no such file
LADDER = [21, 41, 81]
RTOL = 1e-9

_TEXT = {}


# --------------------------------------------------------------------------- directories of tables

def _text(kind, k, dom, nT, nP):
    key = (kind, k, tuple(dom), nT, nP)
    if key not in _TEXT:
        Tg, Pg = R.grid(dom[0], dom[1], nT), R.grid(dom[2], dom[3], nP)
        _TEXT[key] = R.format_table(Tg, Pg, R.Fn(kind, k, dom).table(Tg, Pg).tolist())
        if len(_TEXT) > 600:
            _TEXT.pop(next(iter(_TEXT)))
    return _TEXT[key]


def _cached_file(kind, k, dom, nT, nP):
    """During explore() the table texts (a pure function of the key) are shared between the worker
    processes through a scratch directory and hard-linked into the per-case directories; without it
    (replay) the text is generated in memory.  The content is identical either way."""
    cd = os.environ.get("C19_TABLE_CACHE")
    if not cd or not os.path.isdir(cd):
        return None
    p = os.path.join(cd, "%s-%d-%s-%dx%d.txt" % (kind, k, "_".join("%g" % x for x in dom), nT, nP))
    if not os.path.exists(p):
        tmp = "%s.%d.tmp" % (p, os.getpid())
        with open(tmp, "w") as fp:
            fp.write(_text(kind, k, dom, nT, nP))
        os.replace(tmp, p)
    return p


def _dir_files(dirset, koff=0):
    """file name -> function index k, for the documented pressure-base files of the directory and the
    decoys that must never be picked (volume-base files, qha's P-T layout, prefixed names).  `koff`
    shifts every index: the same file names with different tables (another directory, a rewritten table)."""
    docs = R.documented_tp_files(IJ_SMALL if dirset == "small" else None)
    files = OrderedDict((fname, KIDX[var] + koff) for var, fname in docs)
    for n, fname in enumerate(R.documented_tv_files()):
        files[fname] = 200 + n + koff
    files["c11s_pt_gpa.txt"] = 300 + koff
    files["xc11s_tp_gpa.txt"] = 301 + koff
    files["tp_c11s_gpa.txt"] = 302 + koff
    return files


def _put_table(path, kind, k, dom, nT, nP):
    if os.path.lexists(path):
        os.remove(path)          # never write through a hard link into the shared cache
    src = _cached_file(kind, k, dom, nT, nP)
    if src is not None:
        try:
            os.link(src, path)
            return
        except OSError:
            pass
    with open(path, "w") as fp:
        fp.write(_text(kind, k, dom, nT, nP))


def _populate(d, kind, dom, nT, nP, dirset, writer="ref", qha_vars=(), koff=0):
    """Fill directory d; with writer == "qha" the tables of `qha_vars` are written by qha's own
    save_x_tp (trusted base, DESIGN section 5) instead of the reference writer."""
    files = _dir_files(dirset, koff)
    by_qha = {FNAME[v] for v in qha_vars} if writer == "qha" else set()
    if by_qha:
        from qha.basic_io.out import save_x_tp
        Tg, Pg = R.grid(dom[0], dom[1], nT), R.grid(dom[2], dom[3], nP)
        Tpad = np.array(list(Tg) + [Tg[-1] + 1.0 + i for i in range(4)])   # save_x_tp drops the last 4 rows
    for fname, k in files.items():
        path = os.path.join(d, fname)
        if fname in by_qha:
            Z = R.Fn(kind, k, dom).table(Tg, Pg)
            save_x_tp(np.vstack([Z, np.zeros((4, nP))]), Tpad, np.array(Pg), np.array(Pg), path)
            continue
        _put_table(path, kind, k, dom, nT, nP)
    with open(os.path.join(d, "settings.yaml"), "w") as fp:
        fp.write("# decoy\n")
    return files


def _entries(d, var):
    """The table of `var` as written on disk (independent reader)."""
    with open(os.path.join(d, FNAME[var])) as fp:
        T, P, Z = R.parse_table_text(fp.read())
    return np.array(T), np.array(P), np.array(Z)


def _invoke(cwd, args):
    from click.testing import CliRunner
    from cij.cli.cij import main
    old = os.getcwd()
    os.chdir(cwd)
    try:
        res = CliRunner().invoke(main, args)
    finally:
        os.chdir(old)
    return res.exit_code, res.exception, res.stdout


def _cap(viol, keep=3):
    """At most `keep` records per signature and case (a wrong spline call fails at every point)."""
    out, n = [], {}
    for v in viol:
        n[v["sig"]] = n.get(v["sig"], 0) + 1
        if n[v["sig"]] <= keep:
            out.append(v)
    for v in out:
        if n[v["sig"]] > keep:
            v["msg"] += f" [{n[v['sig']]} such records in this case]"
    return out


def _close(tokens, values, rtol=1e-13):
    """Every printed token equals the value to half a unit of its last printed digit."""
    for t, v in zip(tokens, values):
        if not abs(float(t) - v) <= R.half_ulp(t) * (1 + 1e-9) + rtol * abs(v):
            return False
    return True


# --------------------------------------------------------------------------- extract

def _request(grid, req):
    """Requested coordinate and the index the statement selects (None = tie, nothing to assert)."""
    n = len(grid)
    h = grid[1] - grid[0]
    kind = req["kind"]
    pos = req.get("pos")
    pos = pos if isinstance(pos, int) else {"first": 0, "inner": 13, "last": n - 1, "lastcell": n - 2}.get(pos)
    if kind == "node":
        return grid[pos], pos
    if kind in ("mid-", "mid+", "mid0"):
        mid = 0.5 * (grid[pos] + grid[pos + 1])
        eps = h / req.get("inv_eps", 8)
        if kind == "mid-":
            return mid - eps, pos
        if kind == "mid+":
            return mid + eps, pos + 1
        return mid, None
    if kind == "literal":                       # the text is passed to the command verbatim
        y = float(req["text"])
        k, unamb = R.nearest_index(grid, y)
        return y, (k if unamb else None)
    if kind == "below":
        return grid[0] - 3.7 * h, 0
    if kind == "above":
        return grid[-1] + 3.7 * h, n - 1
    raise HarnessError(f"unknown request {req}")


def _fmt(y):
    return repr(float(y))


def _classify_extract(tokens, d, var, axis, dirvars, elsewhere=()):
    """Which wrong thing was printed (for the signature)."""
    for label, d2 in elsewhere:
        T2, P2, Z2 = _entries(d2, var)
        l2 = Z2 if axis == "T" else Z2.T
        if len(tokens) == l2.shape[1]:
            for r in range(l2.shape[0]):
                if _close(tokens, l2[r]):
                    return label, r
    T, P, Z = _entries(d, var)
    lines = Z if axis == "T" else Z.T
    other = Z.T if axis == "T" else Z
    if len(tokens) == lines.shape[1]:
        for r in range(lines.shape[0]):
            if _close(tokens, lines[r]):
                return "other-%s" % ("row" if axis == "T" else "column"), r
    if len(tokens) == other.shape[1]:
        for r in range(other.shape[0]):
            if _close(tokens, other[r]):
                return "wrong-axis-%s" % ("column" if axis == "T" else "row"), r
    for v2 in dirvars:
        if v2 == var:
            continue
        T2, P2, Z2 = _entries(d, v2)
        l2 = Z2 if axis == "T" else Z2.T
        if len(tokens) == l2.shape[1]:
            for r in range(l2.shape[0]):
                if _close(tokens, l2[r]):
                    return "other-variable", f"{v2}[{r}]"
    return "unexplained", None


def _check_extract_output(out, d, variables, axis, want, hide, reqname, viol, dirvars, tag="c19:extract", elsewhere=()):
    """Compare one stdout table with the statement; returns the number of value columns compared."""
    tagp = f"{tag}:{axis}"
    try:
        tab = R.parse_stdout(out, header=not hide, has_index=True)
    except ValueError as e:
        viol.append(V(f"{tagp}:unparsable", f"stdout is not a numeric table ({e}): {out[:200]!r}"))
        return 0
    if not hide and tab["names"] != list(variables):
        viol.append(V(f"{tagp}:header", f"header {tab['names']} != requested variables {variables}"))
    if len(tab["cols"]) != len(variables):
        viol.append(V(f"{tagp}:column-count", f"{len(tab['cols'])} value columns for {len(variables)} variables"))
        return 0
    T, P, _ = _entries(d, variables[0])
    labels = P if axis == "T" else T
    same = T if axis == "T" else P
    if tab["nrow"] != len(labels):
        cls = "same-axis-length" if tab["nrow"] == len(same) else "other"
        viol.append(V(f"{tagp}:row-count:{cls}", f"{tab['nrow']} rows printed, the other coordinate has {len(labels)} values"))
    elif not _close(tab["labels"], labels):
        cls = "same-axis-grid" if len(same) == len(labels) and _close(tab["labels"], same) else "other"
        viol.append(V(f"{tagp}:labels:{cls}", f"row labels {tab['labels'][:4]}.. are not the "
                      f"{'pressures' if axis == 'T' else 'temperatures'} {list(labels[:4])}.."))
    n = 0
    for var, col in zip(variables, tab["cols"]):
        Tv, Pv, Z = _entries(d, var)
        exp = Z[want, :] if axis == "T" else Z[:, want]
        n += 1
        if len(col) == len(exp) and _close(col, exp):
            continue
        cls, which = _classify_extract(col, d, var, axis, dirvars, elsewhere)
        viol.append(V(f"{tagp}:{reqname}:{cls}",
                      f"{var}: printed {col[:3]}.. expected {axis}-index {want}: {['%.6f' % x for x in exp[:3]]}..; "
                      f"printed values are {cls} {which}"))
    return n


def run_extract(case):
    dom = RANGES[case["range"]]
    nT, nP = GRIDS[case["grid"]]
    axis = case["axis"]
    variables = list(VARSETS[case["nvars"]])
    if case.get("order") == "rev":
        variables.reverse()
    if case.get("vars"):
        variables = list(case["vars"])
    hide = bool(case.get("hide"))
    dirset = case.get("dirset", "small")
    Tg, Pg = R.grid(dom[0], dom[1], nT), R.grid(dom[2], dom[3], nP)
    grid = Tg if axis == "T" else Pg
    viol, outcomes, compared, asserted = [], [], 0, 0
    d = tempfile.mkdtemp(prefix="c19-", dir="/dev/shm")
    try:
        files = _populate(d, "poly3", dom, nT, nP, dirset, case.get("writer", "ref"), variables)
        dirvars = [v for v, f in ALLDOC if f in files]
        listing = sorted(os.listdir(d))
        for var in variables:
            m = R.glob_matches(var, listing)
            if len(m) != 1:
                viol.append(V(f"c19:glob:ambiguous:{var}",
                              f"documented pattern '{var}_tp_*' selects {m} among the documented files; "
                              f"minimal directory: {m}"))
        if any(v["sig"].startswith("c19:glob:ambiguous") for v in viol):
            return {"viol": viol, "outcome": "ambiguous-name"}
        for req in case["reqs"]:
            y, want = _request(grid, req)
            k, unamb = R.nearest_index(grid, y)
            if (want is None) == unamb or (want is not None and k != want):
                raise HarnessError(f"request {req} on {case['grid']}: constructed index {want}, reference {k}/{unamb}")
            reqname = req["kind"] if req["kind"] != "literal" else "literal(%s)" % req["text"]
            args = ["extract", "-v", ",".join(variables), "-" + axis, req.get("text") or _fmt(y)] + (["-h"] if hide else [])
            code, exc, out = _invoke(d, args)
            if code != 0 or exc is not None:
                viol.append(V(f"c19:extract:{axis}:crash:{type(exc).__name__}",
                              f"{' '.join(args)} -> exit {code}, {exc!r}"))
                outcomes.append("crash")
                continue
            if want is None:
                # exactly half way: either neighbour is "nearest"; nothing asserted, behaviour recorded
                tab = R.parse_stdout(out, header=not hide, has_index=True)
                Tv, Pv, Z = _entries(d, variables[0])
                pos = {"inner": 13}[req["pos"]]
                lo = Z[pos, :] if axis == "T" else Z[:, pos]
                hi = Z[pos + 1, :] if axis == "T" else Z[:, pos + 1]
                outcomes.append("tie->lower" if _close(tab["cols"][0], lo) else
                                "tie->upper" if _close(tab["cols"][0], hi) else "tie->neither")
                continue
            asserted += 1
            nv = len(viol)
            compared += _check_extract_output(out, d, variables, axis, want, hide, reqname, viol, dirvars)
            outcomes.append(f"{reqname}:{'ok' if len(viol) == nv else 'bad'}")
    finally:
        shutil.rmtree(d, ignore_errors=True)
    label = f"extract-{axis}:" + ",".join(sorted(set(outcomes)))
    return {"viol": viol, "outcome": label, "nontrivial": asserted > 0 and compared > 0, "compared": compared}


def run_unknown(case):
    """Names that are not the stem of a documented file (help-text examples `bm`, `G`; writer keywords):
    the statement has no row to return for them; a numeric table on exit 0 would be numbers from some
    other variable's file."""
    dom = RANGES["R1"]
    d = tempfile.mkdtemp(prefix="c19-", dir="/dev/shm")
    viol = []
    try:
        _populate(d, "poly3", dom, 41, 41, "small")
        var = case["var"]
        if R.glob_matches(var, sorted(os.listdir(d))):
            raise HarnessError(f"{var} does match a file")
        code, exc, out = _invoke(d, ["extract", "-v", var, "-T", "650.0"])
        ok_table = False
        if code == 0 and exc is None:
            try:
                R.parse_stdout(out, header=True, has_index=True)
                ok_table = True
            except ValueError:
                pass
        if ok_table:
            viol.append(V(f"c19:extract:unknown-variable-answered:{var}",
                          f"'{var}' has no table in the directory but a table was printed: {out[:120]!r}"))
        outcome = "answered" if ok_table else f"refused:{type(exc).__name__}"
    finally:
        shutil.rmtree(d, ignore_errors=True)
    return {"viol": viol, "outcome": outcome, "nontrivial": False}


# --------------------------------------------------------------------------- geotherm

_HELP = ["--t-col", "pres", "--p-col", "temp"]          # explicit options used as their help texts say
# a geotherm layout = ([(column name, role)], extra options); roles: P, T = the geotherm's pressure and
# temperature; D, n = passthrough; p, t = passthrough columns whose *names* differ from the P / T
# column's only by letter case (model time `t`, density-like `p`), with values far outside the table.
LAYOUTS = {
    "L0": ([("P", "P"), ("T", "T"), ("D", "D")], []),
    "L1": ([("D", "D"), ("T", "T"), ("n", "n"), ("P", "P")], []),
    "L2": ([("depth", "D"), ("pres", "P"), ("temp", "T")], _HELP),
    "L3": ([("t", "t"), ("D", "D"), ("P", "P"), ("T", "T"), ("p", "p")], []),
    "LN": ([("depth", "D"), ("pres", "P"), ("temp", "T")], ["--t-col", "temp", "--p-col", "pres"]),   # as the option *names* say
}
HEADER_FAMILIES = OrderedDict([
    ("PTDt", ([("P", "P"), ("T", "T"), ("D", "D"), ("t", "t")], [])),
    ("PTpt", ([("P", "P"), ("T", "T"), ("p", "p"), ("t", "t")], [])),
    ("pres-temp-depth-TEMP", ([("pres", "P"), ("temp", "T"), ("depth", "D"), ("TEMP", "t")], _HELP)),
    ("pres-temp-PRES-TEMP", ([("pres", "P"), ("temp", "T"), ("PRES", "p"), ("TEMP", "t")], _HELP)),
    ("PRES-TEMP-pres-temp", ([("PRES", "P"), ("TEMP", "T"), ("pres", "p"), ("temp", "t")],
                             ["--t-col", "PRES", "--p-col", "TEMP"])),
])
OFFS = [(0.26, 0.74), (0.5, 0.5), (0.74, 0.26), (0.5, 0.13), (0.9, 0.5)]


def _layout(case):
    if "family" in case:
        spec, opts = HEADER_FAMILIES[case["family"]]
        if sorted(case["perm"]) != list(range(len(spec))):
            raise HarnessError(f"bad permutation {case['perm']}")
        return [spec[i] for i in case["perm"]], list(opts)
    spec, opts = LAYOUTS[case["layout"]]
    return list(spec), list(opts)


def geotherm_path(dom, kind, npts):
    """Deterministic geotherm-like path inside the tabulated range: list of (P, T, on_node).  Node
    points lie on the 21x21 lattice contained in every grid used (21, 41, 81 nodes per axis); the other
    points are displaced by fractions of the *finest* cell, so they are nodes of no grid used."""
    T0, T1, P0, P1 = dom
    HT, HP = (T1 - T0) / 20, (P1 - P0) / 20
    hT, hP = (T1 - T0) / 80, (P1 - P0) / 80
    # kind = "<placement>" (a geotherm: P and T increasing) or "<shape>:<placement>" with a non-monotonic shape:
    #   cycle   heating-cooling at one pressure: (P*, T low) -> (P*, T high) -> back; first row == last row
    #   loop    a closed loop in the P-T plane (compression-decompression and heating-cooling out of phase)
    #   zigzagP pressure jumping between the two ends of the range, ends of the file close together
    shape, _, kind = kind.rpartition(":")
    shape = shape or "geotherm"
    if npts == 1:
        ips = [7]
    elif npts == 3:
        ips = [2, 9, 17]
    else:
        ips = [int(round(i * 20 / (npts - 1))) for i in range(npts)]
    jts = [int(round(18 * (ip / 20) ** 0.5)) for ip in ips]
    if shape == "cycle":
        ips = [10] * npts
        jts = [3] if npts == 1 else [1 + int(round(18 * (1 - abs(2 * i / (npts - 1) - 1)))) for i in range(npts)]
    elif shape == "loop":
        ang = [0.0] if npts == 1 else [2 * math.pi * i / (npts - 1) for i in range(npts)]
        ips = [10 + int(round(8 * math.cos(a))) for a in ang]
        jts = [10 + int(round(8 * math.sin(a))) for a in ang]
    elif shape == "zigzagP":
        ips = [2 + (i // 2) % 8 if i % 2 == 0 else 18 - (i // 2) % 8 for i in range(npts)]
        jts = [int(round(18 * (ip / 20) ** 0.5)) for ip in ips]
    elif shape != "geotherm":
        raise HarnessError(f"unknown path shape {shape}")
    pts = []
    for i, (ip, jt) in enumerate(zip(ips, jts)):
        P, T = P0 + ip * HP, T0 + jt * HT
        between = kind == "between" or (kind == "mixed" and i % 2 == 1)
        if between:
            fP, fT = OFFS[i % len(OFFS)]
            if kind == "mixed" and i % 4 == 3:
                fT = 0.0                                  # on a temperature node, between pressure nodes
            P = P + fP * hP if ip < 20 else P - fP * hP
            T = T + fT * hT if jt < 20 else T - fT * hT
        pts.append((round(P, 6), round(T, 6), not between))
    if shape in ("cycle", "loop") and npts > 1:
        pts[-1] = pts[0]                              # closed: the file ends on the row it started with
    return pts


def _geotherm_rows(spec, pts):
    """Rows of the geotherm file and, per point, the value of every role."""
    rows, byrole = [], []
    for i, (P, T, _) in enumerate(pts):
        vals = {"P": P, "T": T, "D": round(6371.0 - 57.25 * i - 0.125 * i * i, 3), "n": 7 * i + 3,
                "t": -1000.5 - 3.0 * i, "p": 50000.25 + 7.0 * i}     # clamp to opposite edges: told apart
        rows.append([vals[role] for _, role in spec])
        byrole.append(vals)
    return rows, byrole


ROW_ORDERS = ["asis", "dup-first", "dup-middle", "dup-last", "dup-two", "dup-apart", "same-PT-other-passthrough",
              "reversed", "zigzag", "P-decreasing"]


def _arrange(spec, pts, rows, byrole, how):
    """The multiset and order of the rows of the geotherm file.  The statement is per row: output row k
    carries the file's row k and the value at ITS (P,T); a file may list a point twice (a discontinuity),
    need not be monotonic, and may come deepest-first."""
    n = len(pts)
    idx = list(range(n))
    if how == "asis":
        pass
    elif how == "dup-first":
        idx = [0] + idx
    elif how == "dup-middle":
        idx = idx[:n // 2 + 1] + idx[n // 2:]
    elif how == "dup-last":
        idx = idx + [n - 1]
    elif how == "dup-two":
        a, b = n // 3, (2 * n) // 3
        idx = idx[:a + 1] + idx[a:b + 1] + idx[b:]
    elif how == "dup-apart":
        idx = idx + [0]                                  # an exact repeat that is not adjacent
    elif how == "same-PT-other-passthrough":
        idx = idx[:n // 2 + 1] + [("mod", n // 2)] + idx[n // 2 + 1:]
    elif how == "reversed":
        idx = idx[::-1]
    elif how == "zigzag":
        idx = [idx[i // 2] if i % 2 == 0 else idx[n - 1 - i // 2] for i in range(n)]
    elif how == "P-decreasing":
        idx = sorted(idx, key=lambda i: (-pts[i][0], i))
    else:
        raise HarnessError(f"unknown row order {how}")
    P2, R2, B2 = [], [], []
    for i in idx:
        if isinstance(i, tuple):
            i = i[1]
            vals = dict(byrole[i])
            vals.update({"D": vals["D"] + 0.5, "n": vals["n"] + 1, "t": vals["t"] - 0.5, "p": vals["p"] + 0.5})
            P2.append(pts[i])
            B2.append(vals)
            R2.append([vals[role] for _, role in spec])
        else:
            P2.append(pts[i])
            B2.append(byrole[i])
            R2.append(list(rows[i]))
    base = sorted(i[1] if isinstance(i, tuple) else i for i in idx)
    if set(base) != set(range(n)) or (how in ("asis", "reversed", "zigzag", "P-decreasing") and base != list(range(n))):
        raise HarnessError(f"row order {how} loses or repeats points: {idx}")
    return P2, R2, B2


def _is_node(x, lo, hi, n):
    s = (x - lo) / (hi - lo) * (n - 1)
    return abs(s - round(s)) < 1e-9


def _check_geotherm(out, d, kind, dom, nT, nP, variables, spec, rows, byrole, pts, hide, viol, st,
                    koff=0, stale_koffs=(), finest=False, probe=False, tag="c19:geotherm"):
    """Compare one stdout table of extract-geotherm with the statement, for tables of function `kind`
    (index KIDX[var] + koff) on the nT x nP grid in directory d.  Returns (errors at the between-node
    points per (variable, point), print floors) or None when the output could not be compared."""
    lvl = f"{nT}x{nP}"
    cols = [n for n, _ in spec]
    roles = [r for _, r in spec]
    files = set(os.listdir(d))
    try:
        tab = R.parse_stdout(out, header=not hide, has_index=False)
    except ValueError as e:
        viol.append(V(f"{tag}:unparsable", f"[{lvl}] stdout is not a numeric table ({e}): {out[:200]!r}"))
        return None
    if not hide and tab["names"] != cols + variables:
        viol.append(V(f"{tag}:columns", f"[{lvl}] header {tab['names']} != geotherm columns + variables {cols + variables}"))
    if len(tab["cols"]) != len(cols) + len(variables):
        viol.append(V(f"{tag}:column-count", f"[{lvl}] {len(tab['cols'])} columns, expected {len(cols)}+{len(variables)}"))
        return None
    if tab["nrow"] != len(pts):
        viol.append(V(f"{tag}:row-count", f"[{lvl}] {tab['nrow']} rows for {len(pts)} geotherm points"))
        return None
    for c, (name, role) in enumerate(spec):
        if not _close(tab["cols"][c], [r[c] for r in rows]):
            viol.append(V(f"{tag}:passthrough:{role}",
                          f"[{lvl}] geotherm column {c} '{name}' printed {tab['cols'][c][:3]}.. was {[r[c] for r in rows][:3]}.."))
    Tg, Pg = R.grid(dom[0], dom[1], nT), R.grid(dom[2], dom[3], nP)
    hT, hP = Tg[1] - Tg[0], Pg[1] - Pg[0]

    def cT(x):      # arguments outside the table are clamped to its edge (FITPACK)
        return min(max(x, dom[0]), dom[1])

    def cP(x):
        return min(max(x, dom[2]), dom[3])
    level_err, floors = [], []
    for vi, var in enumerate(variables):
        fn = R.Fn(kind, KIDX[var] + koff, dom)
        scale = float(np.max(np.abs(fn.table(Tg, Pg))))
        bound = R.spline_bound(fn, hT, hP) if kind == "smooth" else 0.0
        Tw, Pw, Zw = _entries(d, var)
        col = tab["cols"][len(cols) + vi]
        for (P, T, on_node), vals, tok in zip(pts, byrole, col):
            val, hu = float(tok), R.half_ulp(tok) * (1 + 1e-9)
            g = float(fn(T, P))
            err = abs(val - g)
            node = _is_node(T, dom[0], dom[1], nT) and _is_node(P, dom[2], dom[3], nP)
            if node != on_node:
                raise HarnessError(f"path point (P={P}, T={T}) node flag {on_node} but grid {lvl} says {node}")
            if probe:
                g_sw = float(fn(cT(P), cP(T)))
                near_sw = abs(val - g_sw) <= max(4 * bound, 1e-6 * scale) + hu
                near_st = err <= max(4 * bound, 1e-6 * scale) + hu
                st["swapped"] += near_sw and not near_st
                st["straight"] += near_st and not near_sw
                continue

            def cls():
                # a candidate explanation must reproduce the printed number as well as the right
                # answer would have been reproduced
                tolc = bound + RTOL * scale + hu
                pairs = [("P", "T")] + [(a, b) for a in roles for b in roles if (a, b) not in (("T", "P"), ("P", "T"))]
                for a, b in pairs:       # column with role a used as temperature, role b as pressure
                    if abs(val - float(fn(cT(vals[a]), cP(vals[b])))) <= tolc:
                        return "transposed" if (a, b) == ("P", "T") else f"wrong-columns:T<-{a},P<-{b}"
                for k2, lab in stale_koffs:
                    if abs(val - float(R.Fn(kind, KIDX[var] + k2, dom)(T, P))) <= tolc:
                        return lab
                for v2 in (v for v, f in ALLDOC if f in files and v != var):
                    if abs(val - float(R.Fn(kind, KIDX[v2] + koff, dom)(T, P))) <= tolc:
                        return "other-variable"
                return "unexplained"
            if node:
                st["nodes"] += 1
                entry = float(Zw[int(round((T - dom[0]) / hT)), int(round((P - dom[2]) / hP))])
                if not abs(val - entry) <= RTOL * abs(entry) + hu:
                    viol.append(V(f"{tag}:node-value:{cls()}",
                                  f"[{lvl}] {var} at node (P={P}, T={T}): printed {tok}, table entry {entry!r}"))
                continue
            st["between"] += 1
            level_err.append(err)
            if kind == "poly3":
                if not err <= RTOL * scale + hu:
                    viol.append(V(f"{tag}:bicubic-not-exact:{cls()}",
                                  f"[{lvl}] {var} at (P={P}, T={T}): printed {tok}, bicubic polynomial value {g!r} (err {err:.3g})"))
            else:
                st["ratio_bound"] = max(st["ratio_bound"], err / bound)
                if not err <= bound + RTOL * scale + hu:
                    viol.append(V(f"{tag}:spline-bound:{cls()}",
                                  f"[{lvl}] {var} at (P={P}, T={T}): printed {tok}, g={g!r}, err {err:.3g} > cubic-spline bound {bound:.3g}"))
                if finest:
                    cv = R.cell_variation(Tw, Pw, Zw, T, P)
                    st["ratio_cell"] = max(st["ratio_cell"], err / (0.25 * cv))
                    if not err <= 0.25 * cv + RTOL * scale + hu:
                        viol.append(V(f"{tag}:cell-tolerance:{cls()}",
                                      f"[{lvl}] {var} at (P={P}, T={T}): err {err:.3g} > 25% of local cell variation {cv:.3g}"))
        floors.append(RTOL * scale + R.half_ulp(col[0]))
    return level_err, floors


def _new_state():
    return {"ratio_bound": 0.0, "ratio_cell": 0.0, "nodes": 0, "between": 0, "swapped": 0, "straight": 0}


GEODIRS = ["cwd", "sibling-notables:rel", "sibling-full:rel", "sibling-full:abs", "sibling-some:rel", "sibling-some:abs",
           "subdir-full:rel", "parent-full:rel"]
GEO_KOFF = 60        # tables next to the geotherm file: same names, other values


def _place_geotherm(root, geodir, text, kind, dom, nT, nP, variables):
    """Working directory (returned first) and the -g argument for a geotherm file that is not in it.  The
    other directory holds its own, different-valued tables of all / some of the requested variables."""
    where, _, how = geodir.partition(":")
    if where == "parent-full":
        other, cwd = os.path.join(root, "M"), os.path.join(root, "M", "A")
        arg = os.path.join("..", "geo.dat")
    elif where == "subdir-full":
        cwd, other = os.path.join(root, "A"), os.path.join(root, "A", "geotherms")
        arg = os.path.join("geotherms", "geo.dat")
    else:
        cwd, other = os.path.join(root, "A"), os.path.join(root, "B")
        arg = "geo.dat" if where == "cwd" else os.path.join("..", "B", "geo.dat")
    os.makedirs(cwd, exist_ok=True)
    if where == "cwd":
        other = cwd
    else:
        os.makedirs(other, exist_ok=True)
        some = variables[::2] if len(variables) > 1 else variables
        for var in (variables if where.endswith("-full") else some if where == "sibling-some" else []):
            _put_table(os.path.join(other, FNAME[var]), kind, KIDX[var] + GEO_KOFF, dom, nT, nP)
    with open(os.path.join(other, "geo.dat"), "w") as fp:
        fp.write(text)
    if how == "abs":
        arg = os.path.join(other, "geo.dat")
    return cwd, arg


def run_geotherm(case):
    dom = RANGES[case["range"]]
    kind = case["fn"]
    variables = list(VARSETS[case["nvars"]])
    spec, opts = _layout(case)
    hide = bool(case.get("hide"))
    pts = geotherm_path(dom, case["path"], case["npts"])
    rows, byrole = _geotherm_rows(spec, pts)
    pts, rows, byrole = _arrange(spec, pts, rows, byrole, case.get("rows", "asis"))
    levels = [GRIDS[g] for g in case["grids"]]
    probe = case.get("layout") == "LN"
    viol, st = [], _new_state()
    errs = []      # per level: list of |value - g| per (variable, between-node point)
    floors = []
    geodir = case.get("geodir", "cwd")
    for (nT, nP) in levels:
        root = tempfile.mkdtemp(prefix="c19-", dir="/dev/shm")
        try:
            d, garg = _place_geotherm(root, geodir, R.format_geotherm([n for n, _ in spec], rows), kind, dom, nT, nP, variables)
            _populate(d, kind, dom, nT, nP, "small")
            args = ["extract-geotherm", "-g", garg, "-v", ",".join(variables)] + opts + (["-h"] if hide else [])
            code, exc, out = _invoke(d, args)
            if code != 0 or exc is not None:
                viol.append(V(f"c19:geotherm:crash:{type(exc).__name__}", f"{' '.join(args)} [{nT}x{nP}] -> exit {code}, {exc!r}"))
                errs.append(None)
                continue
            r = _check_geotherm(out, d, kind, dom, nT, nP, variables, spec, rows, byrole, pts, hide, viol, st,
                                finest=(nT, nP) == levels[-1], probe=probe,
                                stale_koffs=[] if geodir == "cwd" else [(GEO_KOFF, "tables-of-the-geotherm-file-directory")])
            errs.append(None if r is None else r[0])
            if r is not None:
                floors += r[1]
        finally:
            shutil.rmtree(root, ignore_errors=True)
    info = {"ratio_bound": st["ratio_bound"], "ratio_cell": st["ratio_cell"], "errs": []}
    # convergence along the ladder (generic smooth function, points between nodes)
    if kind == "smooth" and len(levels) == 3 and not probe and all(e is not None for e in errs) and errs[0]:
        # "Converges" is a statement about the error of the interpolant, not about its value at one
        # abscissa: the error function of a spline changes sign inside cells, so at a single point it can
        # be accidentally ~0 on a coarse grid (seen: 9e-7 at 21 nodes where the level's bound is 4e-2).
        # Asserted: per variable, the largest error over the path's between-node points decreases
        # strictly from level to level (paths with >= 3 such points); for shorter paths the per-level
        # bound above (which falls 16x per level) is the convergence assertion.
        floor = max(floors)
        E = [np.array(e).reshape(len(variables), -1) for e in errs]
        info["errs"] = [float(e.max()) for e in E]
        if E[0].shape[1] >= 3:
            for a, b in ((0, 1), (1, 2)):
                for vi, var in enumerate(variables):
                    ea, eb = float(E[a][vi].max()), float(E[b][vi].max())
                    if not (eb < ea or eb <= floor):
                        viol.append(V("c19:geotherm:not-converging",
                                      f"{var}: largest error over the path does not decrease from {LADDER[a]} to "
                                      f"{LADDER[b]} nodes per axis: {ea:.3g} -> {eb:.3g} (print floor {floor:.2g})"))
    if probe:
        sw, stt = st["swapped"], st["straight"]
        outcome = ("option-names:" + ("values-as-if-swapped" if sw and not stt else
                                      "values-correct" if stt and not sw else f"mixed({sw},{stt})"))
        return {"viol": viol, "outcome": outcome, "nontrivial": False}
    lay = case.get("family") or case.get("layout")
    outcome = f"geotherm:{kind}:{case['path']}:{lay}:{case.get('rows', 'asis')}:{geodir}:" + ("ok" if not viol else "bad")
    res = {"viol": _cap(viol), "outcome": outcome, "nontrivial": st["nodes"] + st["between"] > 0}
    res.update(info)
    return res


# --------------------------------------------------------------------------- mode B: sequences in one process

SEQ_VARS = ["c11s", "v"]
SEQ_DIRS = {"A": ("81x41", 0), "B": ("41x41", 60)}      # same file names, different tables (and grids)
# gA<B: extract-geotherm run in A with the geotherm file of B (-g ../B/geo.dat): A's tables are the ones to read
SEQ_OPS_QUICK = ["xA-T", "xB-P", "wA", "gA", "gB", "gA<B"]
SEQ_OPS = ["xA-T", "xA-P", "xB-T", "xB-P", "wA", "gA", "gB", "gA<B", "gB<A"]


def run_sequence(case):
    """A history of commands in ONE process: extract / extract-geotherm in directory A and in directory
    B (same variable names, different tables), and rewriting A's tables between commands.  Every output
    is compared with the tables on disk at that moment in the command's own directory."""
    ops = list(case["ops"])
    dom = RANGES["R1"]
    kind = "poly3"
    # Every history starts from freshly imported command modules (as history_bfs replays a history on
    # fresh objects), so the verdict depends on the history alone and not on what the worker ran before.
    import sys
    for m in [k for k in sys.modules if k == "cij.cli" or k.startswith("cij.cli.")]:
        del sys.modules[m]
    root = tempfile.mkdtemp(prefix="c19-seq-", dir="/dev/shm")
    viol, st, outcomes = [], _new_state(), []
    compared = 0
    try:
        dirs, koff, grids = {}, {}, {}
        for name, (g, k0) in SEQ_DIRS.items():
            dirs[name] = os.path.join(root, name)
            os.makedirs(dirs[name])
            grids[name], koff[name] = GRIDS[g], k0
            _populate(dirs[name], kind, dom, GRIDS[g][0], GRIDS[g][1], "small", koff=k0)
        dirvars = [v for v, f in ALLDOC if f in _dir_files("small")]
        stash = []           # (label, directory) of A's tables before each rewrite
        spec, _ = LAYOUTS["L0"]
        pts = geotherm_path(dom, "mixed", 3)
        rows, byrole = _geotherm_rows(spec, pts)
        for name in dirs:
            with open(os.path.join(dirs[name], "geo.dat"), "w") as fp:
                fp.write(R.format_geotherm([n for n, _ in spec], rows))
        nwrites = 0
        # table versions (directory, koff) read so far in THIS history, per command (each has its own
        # loader): a stale answer is attributed to the history only if the history read that version;
        # otherwise it can only come from process state older than the case (another case in the worker).
        loaded = {"x": set(), "g": set()}

        def versions(fam, name):
            other = [n for n in dirs if n != name][0]
            cand = [("other-directory", dirs[other], koff[other], (other, koff[other]))]
            if name == "A":
                cand += [("before-rewrite", p_, k_, ("A", k_)) for _, p_, k_ in stash]
            else:
                cand += [("other-directory-before-rewrite", p_, k_, ("A", k_)) for _, p_, k_ in stash]
            return [(("stale:" if ver in loaded[fam] else "state-older-than-this-history:") + lab, p_, k_)
                    for lab, p_, k_, ver in cand if k_ != koff[name]]
        for step, op in enumerate(ops):
            hist = "after " + (" ".join(ops[:step]) or "nothing")
            if op == "wA":
                old = os.path.join(root, f"A-before-rewrite-{nwrites}")
                os.makedirs(old)
                for var in SEQ_VARS:
                    shutil.copy(os.path.join(dirs["A"], FNAME[var]), os.path.join(old, FNAME[var]))
                stash.append(("before-rewrite", old, koff["A"]))
                nwrites += 1
                koff["A"] = 60 + 60 * nwrites + 60       # 180, 240, ...: never A's or B's earlier tables
                for var in SEQ_VARS:
                    _put_table(os.path.join(dirs["A"], FNAME[var]), kind, KIDX[var] + koff["A"], dom, *grids["A"])
                outcomes.append("w")
                continue
            name = op[1]
            d = dirs[name]
            nT, nP = grids[name]
            nv = len(viol)
            if op[0] == "x":
                axis = op[-1]
                grid = R.grid(dom[0], dom[1], nT) if axis == "T" else R.grid(dom[2], dom[3], nP)
                y, want = _request(grid, {"kind": "mid+", "pos": "inner", "inv_eps": 8})
                args = ["extract", "-v", ",".join(SEQ_VARS), "-" + axis, _fmt(y)]
                code, exc, out = _invoke(d, args)
                if code != 0 or exc is not None:
                    viol.append(V(f"c19:sequence:extract:crash:{type(exc).__name__}", f"step {step} {op} {hist}: exit {code}, {exc!r}"))
                    continue
                elsewhere = [(lab, p_) for lab, p_, _ in versions("x", name)]
                compared += _check_extract_output(out, d, SEQ_VARS, axis, want, False, "mid+", viol, dirvars,
                                                  tag="c19:sequence:extract", elsewhere=elsewhere)
            elif op[0] == "g":
                src = op.partition("<")[2]
                other = [n for n in dirs if n != name][0]
                args = ["extract-geotherm", "-g", os.path.join("..", src, "geo.dat") if src else "geo.dat", "-v", ",".join(SEQ_VARS)]
                code, exc, out = _invoke(d, args)
                if code != 0 or exc is not None:
                    viol.append(V(f"c19:sequence:geotherm:crash:{type(exc).__name__}", f"step {step} {op} {hist}: exit {code}, {exc!r}"))
                    continue
                r = _check_geotherm(out, d, kind, dom, nT, nP, SEQ_VARS, spec, rows, byrole, pts, False, viol, st,
                                    koff=koff[name],
                                    stale_koffs=([(koff[other], "tables-of-the-geotherm-file-directory")] if src else [])
                                    + [(k_, lab) for lab, _, k_ in versions("g", name)],
                                    tag="c19:sequence:geotherm")
                compared += 0 if r is None else len(SEQ_VARS)
            else:
                raise HarnessError(f"unknown operation {op}")
            for v in viol[nv:]:
                v["msg"] = f"step {step} ({op}, {hist}): " + v["msg"]
            loaded[op[0]].add((name, koff[name]))
            outcomes.append(op[0] + ("!" if len(viol) > nv else ""))
    finally:
        shutil.rmtree(root, ignore_errors=True)
    return {"viol": _cap(viol), "outcome": "sequence:" + "".join(outcomes), "nontrivial": compared > 0}


# --------------------------------------------------------------------------- command chains on REAL tables

ORTHO = [(1, 1), (2, 2), (3, 3), (1, 2), (1, 3), (2, 3), (4, 4), (5, 5), (6, 6)]
CHAIN_QHA = dict(T_MIN=0, NT=5, DT=300, DT_SAMPLE=300, P_MIN=0, DELTA_P=1.0, DELTA_P_SAMPLE=1.0, NTV=21)
CHAIN_OUT_ALL = ["cij", "cij_t", "bm_V", "bm_R", "bm_VRH", "G_V", "G_R", "G_VRH", "vp", "vs", "v"]
CHAIN_OUT_SUB = ["cij", "vp", "v"]
# a "run" = one synthetic calculation (mc.synth) written by the real writer: (static law, spectrum, requested outputs)
CHAIN_RUNS = {"a": ("generic", "mid", CHAIN_OUT_ALL), "b": ("cubicfit", "low", CHAIN_OUT_ALL),
              "b-sub": ("cubicfit", "low", CHAIN_OUT_SUB), "a-sub": ("generic", "mid", CHAIN_OUT_SUB)}


def _chain_vars(keywords):
    """Variable names (= stems of the documented file names) that a list of output keywords produces."""
    out = []
    for kw in keywords:
        if kw == "cij":
            out += ["c%d%ds" % p for p in ORTHO]
        elif kw == "cij_t":
            out += ["c%d%dt" % p for p in ORTHO]
        else:
            out.append({"vp": "v_p", "vs": "v_s"}.get(kw, kw))
    return out


def _copy_dir(src, dst, descending):
    """A plain copy of a result directory; the entries are created in ascending or descending name order,
    so that whatever rule the file system has for listing a directory, both relative orders of two
    entries occur."""
    os.makedirs(dst)
    for name in sorted(os.listdir(src), reverse=descending):
        if os.path.isfile(os.path.join(src, name)):
            shutil.copyfile(os.path.join(src, name), os.path.join(dst, name))


def _check_geotherm_nodes(out, E, variables, cols, rows, nodes, viol, tag, elsewhere):
    """extract-geotherm on tables that are not an analytic function: the path runs through grid nodes only,
    where the statement demands the table entry itself."""
    try:
        tab = R.parse_stdout(out, header=True, has_index=False)
    except ValueError as e:
        viol.append(V(f"{tag}:unparsable", f"stdout is not a numeric table ({e}): {out[:200]!r}"))
        return 0
    if tab["names"] != cols + variables:
        viol.append(V(f"{tag}:columns", f"header {tab['names']} != geotherm columns + variables {cols + variables}"))
    if len(tab["cols"]) != len(cols) + len(variables) or tab["nrow"] != len(rows):
        viol.append(V(f"{tag}:shape", f"{tab['nrow']} rows x {len(tab['cols'])} columns for {len(rows)} points, {len(cols)}+{len(variables)} columns"))
        return 0
    for c, name in enumerate(cols):
        if not _close(tab["cols"][c], [r[c] for r in rows]):
            viol.append(V(f"{tag}:passthrough:{name}", f"geotherm column '{name}' printed {tab['cols'][c][:3]}.. was {[r[c] for r in rows][:3]}.."))
    n = 0
    for vi, var in enumerate(variables):
        _, _, Z = _entries(E, var)
        col = tab["cols"][len(cols) + vi]
        n += 1
        for (iT, jP), tok in zip(nodes, col):
            entry = float(Z[iT, jP])
            if abs(float(tok) - entry) <= RTOL * abs(entry) + R.half_ulp(tok) * (1 + 1e-9):
                continue
            cls = "unexplained"
            for label, d2 in elsewhere:
                if os.path.exists(os.path.join(d2, FNAME[var])):
                    e2 = float(_entries(d2, var)[2][iT, jP])
                    if abs(float(tok) - e2) <= RTOL * abs(e2) + R.half_ulp(tok) * (1 + 1e-9):
                        cls = label
                        break
            viol.append(V(f"{tag}:node-value:{cls}", f"{var} at node (T-index {iT}, P-index {jP}): printed {tok}, entry of the table written last {entry!r}"))
    return n


def run_chain(case):
    """The tables in the directory are produced by the REAL writer, several times in a row with different
    data (Calculator(settings).write_output() or `cij run settings.yaml`, mc.synth inputs).  Then extract
    and extract-geotherm, run in that directory and in two plain copies of it, must return the numbers
    of the table that was written LAST for each variable (read back from the documented file right after
    the write that produced it, with the independent parser)."""
    from mc import synth
    runs = list(case["runs"])
    route = case["route"]
    root = tempfile.mkdtemp(prefix="c19-chain-", dir="/dev/shm")
    viol, compared, outcomes = [], 0, []
    try:
        inp, out = os.path.join(root, "in"), os.path.join(root, "out")
        os.makedirs(inp)
        os.makedirs(out)
        settings = os.path.join(inp, "settings.yaml")
        current, snaps = {}, []
        for k, run in enumerate(runs):
            static, wset, keywords = CHAIN_RUNS[run]
            spec = dict(nv=6, nq=2, na=1, lattice="power", system="orthorhombic", compset="minimal", static=static, wset=wset,
                        weights="increasing", qha=dict(CHAIN_QHA), output={"pressure_base": list(keywords)})
            synth.write(inp, spec)
            old = os.getcwd()
            os.chdir(out)
            try:
                if route == "write_output":
                    from cij.core.calculator import Calculator
                    Calculator(settings).write_output()
                else:
                    from click.testing import CliRunner
                    from cij.cli.cij import main
                    res = CliRunner().invoke(main, ["run", settings])
                    if res.exit_code != 0 or res.exception is not None:
                        raise res.exception or RuntimeError(f"exit {res.exit_code}")
            except Exception as ex:
                return {"viol": [V(f"c19:chain:writer-raises:{type(ex).__name__}", f"run {k} ({run}, {route}) of {runs}: {ex!r}")],
                        "outcome": "writer-raises"}
            finally:
                os.chdir(old)
            snap = os.path.join(root, f"written-by-run-{k}")
            os.makedirs(snap)
            for var in _chain_vars(keywords):
                src = os.path.join(out, FNAME[var])
                if not os.path.isfile(src):
                    raise HarnessError(f"run {k} ({run}) did not leave {FNAME[var]} (C15's subject); directory: {sorted(os.listdir(out))[:6]}")
                shutil.copyfile(src, os.path.join(snap, FNAME[var]))
                current[var] = k
            snaps.append(snap)
        # the tables written last, per variable, and the earlier versions that differ from them
        E = os.path.join(root, "written-last")
        os.makedirs(E)
        for var, k in current.items():
            shutil.copyfile(os.path.join(snaps[k], FNAME[var]), os.path.join(E, FNAME[var]))
        variables = sorted(current, key=lambda v: (len(v), v[::-1]))          # neither alphabetical nor creation order
        stale = []
        for k, snap in enumerate(snaps):
            differs = [v for v in variables if k != current[v] and os.path.exists(os.path.join(snap, FNAME[v]))
                       and open(os.path.join(snap, FNAME[v])).read() != open(os.path.join(E, FNAME[v])).read()]
            if differs:
                stale.append(("stale:earlier-run", snap))
        if len({r.split("-")[0] for r in runs}) > 1 and not stale:
            raise HarnessError(f"runs {runs} produced identical tables")
        for var in variables:
            if open(os.path.join(out, FNAME[var])).read() != open(os.path.join(E, FNAME[var])).read():
                raise HarnessError(f"{FNAME[var]} changed after the snapshot")
        Tg, Pg, _ = _entries(E, variables[0])
        nodes = [(1, 2), (2, 7), (3, 13), (4, 20), (0, 0)]
        cols = ["P", "T", "D"]
        rows = [[float(Pg[j]), float(Tg[i]), 6371 - 57 * n] for n, (i, j) in enumerate(nodes)]
        dirs = [("as-written", out)]
        for label, desc in (("copied-ascending", False), ("copied-descending", True)):
            dst = os.path.join(root, label)
            _copy_dir(out, dst, desc)
            dirs.append((label, dst))
        for label, D in dirs:
            listing = sorted(os.listdir(D))
            amb = {v: R.glob_matches(v, listing) for v in variables}
            amb = {v: m for v, m in amb.items() if len(m) != 1}
            if amb and label == "as-written":
                v0 = sorted(amb)[0]
                viol.append(V("c19:chain:lookup-ambiguous-after-real-writes",
                              f"after runs {runs} ({route}) the directory written by cij alone holds {amb[v0]} for '{v0}_tp_*' "
                              f"({len(amb)} of {len(variables)} variables): which table extract reads depends on the file system's listing order"))
            with open(os.path.join(D, "geo.dat"), "w") as fp:
                fp.write(R.format_geotherm(cols, rows))
            nv = len(viol)
            for axis, grid, pos in (("T", Tg, 1), ("P", Pg, 13)):
                y, want = _request(list(grid), {"kind": "mid+", "pos": pos, "inv_eps": 8})
                args = ["extract", "-v", ",".join(variables), "-" + axis, _fmt(y)]
                code, exc, txt = _invoke(D, args)
                if code != 0 or exc is not None:
                    viol.append(V(f"c19:chain:{label}:extract:crash:{type(exc).__name__}", f"after runs {runs}: {' '.join(args[:2])}.. -> exit {code}, {exc!r}"))
                    continue
                compared += _check_extract_output(txt, E, variables, axis, want, False, "mid+", viol, variables,
                                                  tag=f"c19:chain:{label}:extract", elsewhere=stale)
            args = ["extract-geotherm", "-g", "geo.dat", "-v", ",".join(variables)]
            code, exc, txt = _invoke(D, args)
            if code != 0 or exc is not None:
                viol.append(V(f"c19:chain:{label}:geotherm:crash:{type(exc).__name__}", f"after runs {runs}: exit {code}, {exc!r}"))
            else:
                compared += _check_geotherm_nodes(txt, E, variables, cols, rows, nodes, viol, f"c19:chain:{label}:geotherm", stale)
            for v in viol[nv:]:
                v["msg"] = f"runs {runs} via {route}, directory {label}: " + v["msg"]
            outcomes.append("ok" if len(viol) == nv else "bad")
    finally:
        shutil.rmtree(root, ignore_errors=True)
    return {"viol": _cap(viol), "outcome": f"chain:{len(runs)}runs:{route}:" + ",".join(outcomes), "nontrivial": compared > 0 and len(runs) > 0}


DECOY_NAMES = ["c11s_tp_gpa.txt.bak", "c11s_tp_gpa.txt~", "c11s_tp_gpa.txt.orig", "c11s_tp_gpa.old.txt"]


def run_decoy(case):
    """A file whose name EXTENDS a table's name (an editor backup, a hand-made .orig/.old copy) also matches the
    lookup pattern c11s_tp_*.  Such a directory is not one of "output tables produced as in C15" (the quantifier
    of the statement), so nothing is asserted: which file is read is recorded."""
    dom = RANGES["R1"]
    d = tempfile.mkdtemp(prefix="c19-", dir="/dev/shm")
    try:
        decoy = case["decoy"]
        if case["created"] == "before":
            _put_table(os.path.join(d, decoy), "poly3", KIDX["c11s"] + 400, dom, 41, 41)
        _populate(d, "poly3", dom, 41, 41, "small")
        if case["created"] == "after":
            _put_table(os.path.join(d, decoy), "poly3", KIDX["c11s"] + 400, dom, 41, 41)
        matches = R.glob_matches("c11s", sorted(os.listdir(d)))
        if sorted(matches) != sorted(["c11s_tp_gpa.txt", decoy]):
            raise HarnessError(f"decoy {decoy}: pattern selects {matches}")
        code, exc, out = _invoke(d, ["extract", "-v", "c11s", "-T", "680.0"])
        if code != 0 or exc is not None:
            return {"viol": [], "outcome": f"decoy:refused:{type(exc).__name__}", "nontrivial": False}
        tab = R.parse_stdout(out, header=True, has_index=True)
        T, P, Z = _entries(d, "c11s")
        with open(os.path.join(d, decoy)) as fp:
            Zd = np.array(R.parse_table_text(fp.read())[2])
        picked = "table" if _close(tab["cols"][0], Z[14]) else "decoy" if _close(tab["cols"][0], Zd[14]) else "neither"
    finally:
        shutil.rmtree(d, ignore_errors=True)
    return {"viol": [], "outcome": f"decoy-created-{case['created']}:reads-{picked}", "nontrivial": False}


def run_case(case):
    kind = case["kind"]
    if kind == "extract":
        return run_extract(case)
    if kind == "unknown":
        return run_unknown(case)
    if kind == "geotherm":
        return run_geotherm(case)
    if kind == "sequence":
        return run_sequence(case)
    if kind == "chain":
        return run_chain(case)
    if kind == "decoy":
        return run_decoy(case)
    raise HarnessError(f"unknown case kind {kind}")


# --------------------------------------------------------------------------- enumeration

def extract_requests():
    reqs = [{"kind": "node", "pos": p} for p in ("first", "inner", "last")]
    for p in ("first", "inner", "lastcell"):
        for inv in (8, 1024):
            reqs.append({"kind": "mid-", "pos": p, "inv_eps": inv})
            reqs.append({"kind": "mid+", "pos": p, "inv_eps": inv})
    reqs += [{"kind": "below"}, {"kind": "above"}, {"kind": "mid0", "pos": "inner"}]
    # valid requests whose value is falsy in Python: zero in several spellings (the first grid value on
    # R1/R2 -- also requested as 'node first' = repr(grid[0]) -- and below the first one on R3)
    reqs += [{"kind": "literal", "text": t} for t in ("0", "0.0", "-0.0", "0e0")]
    return reqs


def extract_cases(quick):
    grids = [("R1", "81x41")] if quick else [("R1", "41x41"), ("R1", "81x41"), ("R2", "41x41"), ("R3", "41x41")]
    cases = []
    for rng, g in grids:
        for nv in (1, 2, 5):
            for axis in ("T", "P"):
                for hide in (False, True):
                    for order in ("fwd", "rev"):
                        if nv == 1 and order == "rev":
                            continue
                        for req in extract_requests():
                            cases.append({"kind": "extract", "range": rng, "grid": g, "nvars": nv, "axis": axis,
                                          "hide": hide, "order": order, "reqs": [req]})
    return cases


def glob_cases(quick):
    """Every documented pressure-base variable name, alone, in a directory holding *all* documented
    files (51 pressure-base + volume-base + decoys)."""
    names = [v for v, _ in ALLDOC]
    cases = []
    for var in names:
        for axis in (("T",) if quick else ("T", "P")):
            cases.append({"kind": "extract", "range": "R1", "grid": "41x41", "nvars": 1, "vars": [var], "axis": axis,
                          "dirset": "full", "reqs": [{"kind": "mid+", "pos": "inner", "inv_eps": 8}]})
    return cases


def all_position_cases():
    """Thorough: every node and both sides of every midpoint of a whole axis (complete along the axis)."""
    cases = []
    for rng, g in (("R1", "41x41"), ("R1", "81x41"), ("R2", "41x41")):
        nT, nP = GRIDS[g]
        for axis, n in (("T", nT), ("P", nP)):
            reqs = [{"kind": "node", "pos": i} for i in range(n)]
            for i in range(n - 1):
                reqs += [{"kind": "mid-", "pos": i, "inv_eps": 16}, {"kind": "mid+", "pos": i, "inv_eps": 16}]
            for b in range(0, len(reqs), 12):
                cases.append({"kind": "extract", "range": rng, "grid": g, "nvars": 2, "axis": axis, "reqs": reqs[b:b + 12]})
    return cases


def qha_writer_cases():
    return [{"kind": "extract", "range": "R1", "grid": "81x41", "nvars": 5, "axis": axis, "writer": "qha",
             "reqs": [r]} for axis in ("T", "P") for r in extract_requests()]


def geotherm_cases(quick):
    cases = []
    fns = [("poly3", ["81x41"]), ("smooth", ["21x21", "41x41", "81x81"])]
    if not quick:
        fns.insert(0, ("poly3", ["41x41"]))
    for rng in ("R1", "R2"):
        for fn, grids in fns:
            for path in (("nodes", "between", "mixed") if quick else ("nodes", "between", "mixed") + tuple(NONMONO)):
                for npts in (1, 3, 50):
                    for nv in (1, 2, 5):
                        # quick: the header layouts are varied on the bicubic tables only (one run per case); the
                        # three-level ladder keeps the default layout
                        for layout in (("L0", "L1", "L2", "L3") if not quick else ("L0",) if fn == "smooth" else ("L0", "L1", "L2")):
                            for hide in ((False,) if quick and layout != "L0" else (False, True)):
                                cases.append({"kind": "geotherm", "range": rng, "fn": fn, "grids": grids, "path": path,
                                              "npts": npts, "nvars": nv, "layout": layout, "hide": hide})
    return cases


NONMONO = ["cycle:mixed", "loop:mixed", "zigzagP:mixed"]


def geotherm_location_cases(quick):
    """Where the geotherm file lives x how it is named on the command line (x path, points, variables)."""
    cases = []
    fns = [("poly3", ["41x41"])] if quick else [("poly3", ["41x41"]), ("smooth", ["21x21", "41x41", "81x81"])]
    for geodir in GEODIRS:
        for rng in ("R1", "R2"):
            for fn, grids in fns:
                for path, npts in ((("mixed", 3),) if quick else (("mixed", 3), ("nodes", 50), ("between", 1), ("loop:mixed", 50))):
                    for nv in (2, 5):
                        for layout in (("L0",) if quick else ("L0", "L2")):
                            cases.append({"kind": "geotherm", "range": rng, "fn": fn, "grids": grids, "path": path, "npts": npts,
                                          "nvars": nv, "layout": layout, "hide": False, "geodir": geodir})
    return cases


def header_order_cases(quick):
    """Every order of the columns of each 4-column geotherm header family (5 x 24): the geotherm's P and T
    columns plus passthrough columns, among them columns whose names differ from the P / T column's only
    by letter case and whose values lie far outside the table."""
    import itertools
    cases = []
    for fam, (spec, _) in HEADER_FAMILIES.items():
        for perm in itertools.permutations(range(len(spec))):
            for rng in ("R1", "R2"):
                for path, npts in ((("mixed", 3),) if quick else (("mixed", 3), ("nodes", 50), ("between", 50), ("mixed", 1))):
                    cases.append({"kind": "geotherm", "range": rng, "fn": "poly3", "grids": ["41x41"], "path": path,
                                  "npts": npts, "nvars": 2, "family": fam, "perm": list(perm), "hide": False})
    return cases


def row_order_cases(quick):
    """Row multiset / order of the geotherm file x path kind x number of points x range (x layout, function)."""
    cases = []
    fns = [("poly3", ["41x41"])] if quick else [("poly3", ["41x41"]), ("poly3", ["81x41"]), ("smooth", ["21x21", "41x41", "81x81"])]
    for how in ROW_ORDERS:
        for rng in ("R1", "R2"):
            for fn, grids in fns:
                for path in ("nodes", "between", "mixed") + tuple(NONMONO if (how == "asis" or not quick) else ()):
                    for npts in (1, 3, 50):
                        for layout in (("L0",) if quick else ("L0", "L1", "L3")):
                            cases.append({"kind": "geotherm", "range": rng, "fn": fn, "grids": grids, "path": path, "npts": npts,
                                          "nvars": 2, "layout": layout, "hide": False, "rows": how})
    return cases


def chain_cases(quick):
    """Histories of real writes into one directory.  thorough: every history of length 1..3 over {a, b, a-sub,
    b-sub} that starts with a full write x {write_output, cij run}; quick (each case pays its worker's first-
    calculation warm-up): a, a.b, a.b-sub through write_output and a.b, a.b.a through `cij run`."""
    import itertools
    if quick:
        return [{"kind": "chain", "runs": h, "route": r} for h, r in (
            (["a"], "write_output"), (["a", "b"], "write_output"), (["a", "b-sub"], "write_output"),
            (["a", "b"], "cli-run"), (["a", "b", "a"], "cli-run"))]
    hist = [list(h) for L in (1, 2, 3) for h in itertools.product(sorted(CHAIN_RUNS), repeat=L) if not h[0].endswith("-sub")]
    return [{"kind": "chain", "runs": h, "route": r} for h in hist for r in ("write_output", "cli-run")]


def decoy_cases():
    return [{"kind": "decoy", "decoy": n, "created": c} for n in DECOY_NAMES for c in ("before", "after")]


def sequence_cases(quick):
    """Mode B: all command histories of length 2..3 (thorough: 2..4 over the larger alphabet)."""
    import itertools
    ops, depth = (SEQ_OPS_QUICK, 3) if quick else (SEQ_OPS, 4)
    cases = []
    for L in range(2, depth + 1):
        for seq in itertools.product(ops, repeat=L):
            if all(o == "wA" for o in seq):
                continue
            cases.append({"kind": "sequence", "ops": list(seq)})
    return cases


def option_name_probes():
    return [{"kind": "geotherm", "range": rng, "fn": "poly3", "grids": ["41x41"], "path": "between", "npts": 3,
             "nvars": 1, "layout": "LN", "hide": False} for rng in ("R1", "R2")]


def explore(ctx):
    q = ctx.quick
    ctx.rule = (
        "full product of the alphabets below, nothing sampled. extract: {grid} x {1,2,5 variables} x {-T,-P} x "
        "{header, -h} x {requested order, reversed} x 22 requests {node first/inner/last; midpoint -/+ eps (eps = h/8, "
        "h/1024) in the first/an inner/the last cell; below first; above last; exact midpoint (recorded, not asserted); zero "
        "spelt 0, 0.0, -0.0, 0e0 (= first grid value on R1/R2, below the first on R3: T 300.., P 10..)}; "
        "every documented pressure-base variable name alone in a directory with all 51 documented tables + volume-base "
        "files + decoys; the same requests on tables written by qha's own save_x_tp; thorough: every node and both sides of every "
        "midpoint of each whole axis. geotherm: {R1: T 0..2000/P 0..40, "
        "R2: T 0..40/P 0..40} x {bicubic polynomial on 41x41 and 81x41, generic smooth function on the ladder 21/41/81} x "
        "{nodes only, between nodes, mixed} x {1,3,50 points} x {1,2,5 variables} x {P,T,D default; D,T,n,P default; "
        "depth,pres,temp with explicit --t-col/--p-col as the help texts say; thorough: t,D,P,T,p} x {header, -h}; all 24 column "
        "orders of each of 5 four-column headers {P,T,D,t}, {P,T,p,t}, {pres,temp,depth,TEMP}, {pres,temp,PRES,TEMP}, "
        "{PRES,TEMP,pres,temp} (passthrough columns whose names differ from the P/T column's only by letter case, values far "
        "outside the table); row multiset/order of the geotherm file {as is, an exactly repeated row first/middle/last, two "
        "repeated rows, a non-adjacent repeat, equal (P,T) with other passthrough values, reversed, zig-zag, P decreasing} x "
        "{nodes, between, mixed} x {1,3,50 points} x {R1,R2} (oracle per row: output row k = file row k + value at its (P,T); "
        "as many output rows as input rows); non-monotonic path shapes {heating-cooling cycle at one pressure with first row == last "
        "row, closed loop in the P-T plane, pressure zig-zag} x {1,3,50 points}; location of the geotherm file {working directory; "
        "sibling directory without tables / with its own different-valued tables of all / of some requested variables, named by "
        "relative and by absolute path; a subdirectory and the parent directory holding such tables}: the tables of the WORKING "
        "directory are the ones read. Real-writer chains: histories of 1..3 synthetic calculations (mc.synth, two different "
        "data sets, full or reduced output list) written into ONE directory by Calculator.write_output() or `cij run`, then extract "
        "-T/-P and extract-geotherm (nodes) with all written variables, in the directory as written and in two plain copies (entries "
        "created in ascending / descending name order), compared with the table written LAST per variable. Mode B: every history of length 2..3 (thorough 2..4) over {extract in directory A, extract in "
        "directory B with the same variable names and other tables, rewrite A's tables, extract-geotherm in A, in B} run in one "
        "process, each output compared with the tables on disk at that moment. Non-trivial = at least one "
        "printed value column was compared against a table whose rows, columns and variables are pairwise distinct "
        "(a wrong row/column/axis/file changes the numbers); ties and refusals are trivial.")
    ctx.assumptions = [
        "tables are written in the layout of qha.basic_io.out.save_x_tp (selftest: byte-identical to qha's writer); "
        "one part uses qha's writer itself (trusted base)",
        "the variable name given to -v is the stem of the documented file name ({var}_tp_*), pressure base",
        "print precision: a printed number is compared to half a unit of its last printed digit (pandas to_string, 6 decimals)",
        "cubic-spline bound = (hT^4 |x_TTTT| + hP^4 |x_PPPP|)/24 + 4/9 hT^2 hP^2 |x_TTPP| (sup norms over the table): "
        "end-cell cubic Lagrange constant 1/24 >= interior 5/384; Carlson-Hall cross term",
        "geotherm paths stay inside the tabulated range (statement); behaviour outside (clamping) is not asserted",
        "explicit --t-col/--p-col are used as their help texts say (--t-col = name of the pressure column); the "
        "reading by option name is probed and recorded, not asserted (outside the statement: its seam is the default call)",
        "the tables written last are read back from the documented file names right after each real write (that those files hold "
        "the in-memory results is C15's subject); chain tables are not analytic, so extract-geotherm is asserted at grid nodes only there",
        "files whose names extend a table name (c11s_tp_gpa.txt.bak, ...txt~, ...txt.orig, ...old.txt) made by the USER are outside the "
        "quantifier ('output tables produced as in C15'): which file is read is recorded (notes), not asserted; the same kind of file left "
        "by cij's own writer is inside it (real-writer chains)",
        "exact midpoint requests, unknown variable names (loud IndexError), -T and -P together or neither: outside the statement",
    ]
    amb = R.ambiguous_names()
    ctx.notes["documented_names_ambiguous_under_pattern"] = amb
    cache = tempfile.mkdtemp(prefix="c19-cache-", dir="/dev/shm")
    os.environ["C19_TABLE_CACHE"] = cache          # inherited by the spawn pool created at the first ctx.run
    try:
        _explore(ctx, q)
    finally:
        os.environ.pop("C19_TABLE_CACHE", None)
        shutil.rmtree(cache, ignore_errors=True)


def _explore(ctx, q):
    import time
    walls = ctx.notes.setdefault("part_wall_s", OrderedDict())

    def timed(cases, part, **kw):
        t0 = time.time()
        res = ctx.run(MOD, "run_case", cases, part=part, **kw)
        walls[part] = round(time.time() - t0, 2)
        return res
    # first: the workers are fresh, nothing from other cases is in the process yet.  The real-writer chains
    # (few, each paying the first-calculation warm-up of its worker) are submitted together with the
    # sequences, one chain per chunk, so that they overlap; the two parts are booked separately.
    sq = sequence_cases(q)
    ch = chain_cases(q)
    step = max(1, len(sq) // max(1, len(ch)))
    both = []
    for i, c in enumerate(ch):
        both.append(c)
        both += sq[i * step:(i + 1) * step]
    both += sq[len(ch) * step:]
    t0 = time.time()
    res = ctx.run(MOD, "run_case", both, part=None, chunksize=1,
                  transitions=sum(len(c["ops"]) for c in sq) + sum(len(c["runs"]) + 9 for c in ch))
    walls["sequences+real-writer-chains"] = round(time.time() - t0, 2)
    for label, kind in (("sequences-in-one-process", "sequence"), ("real-writer-chains", "chain")):
        ctx.parts[label] = {"executions": sum(1 for c in both if c["kind"] == kind),
                            "violations": sum(len(r.get("viol", [])) for c, r in zip(both, res) if c["kind"] == kind)}
    ec = extract_cases(q)
    timed(ec, "extract")
    ctx.run_under(MOD, "run_case", ec[:2] + ec[-1:], ("-O",))   # interpreter started with -O (asserts stripped)
    gc = glob_cases(q)
    timed(gc, "extract-file-selection")
    qc = qha_writer_cases()
    timed(qc, "extract-qha-written-tables")
    ap = [] if q else all_position_cases()
    if ap:
        timed(ap, "extract-every-position", transitions=sum(len(c["reqs"]) for c in ap))
    uc = [{"kind": "unknown", "var": v} for v in UNKNOWN_VARS]
    ur = timed(uc, "extract-unknown-names")
    geo = geotherm_cases(q)
    gr = timed(geo, "geotherm")
    ho = header_order_cases(q)
    timed(ho, "geotherm-header-orders")
    ro = row_order_cases(q)
    timed(ro, "geotherm-row-orders")
    gl = geotherm_location_cases(q)
    timed(gl, "geotherm-file-location")
    pr = timed(option_name_probes(), "geotherm-option-name-probe")
    dc = decoy_cases()
    dr = timed(dc, "extract-name-extending-decoys-probe")
    ctx.notes["name_extending_decoys_not_asserted"] = {f"{c['decoy']} created {c['created']}": r.get("outcome") for c, r in zip(dc, dr)}
    ctx.notes["alphabets"] = {
        "extract": {"grids": 1 if q else 4, "nvars": 3, "axis": 2, "header": 2, "order": 2, "requests": len(extract_requests()),
                    "cases": len(ec)},
        "file_selection": {"documented_names": len(ALLDOC), "files_in_directory": len(_dir_files("full")), "cases": len(gc)},
        "qha_written": len(qc), "unknown_names": len(uc),
        "every_position": {"cases": len(ap), "requests": sum(len(c["reqs"]) for c in ap)},
        "geotherm": {"ranges": 2, "function_x_grid": 2 if q else 3, "paths": 3, "npts": 3, "nvars": 3,
                     "layouts": 3 if q else 4, "header": 2, "cases": len(geo)},
        "geotherm_file_location": {"locations": len(GEODIRS), "ranges": 2, "nvars": 2, "cases": len(gl)},
        "nonmonotonic_path_shapes": NONMONO,
        "row_orders": {"arrangements": len(ROW_ORDERS), "ranges": 2, "paths": 3, "npts": 3, "layouts": 1 if q else 3,
                       "function_x_grid": 1 if q else 3, "cases": len(ro)},
        "header_orders": {"families": len(HEADER_FAMILIES), "orders_each": 24, "ranges": 2, "paths": 1 if q else 4, "cases": len(ho)},
        "real_writer_chains": {"runs": sorted(CHAIN_RUNS), "histories": len({tuple(c["runs"]) for c in ch}), "routes": 2, "directories_checked": 3, "cases": len(ch)},
        "sequences": {"operations": len(SEQ_OPS_QUICK if q else SEQ_OPS), "lengths": [2, 3] if q else [2, 3, 4], "cases": len(sq)},
    }
    ok = [r for r in gr if not r.get("harness_error")]
    ctx.notes["geotherm_max_error_over_spline_bound"] = max([r.get("ratio_bound", 0.0) for r in ok] or [0.0])
    ctx.notes["geotherm_max_error_over_cell_tolerance"] = max([r.get("ratio_cell", 0.0) for r in ok] or [0.0])
    lad = [r["errs"] for r in ok if r.get("errs")]
    if lad:
        ctx.notes["geotherm_ladder_max_errors_21_41_81"] = [max(e[i] for e in lad) for i in range(3)]
    ctx.notes["unknown_names_outcomes"] = {c["var"]: r.get("outcome") for c, r in zip(uc, ur)}
    ctx.notes["option_name_reading"] = {c["range"]: r.get("outcome") for c, r in zip(option_name_probes(), pr)}


# --------------------------------------------------------------------------- selftest

def selftest():
    import glob as _glob
    ok = True

    def check(cond, what):
        nonlocal ok
        if not cond:
            ok = False
            print("selftest FAILED:", what)

    d = tempfile.mkdtemp(prefix="c19-st-", dir="/dev/shm")
    try:
        import pandas
        from qha.basic_io.out import save_x_tp
        from scipy.interpolate import RectBivariateSpline
        # 1. writer: byte-identical to qha's, reads back with pandas
        for Tg, Pg in [(R.grid(0, 2000, 41), R.grid(0, 40, 41)), (R.grid(0, 2000, 81), R.grid(0, 40, 41)),
                       (R.grid(0, 40, 81), R.grid(-5, 35, 81)), (R.grid(300, 2300, 21), R.grid(0, 137.5, 12))]:
            for kind in ("poly3", "smooth"):
                fn = R.Fn(kind, 3, (Tg[0], Tg[-1], Pg[0], Pg[-1]))
                Z = fn.table(Tg, Pg) * np.where(np.arange(len(Pg)) % 3 == 1, -1, 1)[None, :]
                p = os.path.join(d, "q_tp_gpa.txt")
                save_x_tp(np.vstack([Z, np.zeros((4, len(Pg)))]), np.array(list(Tg) + [9e3, 9001, 9002, 9003]),
                          np.array(Pg), np.array(Pg), p)
                with open(p) as fp:
                    a = fp.read()
                b = R.format_table(Tg, Pg, Z.tolist())
                check(a == b, f"writer differs from qha save_x_tp on {len(Tg)}x{len(Pg)} {kind}")
                R.write_table(p, Tg, Pg, Z.tolist())
                df = pandas.read_table(p, sep=r"\s+", index_col=0)
                T2, P2, Z2 = R.parse_table_text(b)
                check(np.array_equal(df.to_numpy(), np.array(Z2)) or np.allclose(df.to_numpy(), Z2, rtol=1e-15, atol=0),
                      "pandas read-back differs from own parser")
                check([float(c) for c in df.columns] == P2 and [float(i) for i in df.index] == T2, "labels read back")
                check(np.allclose(Z2, Z, rtol=1e-15, atol=0), "written entries differ from the function by more than %.15e rounding")
        # 2. tables discriminate: rows, columns, variables, transpose pairwise distinct at print precision
        for rng, g in (("R1", "41x41"), ("R1", "81x41"), ("R2", "41x41"), ("R3", "41x41")):
            dom = RANGES[rng]
            nT, nP = GRIDS[g]
            Tg, Pg = R.grid(dom[0], dom[1], nT), R.grid(dom[2], dom[3], nP)
            Zs = {v: np.round(R.Fn("poly3", KIDX[v], dom).table(Tg, Pg), 5) for v, _ in ALLDOC}
            for v, Z in Zs.items():
                check(len({tuple(r) for r in Z}) == nT and len({tuple(c) for c in Z.T}) == nP, f"{v}: rows/columns not distinct")
                if nT == nP:
                    check(not any(tuple(r) in {tuple(c) for c in Z.T} for r in Z), f"{v}: a row equals a column")
            allrows = [tuple(r) for Z in Zs.values() for r in Z]
            allcols = [tuple(c) for Z in Zs.values() for c in Z.T]
            check(len(set(allrows)) == len(allrows) and len(set(allcols)) == len(allcols), "rows/columns shared between variables")
        # 3. analytic derivatives against central differences
        for kind in ("poly3", "smooth"):
            fn = R.Fn(kind, 2, RANGES["R1"])
            T, P = np.array([130.0, 977.0, 1810.0]), np.array([3.3, 21.7, 38.9])
            for (m, n) in ((1, 0), (0, 1), (2, 0), (0, 2), (4, 0), (0, 4), (2, 2)):
                hT, hP = 20.0, 0.4
                if m:
                    num = (fn.deriv(T + hT, P, m - 1, n) - fn.deriv(T - hT, P, m - 1, n)) / (2 * hT)
                else:
                    num = (fn.deriv(T, P + hP, m, n - 1) - fn.deriv(T, P - hP, m, n - 1)) / (2 * hP)
                ana = fn.deriv(T, P, m, n)
                check(np.allclose(num, ana, rtol=2e-3, atol=1e-3 * fn.dmax(m, n)), f"derivative ({m},{n}) of {kind}")
        # 4. the bound against an independent bicubic spline (scipy, trusted base), both ranges
        for rng in ("R1", "R2"):
            dom = RANGES[rng]
            Tq = np.linspace(dom[0], dom[1], 317)
            Pq = np.linspace(dom[2], dom[3], 293)
            prev = None
            for n in LADDER:
                Tg, Pg = R.grid(dom[0], dom[1], n), R.grid(dom[2], dom[3], n)
                fn = R.Fn("smooth", 4, dom)
                s = RectBivariateSpline(Tg, Pg, fn.table(Tg, Pg))
                err = float(np.max(np.abs(s(Tq, Pq) - fn.table(Tq, Pq))))
                b = R.spline_bound(fn, Tg[1] - Tg[0], Pg[1] - Pg[0])
                check(err <= b, f"independent spline error {err:.3g} exceeds the bound {b:.3g} at n={n} ({rng})")
                check(prev is None or err < prev / 8, f"independent spline error does not fall 4th order at n={n}")
                prev = err
            fnp = R.Fn("poly3", 4, dom)
            Tg, Pg = R.grid(dom[0], dom[1], 41), R.grid(dom[2], dom[3], 41)
            s = RectBivariateSpline(Tg, Pg, fnp.table(Tg, Pg))
            check(float(np.max(np.abs(s(Tq, Pq) - fnp.table(Tq, Pq)))) <= 1e-10 * fnp.dmax(0, 0), "bicubic polynomial not reproduced")
            # asymmetry: a transposed evaluation is far outside every tolerance on every path
            for kind in ("poly3", "smooth"):
                fn = R.Fn(kind, 0, dom)
                for path in ("nodes", "between", "mixed"):
                    for npts in (1, 3, 50):
                        pts = geotherm_path(dom, path, npts)
                        check(all(dom[2] <= P <= dom[3] and dom[0] <= T <= dom[1] for P, T, _ in pts), "path leaves the table")
                        dif = [abs(float(fn(T, P)) - float(fn(min(max(P, dom[0]), dom[1]), min(max(T, dom[2]), dom[3])))) for P, T, _ in pts]
                        tol = [0.25 * R.cell_variation(Tg, Pg, fn.table(Tg, Pg), T, P) for P, T, _ in pts]
                        check(max(d_ / t for d_, t in zip(dif, tol)) > 4, f"transposition invisible on {rng} {kind} {path} {npts}")
                        for P, T, on in pts:
                            for n in LADDER + [41]:
                                isn = _is_node(T, dom[0], dom[1], n) and _is_node(P, dom[2], dom[3], n)
                                check(isn == on, f"node flag wrong for {(P, T)} at n={n}")
        # 4b. a wrong choice of geotherm column is visible at every point of the header-order paths, and the
        #      tables of the sequence part (other directory, rewritten) differ from each other row by row
        for rng in ("R1", "R2"):
            dom = RANGES[rng]
            for fam, (spec, _) in HEADER_FAMILIES.items():
                check(sorted(r for _, r in spec)[:2] == ["D", "P"] or {"P", "T"} <= {r for _, r in spec}, "family lacks P/T")
                check(len({n.lower() for n, _ in spec}) < len(spec), f"{fam}: no case-insensitive name collision")
                for path, npts in (("mixed", 3), ("nodes", 50), ("between", 50), ("mixed", 1)):
                    pts = geotherm_path(dom, path, npts)
                    rows, byrole = _geotherm_rows(spec, pts)
                    fn = R.Fn("poly3", KIDX["v_p"], dom)
                    visible = {}
                    for (P, T, _), vals in zip(pts, byrole):
                        g = float(fn(T, P))
                        for role in {r for _, r in spec} - {"P", "T"}:
                            xT, xP = min(max(vals[role], dom[0]), dom[1]), min(max(vals[role], dom[2]), dom[3])
                            # (a decoy clamped onto the point's own coordinate is the same request: nothing to see)
                            for what, x, real, other in (("T", xT, T, float(fn(xT, P))), ("P", xP, P, float(fn(T, xP)))):
                                vis = abs(other - g) > 1e-4 * abs(g)
                                check(vis or x == real, f"{fam} {rng} {path}{npts}: column '{role}' taken for {what} is invisible at {(P, T)}")
                                visible[(role, what)] = visible.get((role, what), 0) + vis
                    check(all(v >= (len(pts) + 1) // 2 for v in visible.values()), f"{fam} {rng} {path}{npts}: a wrong column is visible at too few points {visible}")
        domA = RANGES["R1"]
        for var in SEQ_VARS:
            seen = set()
            for g_, koffs in (("81x41", (0, 180, 240, 300)), ("41x41", (60,))):
                for k_ in koffs:
                    Tg, Pg = R.grid(domA[0], domA[1], GRIDS[g_][0]), R.grid(domA[2], domA[3], GRIDS[g_][1])
                    Z = np.round(R.Fn("poly3", KIDX[var] + k_, domA).table(Tg, Pg), 5)
                    rows_ = {tuple(r[:41:2]) for r in Z} | {tuple(c[:41:2]) for c in Z.T}
                    check(not (rows_ & seen), f"sequence tables of {var} share a row/column (koff {k_})")
                    seen |= rows_
        # 4b'. non-monotonic path shapes: inside the table, node flags right, first row == last row for the closed ones
        for rng in ("R1", "R2"):
            dom = RANGES[rng]
            for path in NONMONO + ["cycle:nodes", "loop:between"]:
                for npts in (1, 3, 50):
                    pts = geotherm_path(dom, path, npts)
                    check(len(pts) == npts and all(dom[2] <= P <= dom[3] and dom[0] <= T <= dom[1] for P, T, _ in pts), f"{path}{npts} leaves the table")
                    for P, T, on in pts:
                        for n in LADDER:
                            check((_is_node(T, dom[0], dom[1], n) and _is_node(P, dom[2], dom[3], n)) == on, f"{path}{npts}: node flag at {(P, T)}")
                    if npts > 1 and not path.startswith("zigzagP"):
                        check(pts[0][:2] == pts[-1][:2], f"{path}{npts} is not closed")
                        spanT = (max(T for _, T, _ in pts) - min(T for _, T, _ in pts)) / (dom[1] - dom[0])
                        spanP = (max(P for P, _, _ in pts) - min(P for P, _, _ in pts)) / (dom[3] - dom[2])
                        check(max(spanT, spanP) >= 0.7, f"{path}{npts}: excursion too small")
        # 4c. row arrangements: every one keeps all points; the dup-* ones contain an exactly repeated file row
        spec0 = LAYOUTS["L1"][0]
        for npts in (1, 3, 50):
            pts0 = geotherm_path(RANGES["R1"], "mixed", npts)
            rows0, by0 = _geotherm_rows(spec0, pts0)
            for how in ROW_ORDERS:
                p2, r2, b2 = _arrange(spec0, pts0, rows0, by0, how)
                check(len(p2) == len(r2) == len(b2) and {tuple(r) for r in rows0} <= {tuple(r) for r in r2}, f"{how}: rows lost")
                ndup = len(r2) - len({tuple(r) for r in r2})
                want = {"dup-first": 1, "dup-middle": 1, "dup-last": 1, "dup-apart": 1, "dup-two": 2}.get(how, 0)
                check(ndup == want, f"{how} ({npts} points): {ndup} exactly repeated rows, expected {want}")
                if how == "same-PT-other-passthrough":
                    check(len(r2) == npts + 1 and len({(p[0], p[1]) for p in p2}) == len({(p[0], p[1]) for p in pts0}), how)
                check(all(r == [b[role] for _, role in spec0] for r, b in zip(r2, b2)), f"{how}: rows and roles disagree")
        # 5. stdout parser, print precision, nearest index
        t = R.parse_stdout("      a     b\n0.0  1.50  -2e+03\n1.0  2.25   nan\n", header=True, has_index=True)
        check(t["names"] == ["a", "b"] and t["labels"] == ["0.0", "1.0"] and t["cols"][1] == ["-2e+03", "nan"], "parse_stdout")
        for bad in ("a b\n1 2\n", "a\n0 1 2\n0 1\n", "a\nx 1\n", ""):
            try:
                R.parse_stdout(bad, header=True, has_index=True)
                check(False, f"parse_stdout accepted {bad!r}")
            except ValueError:
                pass
        check(R.half_ulp("123.4500") == 0.5e-4 and R.half_ulp("-1.25e+02") == 0.5 and R.half_ulp("17") == 0.5, "half_ulp")
        check(R.nearest_index([0, 1, 2, 3], 1.4) == (1, True) and R.nearest_index([0, 1, 2, 3], 1.5)[1] is False
              and R.nearest_index([0, 1, 2], -9) == (0, True) and R.nearest_index([0, 1, 2], 9) == (2, True), "nearest_index")
        for g in (R.grid(0, 2000, 41), R.grid(0, 40, 41), R.grid(0, 2000, 81)):
            for req in extract_requests():
                y, want = _request(g, req)
                k, un = R.nearest_index(g, y)
                check((want is None and not un) or (want == k and un), f"request {req}")
        # 6. the glob model agrees with the real glob; a genuinely ambiguous pair is detected
        gd = os.path.join(d, "g")
        os.makedirs(gd)
        names = list(_dir_files("full")) + ["v_tp_extra.txt"]
        for n in names:
            open(os.path.join(gd, n), "w").close()
        for var, _ in ALLDOC:
            real = sorted(os.path.basename(p) for p in _glob.glob(os.path.join(gd, f"{var}_tp_*")))
            check(real == R.glob_matches(var, names), f"glob model differs for {var}")
        check(R.glob_matches("v", names) == ["v_tp_ang3.txt", "v_tp_extra.txt"], "ambiguity not seen by the model")
        check(R.ambiguous_names(extra_files=["v_tp_extra.txt"]) == {"v": ["v_tp_ang3.txt", "v_tp_extra.txt"]}, "ambiguous_names")
        pass
    finally:
        shutil.rmtree(d, ignore_errors=True)
    return ok
