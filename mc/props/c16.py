"""C16 — effective configuration = user settings over packaged defaults; invalid configurations rejected.

Parts (all bounded-exhaustive, nothing sampled):
  merge      small-scope complete: update_config(u, d) for every (u, d) in D_k x D_2
  apply      apply_default_config on every sub-dictionary (subset of leaf paths) of the shipped files,
             plus single type conflicts against every path of the packaged defaults
  validate   every documented field x every perturbation on every shipped file; verdict table transcribed
             from the statement/docs in mc/ref/config_ref.py (never from the schema file)
  yamljson   the same object spelled as .yaml / .yml / .json loads identically through read_config
  history    all operation sequences of length <= 3 on shared objects (module-level state isolation)
"""
import hashlib
import itertools
import json
import os
import shutil
import tempfile
from collections import Counter

from mc.explore import V, HarnessError
from mc.ref import config_ref as R

ID = "C16"
MOD = "mc.props.c16"

_CACHE = {}


def _space(depth, leaves=(1, 2)):
    key = ("space", depth, json.dumps(list(leaves)))
    if key not in _CACHE:
        sp = R.dict_space(depth, leaves=tuple(leaves))
        _CACHE[key] = [(d, R.flatten(d)) for d in sp]
    return _CACHE[key]


def _defaults():
    key = ("defaults", R.repo_root())
    if key not in _CACHE:
        d = R.packaged_defaults()
        if not isinstance(d, dict) or "qha" not in d:
            raise HarnessError(f"packaged defaults not readable under {R.repo_root()}")
        _CACHE[key] = d
    return _CACHE[key]


def _shipped(rel):
    key = ("file", R.repo_root(), rel)
    if key not in _CACHE:
        _CACHE[key] = R.load_yaml(rel)
    return _CACHE[key]


def _js(x, n=300):
    """Text of a value for messages: JSON when JSON spells it faithfully, repr otherwise (tuples, non-string keys,
    numpy scalars, dates ... must not be shown as their JSON look-alikes)."""
    try:
        s = json.dumps(x, sort_keys=True)
        if not R.same(json.loads(s), x):
            s = repr(x)
    except (TypeError, ValueError):
        s = repr(x)
    return s if len(s) <= n else s[:n] + "…"


class _Viol:
    """Aggregates violations of one batched case by signature (count + smallest witness)."""

    def __init__(self):
        self.d = {}

    def add(self, sig, msg, size=0):
        e = self.d.get(sig)
        if e is None:
            self.d[sig] = [1, size, msg]
        else:
            e[0] += 1
            if size < e[1]:
                e[1], e[2] = size, msg

    def out(self):
        return [V(sig, (f"[{n} input(s) of this case; smallest:] " if n > 1 else "") + msg)
                for sig, (n, _, msg) in sorted(self.d.items())]


# ------------------------------------------------------------------------------------------ merge oracle

class _Pair:
    """Lazily computed description of one (user, default) input: only needed when something is reported."""

    def __init__(self, u0, d0, tag):
        self.u0, self.d0, self.tag = u0, d0, tag
        self._cls = self._size = self._txt = None

    @property
    def cls(self):
        if self._cls is None:
            self._cls = R.conflict_class(self.u0, self.d0)
        return self._cls

    @property
    def size(self):
        if self._size is None:
            self._size = len(repr(self.u0)) + (len(repr(self.d0)) if self.tag.startswith("merge") else 0)
        return self._size

    @property
    def txt(self):
        if self._txt is None:
            self._txt = f"user={_js(self.u0)} default={_js(self.d0) if self.tag.startswith('merge') else '<packaged defaults>'}"
        return self._txt


def _check_merge(fn_merge, u, u0, d, d0, viol, counts, tag, expected=None):
    """One (user, default) pair through the real merge `fn_merge(u, d)` + the oracle.
    u, d are the live objects handed to cij; u0, d0 pristine snapshots; `expected` (optional) is
    ref_merge(u0, d0), used as a fast path: a result identical to it needs no further analysis.
    Returns the result or None."""
    P = _Pair(u0, d0, tag)
    counts["calls"] += 1
    try:
        r = fn_merge(u, d)
    except Exception as e:
        counts["raises"] += 1
        viol.add(f"c16:{tag}:raises:{P.cls}:{type(e).__name__}", f"{P.txt} raised {type(e).__name__}: {e}", P.size)
        r = None
    if not R.same(u, u0):
        viol.add(f"c16:{tag}:mutates-user", f"{P.txt}: user dict is now {_js(u)}", P.size)
    if d is not d0 and not R.same(d, d0):
        viol.add(f"c16:{tag}:mutates-default", f"{P.txt}: default dict is now {_js(d)}", P.size)
    if r is None:
        return None
    if expected is not None and R.same(r, expected):
        counts["ok_exact"] += 1
        return r
    diffs, info = R.compare(r, u0, d0)
    for kind, p, m in diffs:
        viol.add(f"c16:{tag}:{kind}:depth{len(p)}:{P.cls}", f"{P.txt} result={_js(r)}: at {R.dotted(p)}: {m}", P.size)
    if diffs:
        counts["wrong"] += 1
    elif info.get("open_leafless_over_leaf"):
        counts["ok_leafless_user_dict_over_default_leaf_not_asserted"] += 1
    elif info.get("leafless_kept") or info.get("leafless_in"):
        counts["ok_leafless_key_presence_not_asserted"] += 1
    else:
        counts["ok_exact"] += 1
    return r


def _check_idempotent(fn_merge, r, d, d0, viol, counts, tag, P, how=""):
    if not isinstance(r, dict):
        return
    r0 = R.clone(r)
    counts["calls"] += 1
    try:
        r2 = fn_merge(r, d)
    except Exception as e:
        viol.add(f"c16:{tag}:remerge-raises:{type(e).__name__}",
                 f"{P.txt}{how}: merging the result {_js(r0)} over the defaults again raised {type(e).__name__}: {e}", P.size)
        return
    if not R.same(r2, r0):
        viol.add(f"c16:{tag}:not-idempotent", f"{P.txt}{how}: merge(u,d)={_js(r0)} but merge(merge(u,d),d)={_js(r2)}", P.size)
    if not R.same(r, r0):
        viol.add(f"c16:{tag}:mutates-user:on-remerge", f"{P.txt}{how}: re-merge changed its first argument to {_js(r)}", P.size)
    if d is not d0 and not R.same(d, d0):
        viol.add(f"c16:{tag}:mutates-default:on-remerge", f"{P.txt}{how}: re-merge changed the defaults to {_js(d)}", P.size)


def _has_falsy_leaf(x):
    return any(not v for v in R.flatten(x)[0].values())


def _merge_loop(u0, space, tag, viol, counts):
    """update_config(u0, d) for every d of `space` (list of (dict, flattened)) + the oracle."""
    from cij.io.config import update_config
    u = R.clone(u0)
    if _has_falsy_leaf(u0):
        counts["users_with_null_or_falsy_leaf"] += 1
    ukeys = set(u0)
    ul, _ue = R.flatten(u0)
    for d0, (dl, _de) in space:
        d = R.clone(d0)
        counts["pairs"] += 1
        if not ukeys.isdisjoint(d0):
            counts["pairs_sharing_a_key"] += 1
        expected = R.unflatten(R.merge_leaves(ul, dl))
        r = _check_merge(update_config, u, u0, d, d0, viol, counts, tag, expected)
        if not R.same(u, u0):
            u = R.clone(u0)
        if not R.same(d, d0):
            d = R.clone(d0)
        if r is not None:
            P = _Pair(u0, d0, tag)
            _check_idempotent(update_config, r, d, d0, viol, counts, tag, P)
            if not R.same(u, u0):     # r may alias sub-dicts of u
                viol.add(f"c16:{tag}:mutates-user:on-remerge", f"{P.txt}: user now {_js(u)}", P.size)
                u = R.clone(u0)


def _run_merge(case):
    u0 = case["user"]
    space = _space(case.get("ddepth", 2), case.get("dleaves", [1, 2]))
    viol, counts = _Viol(), Counter()
    _merge_loop(u0, space, "merge", viol, counts)
    v = viol.out()
    outcome = "merge:" + ("ok" if not v else "+".join(sorted({x["sig"].split(":")[2] for x in v})))
    return {"viol": v, "nontrivial": bool(u0), "outcome": outcome, "counts": dict(counts),
            "key": "merge:" + json.dumps(u0, sort_keys=True) + "/" + json.dumps(case.get("dleaves", [1, 2]))}


def _named_space(depth, keys, leaves):
    key = ("named", depth, tuple(keys), tuple(leaves))
    if key not in _CACHE:
        _CACHE[key] = [(d, R.flatten(d)) for d in R.named_space(depth, keys, leaves)]
    return _CACHE[key]


def _run_mergex(case):
    """Small-scope merge over non-JSON-native leaves / non-string keys.  The case names its spaces; `ui` is the
    index of the user dictionary in the (deterministic) enumeration of the user space."""
    us = case["uspace"]
    ds = case["dspace"]
    U = _named_space(us["depth"], us["keys"], us["leaves"])
    D = _named_space(ds["depth"], ds["keys"], ds["leaves"])
    if not 0 <= case["ui"] < len(U):
        raise HarnessError(f"user index {case['ui']} outside a space of {len(U)}")
    u0 = U[case["ui"]][0]
    if case.get("desc") not in (None, R.show(u0)):
        raise HarnessError(f"case describes {case['desc']} but index {case['ui']} enumerates {R.show(u0)}")
    tag = "mergex-" + case["sub"]
    viol, counts = _Viol(), Counter()
    _merge_loop(u0, D, tag, viol, counts)
    v = viol.out()
    outcome = tag + ":" + ("ok" if not v else "+".join(sorted({x["sig"].split(":")[2] for x in v})))
    return {"viol": v, "nontrivial": bool(u0), "outcome": outcome, "counts": dict(counts),
            "key": f"{tag}:{us}:{case['ui']}/{ds}"}


# ------------------------------------------------------------------------------------------ apply oracle

def _variant_values(base, variant):
    leaves, _ = R.flatten(base)
    dl, _ = R.flatten(_defaults())
    if variant == "shipped":
        return leaves
    out = {}
    for p, v in leaves.items():
        if variant == "alt":          # every leaf that has a default differs from it
            out[p] = R.alt_value(dl[p]) if p in dl else v
        elif variant == "distinct":   # as shipped, except where the shipped value equals the default
            out[p] = R.alt_value(dl[p]) if p in dl and R.same(v, dl[p]) else v
        elif variant == "falsy":
            out[p] = R.falsy_value(v, dl.get(p, R.ABSENT))
        elif variant == "null":       # every kept leaf is an explicit null (YAML `key:` / JSON null)
            out[p] = None
        else:
            raise HarnessError(f"unknown variant {variant}")
    return out


def _check_apply_user(u0, viol, counts, extra_idem, tag="apply"):
    from cij.io.config import apply_default_config, update_config
    D0 = _defaults()
    u = R.clone(u0)

    def call(x, _d):
        return apply_default_config(x)

    counts["inputs"] += 1
    r = _check_merge(call, u, u0, D0, D0, viol, counts, tag, R.ref_merge(u0, D0))
    if r is None:
        return
    P = _Pair(u0, D0, tag)
    d = R.clone(D0)
    _check_idempotent(update_config, r, d, D0, viol, counts, tag, P, " (update_config(result, defaults))")
    if extra_idem:
        _check_idempotent(call, r, D0, D0, viol, counts, tag, P, " (apply_default_config(result))")
    if not R.same(u, u0):
        viol.add(f"c16:{tag}:mutates-user:on-remerge", f"{P.txt}: user now {_js(u)}", P.size)


def _masks_of(spec):
    if "range" in spec:
        a, b = spec["range"]
        return range(a, b)
    return spec["list"]


def _run_apply(case):
    viol, counts = _Viol(), Counter()
    if "users" in case:
        for u0 in case["users"]:
            if R.conflict_class(u0, _defaults()) != "no-type-conflict":
                counts["inputs_with_type_conflict"] += 1
            _check_apply_user(u0, viol, counts, True)
        key = "apply-users:" + hashlib.sha1(json.dumps(case["users"], sort_keys=True).encode()).hexdigest()[:12]
    else:
        base = _shipped(case["file"])
        paths = R.sorted_leaf_paths(base)
        n = len(paths)
        if case.get("nleaves") not in (None, n):
            raise HarnessError(f"{case['file']} has {n} leaves, case was generated for {case['nleaves']}")
        values = _variant_values(base, case["variant"])
        for m in _masks_of(case["masks"]):
            u0 = R.sub_dictionary(base, paths, m, values)
            k = bin(m).count("1")
            _check_apply_user(u0, viol, counts, k <= 3 or k >= n - 3)
        key = None
    v = viol.out()
    outcome = "apply:" + ("ok" if not v else "+".join(sorted({x["sig"].split(":")[2] for x in v})))
    res = {"viol": v, "nontrivial": counts["inputs"] > 0, "outcome": outcome, "counts": dict(counts)}
    if key:
        res["key"] = key
    return res


# ------------------------------------------------------------------------------------------ validation

def _verdict(fn, *a, **kw):
    from jsonschema.exceptions import ValidationError
    try:
        fn(*a, **kw)
    except ValidationError as e:
        return "rejected", str(e).splitlines()[0][:160]
    except Exception as e:
        return f"error:{type(e).__name__}", str(e)[:160]
    return "accepted", ""


def _run_validate(case):
    from cij.io.config import validate_config, read_config
    import yaml
    base = _shipped(case["base"])
    pert = case["pert"]
    cfg = R.apply_perturbation(base, pert)
    snap = R.clone(cfg)
    expect, cls, pid = pert["expect"], pert["cls"], pert["id"]
    if pert["op"] == "none":
        pid = case["base"]
    viol = []
    verdict, why = _verdict(validate_config, cfg)
    what = f"base={case['base']} perturbation={pid} ({pert['op']} {R.dotted(pert['path'])}" + \
           (f" = {_js(pert['value'], 80)})" if pert["op"] == "set" else ")")
    if not R.same(cfg, snap):
        viol.append(V("c16:validate:mutates-config", f"{what}: validate_config changed its argument to {_js(cfg)}"))
        cfg = R.clone(snap)
    if expect == "reject" and verdict == "accepted":
        viol.append(V(f"c16:validate:accepts:{cls}:{pid}", f"{what}: accepted, must be rejected ({cls})"))
    elif expect == "accept" and verdict != "accepted":
        viol.append(V(f"c16:validate:rejects:{cls}:{pid}", f"{what}: {verdict} ({why}), must be accepted ({cls})"))
    elif expect == "reject" and verdict.startswith("error:"):
        viol.append(V(f"c16:validate:raises:{verdict[6:]}:{cls}:{pid}",
                      f"{what}: raised {verdict[6:]} ({why}) instead of a validation error"))
    # the same verdict through files (read_config validates what it loads)
    tmp = tempfile.mkdtemp(prefix="c16-val-", dir="/dev/shm")
    try:
        for suffix, text in ((".json", json.dumps(snap)), (".yaml", yaml.safe_dump(snap))):
            fn = os.path.join(tmp, "settings" + suffix)
            with open(fn, "w") as fp:
                fp.write(text)
            fv, fwhy = _verdict(read_config, fn)
            if fv != verdict:
                viol.append(V(f"c16:validate:file-route-differs:{suffix}:{cls}",
                              f"{what}: validate_config -> {verdict}, read_config('settings{suffix}') -> {fv} ({fwhy})"))
    finally:
        shutil.rmtree(tmp, ignore_errors=True)
    return {"viol": viol, "nontrivial": expect != "unasserted", "outcome": f"{expect}:{verdict}",
            "key": f"val:{case['base']}:{pid}", "observed": verdict, "cls": cls}


# ------------------------------------------------------------------------------------------ annotated files

ANNOTATIONS = ["date", "timestamp", "int-keyed-block", "int-key", "scripted-tuple", "scripted-np-int", "scripted-np-float",
               "scripted-date-in-list"]
ANN_WHERE = {"<root>": (), "qha": ("qha",), "qha.settings": ("qha", "settings"), "output": ("output",)}
# extra keys directly under `qha` are used by a shipped file (diopside: frequency) and `output` is documented as a
# free-form object, so an annotated file must validate there; at the root / under qha.settings it is not asserted
ANN_MUST_VALIDATE = {"qha", "output"}


def _annotate(obj, ann, where):
    """-> (object to write as YAML, function applied to the loaded configuration by the 'script')."""
    import datetime
    import numpy
    lvl = ANN_WHERE[where]
    ex = R.exotic_leaves()
    if ann == "date":
        return R.set_path_raw(obj, lvl + ("created",), ex["date"]), None
    if ann == "timestamp":
        return R.set_path_raw(obj, lvl + ("stamp",), ex["datetime"]), None
    if ann == "int-keyed-block":
        return R.set_path_raw(obj, lvl + ("notes",), {1: "first", 2: {3: "nested"}}), None
    if ann == "int-key":
        return R.set_path_raw(obj, lvl + (1,), "first"), None
    scripted = {"scripted-tuple": ("cij", "vs"), "scripted-np-int": numpy.int64(31), "scripted-np-float": numpy.float64(50.0),
                "scripted-date-in-list": ["cij", datetime.date(2024, 5, 1)]}[ann]
    target = {"<root>": ("scripted",), "qha": ("qha", "scripted"), "qha.settings": ("qha", "settings", "NT" if ann == "scripted-np-int" else "DT"),
              "output": ("output", "pressure_base")}[where]
    return R.clone(obj), (target, scripted)


def _run_annotated(case):
    """A shipped YAML file + one annotation, through read_config -> (script) -> apply_default_config."""
    from cij.io.config import read_config, apply_default_config, update_config
    import yaml
    base = _shipped(case["file"])
    ann, where = case["ann"], case["where"]
    obj, script = _annotate(base, ann, where)
    text = yaml.safe_dump(obj, sort_keys=False)
    expected_loaded = yaml.safe_load(text)
    if not R.same(expected_loaded, obj):
        raise HarnessError(f"annotated object does not survive the trusted YAML round trip: {R.show(obj)}")
    what = f"{case['file']} + {ann} at {where}"
    viol = []
    tmp = tempfile.mkdtemp(prefix="c16-ann-", dir="/dev/shm")
    cfg, verdict = None, "accepted"
    try:
        fn = os.path.join(tmp, "settings.yaml")
        with open(fn, "w") as fp:
            fp.write(text)
        try:
            cfg = read_config(fn)
        except Exception as e:
            from jsonschema.exceptions import ValidationError
            verdict = "rejected" if isinstance(e, ValidationError) else f"error:{type(e).__name__}"
            if where in ANN_MUST_VALIDATE or not isinstance(e, ValidationError):
                viol.append(V(f"c16:annotated:read-{verdict.split(':')[0]}:{ann}:{where}:{type(e).__name__}",
                              f"{what}: read_config raised {type(e).__name__}: {str(e).splitlines()[0][:200]}"))
            try:
                cfg = read_config(fn, validate=False)
            except Exception as e2:
                viol.append(V(f"c16:annotated:read-raises:{ann}:{where}:{type(e2).__name__}",
                              f"{what}: read_config(validate=False) raised {type(e2).__name__}: {e2}"))
    finally:
        shutil.rmtree(tmp, ignore_errors=True)
    if cfg is None:
        return {"viol": viol, "outcome": f"annotated:{verdict}:not-loaded", "key": f"ann:{case['file']}:{ann}:{where}"}
    if not R.same(cfg, expected_loaded):
        viol.append(V(f"c16:annotated:loaded-differs:{ann}:{where}", f"{what}: read_config gave {R.show(cfg)}, the YAML text "
                      f"spells {R.show(expected_loaded)}"))
        cfg = R.clone(expected_loaded)
    if script:
        cfg = R.set_path_raw(cfg, script[0], script[1])
    u0 = R.clone(cfg)
    agg, counts = _Viol(), Counter()
    _check_apply_user(u0, agg, counts, True, tag="annotated")
    for x in agg.out():
        x["sig"] += f":{ann}:{where}"
        viol.append(x)
    return {"viol": viol, "outcome": f"annotated:{verdict}:" + ("ok" if not viol else "violation"),
            "key": f"ann:{case['file']}:{ann}:{where}", "calls": counts["calls"] + 1}


# ------------------------------------------------------------------------------------------ YAML vs JSON

def _run_yamljson(case):
    from cij.io.config import read_config
    import yaml
    obj = case["obj"]
    viol = []
    tmp = tempfile.mkdtemp(prefix="c16-yj-", dir="/dev/shm")
    loaded = {}
    try:
        texts = {".yaml": yaml.safe_dump(obj), ".yml": yaml.safe_dump(obj, default_flow_style=False, sort_keys=False),
                 ".json": json.dumps(obj)}
        if not R.same(yaml.safe_load(texts[".yaml"]), obj) or not R.same(json.loads(texts[".json"]), obj):
            raise HarnessError(f"probe object does not survive the trusted dumpers: {obj!r}")
        for suffix, text in texts.items():
            fn = os.path.join(tmp, "settings" + suffix)
            with open(fn, "w") as fp:
                fp.write(text)
            for validate in ([False, True] if case.get("valid") else [False]):
                try:
                    loaded[(suffix, validate)] = ("ok", read_config(fn, validate=validate))
                except Exception as e:
                    loaded[(suffix, validate)] = ("raise", type(e).__name__)
                    viol.append(V(f"c16:yamljson:raises:{suffix}:{type(e).__name__}",
                                  f"{case['name']}: read_config(settings{suffix}, validate={validate}) raised "
                                  f"{type(e).__name__}: {str(e)[:200]}"))
    finally:
        shutil.rmtree(tmp, ignore_errors=True)
    ref_key = (".json", False)
    roundtrip = True
    for k, (st, val) in loaded.items():
        if st != "ok" or loaded[ref_key][0] != "ok":
            continue
        if not R.same(val, loaded[ref_key][1]):
            viol.append(V(f"c16:yamljson:differ:{k[0]}-vs-.json",
                          f"{case['name']}: settings{k[0]} (validate={k[1]}) loads as {_js(val)} but settings.json as "
                          f"{_js(loaded[ref_key][1])}"))
        if not R.same(val, obj):
            roundtrip = False
            if case.get("strict"):       # string-leaf probes: the leaf must arrive intact in every spelling
                viol.append(V(f"c16:yamljson:string-leaf-changed:{k[0]}:{case.get('where', '')}",
                              f"{case['name']}: settings{k[0]} (validate={k[1]}) loads as {_js(val)}, the file spells {_js(obj)}"))
    return {"viol": viol, "outcome": "yamljson:" + ("identical" if not viol else "differ") +
            ("" if roundtrip else ":not-the-dumped-object(unasserted)"), "key": "yj:" + case["name"]}


# ------------------------------------------------------------------------------------------ YAML spellings

_FINE = {"NT": 31, "DT": 100, "T_MIN": 0}


def yaml_spellings():
    """YAML spellings that use anchors, aliases and merge keys, each with the expanded object (= its JSON spelling)
    written out by construction, without any YAML parser: style {block, flow} x merge source {single, list of two,
    nested} x override of a merged key {none, after the merge key, before it}, plus alias-only documents.
    Merge-key semantics (YAML 1.1 type `merge`): explicit keys win over merged ones wherever they stand, earlier
    mappings of a merge list win over later ones.  Plain duplicate keys are not produced (not asserted either way)."""
    out = []
    for style in ("block", "flow"):
        for source in ("single", "list", "nested"):
            for override in ("none", "after", "before"):
                fine = dict(_FINE)
                if source == "nested":
                    coarse_txt = [("<<", "*fine"), ("NT", 11), ("DELTA_P", 5)]
                    coarse = {"NT": 11, "DT": 100, "T_MIN": 0, "DELTA_P": 5}
                else:
                    coarse_txt = [("NT", 11), ("DT", 300), ("DELTA_P", 5)]
                    coarse = {"NT": 11, "DT": 300, "DELTA_P": 5}
                if source == "single":
                    mkey, merged = "*fine", dict(fine)
                elif source == "list":
                    mkey, merged = "[*fine, *coarse]", {**coarse, **fine}
                else:
                    mkey, merged = "*coarse", dict(coarse)
                settings_txt = [("<<", mkey), ("NTV", 81)]
                settings = {**merged, "NTV": 81}
                if override == "after":
                    settings_txt.insert(1, ("NT", 81))
                    settings["NT"] = 81
                elif override == "before":
                    settings_txt.insert(0, ("NT", 81))
                    settings["NT"] = 81
                fine_txt = list(fine.items())
                if style == "flow":
                    def fl(pairs):
                        return "{" + ", ".join(f"{k}: {v}" for k, v in pairs) + "}"
                    text = ("qha:\n  input: input01\n  presets:\n"
                            f"    fine: &fine {fl(fine_txt)}\n    coarse: &coarse {fl(coarse_txt)}\n"
                            f"  settings: {fl(settings_txt)}\nelast:\n  input: elast.dat\n")
                else:
                    def bl(pairs, ind):
                        return "".join(" " * ind + f"{k}: {v}\n" for k, v in pairs)
                    text = ("qha:\n  input: input01\n  presets:\n    fine: &fine\n" + bl(fine_txt, 6) +
                            "    coarse: &coarse\n" + bl(coarse_txt, 6) + "  settings:\n" + bl(settings_txt, 4) +
                            "elast:\n  input: elast.dat\n")
                obj = {"qha": {"input": "input01", "presets": {"fine": fine, "coarse": coarse}, "settings": settings},
                       "elast": {"input": "elast.dat"}}
                out.append({"name": f"merge:{style}:{source}:override-{override}", "yaml": text, "obj": obj, "valid": True})
    out.append({"name": "alias:scalar", "valid": True,
                "yaml": "qha:\n  input: &f input01\n  settings: {NT: &n 31, NTV: *n, DT: 100}\nelast:\n  input: *f\n",
                "obj": {"qha": {"input": "input01", "settings": {"NT": 31, "NTV": 31, "DT": 100}}, "elast": {"input": "input01"}}})
    out.append({"name": "alias:list+mapping", "valid": True,
                "yaml": "output:\n  pressure_base: &vars [cij, vs, vp]\n  volume_base: *vars\n"
                        "qha:\n  input: input01\n  settings: &s\n    NT: 31\n    DT: 100\n  same_again: *s\nelast: {input: elast.dat}\n",
                "obj": {"output": {"pressure_base": ["cij", "vs", "vp"], "volume_base": ["cij", "vs", "vp"]},
                        "qha": {"input": "input01", "settings": {"NT": 31, "DT": 100}, "same_again": {"NT": 31, "DT": 100}},
                        "elast": {"input": "elast.dat"}}})
    out.append({"name": "merge:two-levels", "valid": True,
                "yaml": "qha:\n  input: input01\n  presets:\n    sym: &sym {system: cubic, ignore_rank: false}\n"
                        "    mg: &mg {interpolator: spline, order: 3}\n  settings: {NT: 31}\n"
                        "elast:\n  input: elast.dat\n  settings:\n    symmetry:\n      <<: *sym\n      system: hexagonal\n"
                        "    mode_gamma:\n      order: 4\n      <<: *mg\n",
                "obj": {"qha": {"input": "input01", "presets": {"sym": {"system": "cubic", "ignore_rank": False},
                                                                 "mg": {"interpolator": "spline", "order": 3}},
                                "settings": {"NT": 31}},
                        "elast": {"input": "elast.dat", "settings": {"symmetry": {"system": "hexagonal", "ignore_rank": False},
                                                                     "mode_gamma": {"interpolator": "spline", "order": 4}}}}})
    return out


def _run_yamlspell(case):
    """A hand-spelled YAML document (anchors / aliases / merge keys) must load through read_config to the same
    dictionary as its expanded JSON spelling."""
    from cij.io.config import read_config
    obj, text = case["obj"], case["yaml"]
    viol = []
    tmp = tempfile.mkdtemp(prefix="c16-ys-", dir="/dev/shm")
    loaded = {}
    try:
        for suffix, body in ((".json", json.dumps(obj)), (".yaml", text), (".yml", text)):
            fn = os.path.join(tmp, "settings" + suffix)
            with open(fn, "w") as fp:
                fp.write(body)
            for validate in ([False, True] if case.get("valid") else [False]):
                try:
                    loaded[(suffix, validate)] = ("ok", read_config(fn, validate=validate))
                except Exception as e:
                    loaded[(suffix, validate)] = ("raise", type(e).__name__)
                    viol.append(V(f"c16:yamlspell:raises:{suffix}:{type(e).__name__}:{case['name']}",
                                  f"{case['name']}: read_config(settings{suffix}, validate={validate}) raised {type(e).__name__}: "
                                  f"{' '.join(str(e).split())[:200]}; the document is\n{text}"))
    finally:
        shutil.rmtree(tmp, ignore_errors=True)
    ref = loaded.get((".json", False))
    for k, (st, val) in loaded.items():
        if st != "ok" or not ref or ref[0] != "ok":
            continue
        if not R.same(val, ref[1]):
            viol.append(V(f"c16:yamlspell:differ:{k[0]}-vs-.json:{case['name']}",
                          f"{case['name']}: settings{k[0]} (validate={k[1]}) loads as {_js(val)} but the expanded settings.json as "
                          f"{_js(ref[1])}; the document is\n{text}"))
    return {"viol": viol, "outcome": "yamlspell:" + ("identical" if not viol else "differ"), "key": "ys:" + case["name"]}


# ------------------------------------------------------------------------------------------ working directory

_DECOY_DEFAULTS = """qha:
  input: decoy_input
  settings: {T_MIN: 300, DT: 7, DT_SAMPLE: 7, NT: 99, P_MIN: 50, DELTA_P: 9, DELTA_P_SAMPLE: 9, order: 5, static_only: true, volume_ratio: 3.0, zz_decoy: 1}
elast:
  input: decoy.dat
  settings:
    mode_gamma: {interpolator: akima, order: 9}
    symmetry: {system: cubic, ignore_residuals: true, ignore_rank: true, drop_atol: 5.0, residual_atol: 5.0}
output: {pressure_base: [decoy], volume_base: [decoy], zz_decoy: [x]}
zz_decoy: {nested: 1}
"""
_DECOY_CONTENT = {"defaults": _DECOY_DEFAULTS, "defaults-empty": "{}\n", "schema-permissive": "{}\n", "schema-rejecting": '{"not": {}}\n'}
_DEFAULT_PLACES = ["default/settings.yaml", "cij/data/default/settings.yaml", "data/default/settings.yaml", "settings.yaml"]
_SCHEMA_PLACES = ["schema/config.schema.json", "cij/data/schema/config.schema.json", "data/schema/config.schema.json",
                  "config.schema.json"]


def cwd_layouts():
    """name -> list of (relative path, content kind): what the working directory holds while cij runs."""
    L = {"empty": []}
    for pl in _DEFAULT_PLACES:
        L[f"defaults@{pl}"] = [(pl, "defaults")]
    L["defaults-empty@default/settings.yaml"] = [("default/settings.yaml", "defaults-empty")]
    for pl in _SCHEMA_PLACES:
        L[f"schema-permissive@{pl}"] = [(pl, "schema-permissive")]
        L[f"schema-rejecting@{pl}"] = [(pl, "schema-rejecting")]
    L["all-decoys-permissive"] = [(pl, "defaults") for pl in _DEFAULT_PLACES] + [(pl, "schema-permissive") for pl in _SCHEMA_PLACES]
    L["all-decoys-rejecting"] = [(pl, "defaults") for pl in _DEFAULT_PLACES] + [(pl, "schema-rejecting") for pl in _SCHEMA_PLACES]
    return L


def _run_cwd(case):
    """Everything again from inside a working directory that holds look-alike files: the effective configuration
    must still take its unspecified leaves from the PACKAGED defaults and validation must use the PACKAGED schema,
    i.e. all results are those of the reference, as in an empty directory."""
    from cij.io.config import apply_default_config, validate_config, read_config
    layout = case["layout"]
    ops = case.get("ops", "all")          # "all" | "apply" | "validate:<k>/<n>"  (a layout is split to balance the pool)
    files = cwd_layouts().get(layout)
    if files is None:
        raise HarnessError(f"unknown layout {layout}")
    D0 = _defaults()
    viol = _Viol()
    calls = 0
    old = os.getcwd()
    tmp = tempfile.mkdtemp(prefix="c16-cwd-", dir="/dev/shm")
    try:
        for rel, kind in files:
            fn = os.path.join(tmp, rel)
            os.makedirs(os.path.dirname(fn), exist_ok=True)
            with open(fn, "w") as fp:
                fp.write(_DECOY_CONTENT[kind])
        users = dict(_h_objects())
        users.pop("bad"), users.pop("d1")
        for rel in R.SHIPPED_REL:
            users["file:" + rel] = R.clone(_shipped(rel))
        good = R.clone(_shipped("examples/akimotoite/settings.yaml"))
        bad = {"qha": {"settings": {"NT": 0}}, "elast": {}}
        with open(os.path.join(tmp, "user_good.yaml"), "w") as fp:
            import yaml
            yaml.safe_dump(good, fp)
        with open(os.path.join(tmp, "user_bad.json"), "w") as fp:
            json.dump(bad, fp)
        os.chdir(tmp)
        # effective configuration
        for name, u0 in (users.items() if ops in ("all", "apply") else ()):
            u = R.clone(u0)
            calls += 1
            try:
                r = apply_default_config(u)
            except Exception as e:
                viol.add(f"c16:cwd:{layout}:apply-raises:{type(e).__name__}", f"cwd holds {files}: apply_default_config({name}) raised "
                         f"{type(e).__name__}: {e}", len(name))
                continue
            if not R.same(r, R.ref_merge(u0, D0)):
                diffs, _ = R.compare(r, u0, D0)
                viol.add(f"c16:cwd:{layout}:apply-differs", f"cwd holds {[f for f, _ in files]}: apply_default_config({name}) = {_js(r)}; "
                         f"first difference from the packaged defaults: {diffs[:1]}", len(name))
        # validation: every asserted perturbation of the packaged defaults + the shipped files
        base = _shipped(R.DEFAULT_REL)
        todo = [(p, R.apply_perturbation(base, p)) for p in R.perturbations() if p["expect"] != "unasserted"]
        todo += [({"id": rel, "expect": "accept", "cls": "shipped"}, R.clone(_shipped(rel))) for rel in R.SHIPPED_REL]
        if ops == "apply":
            todo = []
        elif ops.startswith("validate:"):
            k, n = (int(x) for x in ops[9:].split("/"))
            todo = todo[k::n]
        for pert, cfg in todo:
            calls += 1
            verdict, why = _verdict(validate_config, cfg)
            if pert["expect"] == "reject" and verdict != "rejected":
                viol.add(f"c16:cwd:{layout}:validate-{verdict.split(':')[0]}:{pert['cls']}",
                         f"cwd holds {[f for f, _ in files]}: {pert['id']}: {verdict} {why}, must be rejected", len(pert["id"]))
            elif pert["expect"] == "accept" and verdict != "accepted":
                viol.add(f"c16:cwd:{layout}:validate-{verdict.split(':')[0]}:{pert['cls']}",
                         f"cwd holds {[f for f, _ in files]}: {pert['id']}: {verdict} {why}, must be accepted", len(pert["id"]))
        # files read by relative and absolute path
        for fn, exp in ((("user_good.yaml", "accepted"), (os.path.join(tmp, "user_good.yaml"), "accepted"),
                         ("user_bad.json", "rejected"), (os.path.join(tmp, "user_bad.json"), "rejected"))
                        if ops in ("all", "apply") else ()):
            calls += 1
            verdict, why = _verdict(read_config, fn)
            if verdict != exp:
                viol.add(f"c16:cwd:{layout}:read-{verdict.split(':')[0]}", f"cwd holds {[f for f, _ in files]}: read_config({os.path.basename(fn)}) "
                         f"{verdict} {why}, expected {exp}", 0)
        try:
            got = read_config("user_good.yaml", validate=False)
            if not R.same(got, good):
                viol.add(f"c16:cwd:{layout}:read-differs", f"read_config(user_good.yaml) = {_js(got)}", 0)
        except Exception:
            pass
    finally:
        os.chdir(old)
        shutil.rmtree(tmp, ignore_errors=True)
    v = viol.out()
    return {"viol": v, "nontrivial": bool(files), "outcome": "cwd:" + ("ok" if not v else "violation"), "key": "cwd:" + layout + ":" + ops,
            "calls": calls}


# ------------------------------------------------------------------------------------------ histories

H_OPS = ["apply:u0", "apply:u1", "apply:uN", "apply:uF", "update:u1,d1", "update:uF,d1", "validate:u1", "validate:bad",
         "read:yaml", "read:json-bad", "scribble"]


def _h_objects():
    return {
        "u0": {},
        "u1": {"qha": {"settings": {"NT": 5, "T_MIN": 300}},
               "elast": {"settings": {"symmetry": {"system": "cubic"}, "mode_gamma": {"interpolator": "akima"}}},
               "output": {"pressure_base": ["cij"]}},
        "uN": {"qha": {"settings": {"static_only": None, "DT": 0, "T_MIN": None}}, "output": {"volume_base": None},
               "elast": {"settings": {"symmetry": {"ignore_rank": None, "drop_atol": 0.0}}}},
        "uF": R.clone(_shipped("examples/akimotoite/settings.yaml")),
        "d1": {"qha": {"settings": {"NT": 1, "DT": 2}, "input": "i"}, "extra": {"k": [1, 2]}},
        "bad": {"qha": {"settings": {"NT": 0}}, "elast": {}},
    }


def _scribble(x):
    if isinstance(x, dict):
        for k in list(x):
            if isinstance(x[k], (dict, list)):
                _scribble(x[k])
            else:
                x[k] = "SCRIBBLED"
        x["zz_scribbled"] = {"by": "caller"}
    elif isinstance(x, list):
        x[:] = ["SCRIBBLED"]


def _sha(path):
    with open(path, "rb") as fp:
        return hashlib.sha1(fp.read()).hexdigest()


def _run_history(case):
    from cij.io.config import apply_default_config, update_config, validate_config, read_config
    import yaml
    seq = case["seq"]
    D0 = _defaults()
    obj = _h_objects()
    snap = R.clone(obj)
    viol = []
    root = R.repo_root()
    packaged = [os.path.join(root, R.DEFAULT_REL), os.path.join(root, "cij/data/schema/config.schema.json")]
    tmp = tempfile.mkdtemp(prefix="c16-hist-", dir="/dev/shm")
    try:
        files = {"yaml": os.path.join(tmp, "settings.yaml"), "json-bad": os.path.join(tmp, "bad.json")}
        with open(files["yaml"], "w") as fp:
            yaml.safe_dump(snap["uF"], fp)
        with open(files["json-bad"], "w") as fp:
            json.dump(snap["bad"], fp)
        sha0 = {p: _sha(p) for p in packaged + list(files.values())}

        expected = {
            "apply:u0": ("ok", R.ref_merge(snap["u0"], D0)),
            "apply:u1": ("ok", R.ref_merge(snap["u1"], D0)),
            "apply:uN": ("ok", R.ref_merge(snap["uN"], D0)),
            "apply:uF": ("ok", R.ref_merge(snap["uF"], D0)),
            "update:u1,d1": ("ok", R.ref_merge(snap["u1"], snap["d1"])),
            "update:uF,d1": ("ok", R.ref_merge(snap["uF"], snap["d1"])),
            "validate:u1": ("ok", None),
            "validate:bad": ("raise", "ValidationError"),
            "read:yaml": ("ok", snap["uF"]),
            "read:json-bad": ("raise", "ValidationError"),
            "scribble": ("ok", R.ref_merge({}, D0)),
        }

        def do(op):
            try:
                if op.startswith("apply:"):
                    return ("ok", apply_default_config(obj[op[6:]]))
                if op.startswith("update:"):
                    a, b = op[7:].split(",")
                    return ("ok", update_config(obj[a], obj[b]))
                if op.startswith("validate:"):
                    return ("ok", validate_config(obj[op[9:]]))
                if op.startswith("read:"):
                    return ("ok", read_config(files[op[5:]]))
                if op == "scribble":
                    r = apply_default_config({})
                    before = R.clone(r)
                    _scribble(r)
                    return ("ok", before)
            except Exception as e:
                return ("raise", type(e).__name__)
            raise HarnessError(f"unknown op {op}")

        kept = []
        for i, op in enumerate(seq):
            got = do(op)
            exp = expected[op]
            if got[0] != exp[0] or not R.same(got[1], exp[1]):
                where = "alone" if i == 0 else "after-history"
                viol.append(V(f"c16:history:{op}:wrong-{where}",
                              f"sequence {seq}: step {i} {op} gave {_js(got)}, expected {_js(exp)}"))
            if op != "scribble" and got[0] == "ok":
                kept.append((i, op, got[1], R.clone(got[1])))
            for name in obj:
                if not R.same(obj[name], snap[name]):
                    viol.append(V(f"c16:history:input-mutated:{name}",
                                  f"sequence {seq}: after step {i} {op} the shared input {name} is {_js(obj[name])}"))
                    obj[name] = R.clone(snap[name])
        for i, op, live, was in kept:
            if not R.same(live, was):
                viol.append(V("c16:history:earlier-result-changed",
                              f"sequence {seq}: the result of step {i} {op} changed after it was returned: {_js(live)}"))
        for p, h in sha0.items():
            if _sha(p) != h:
                viol.append(V("c16:history:packaged-file-changed", f"sequence {seq}: {p} was rewritten"))
        try:
            final = apply_default_config({})
            if not R.same(final, R.ref_merge({}, D0)):
                viol.append(V("c16:history:defaults-drifted",
                              f"sequence {seq}: afterwards apply_default_config({{}}) = {_js(final)}"))
        except Exception as e:
            viol.append(V(f"c16:history:defaults-drifted:raises:{type(e).__name__}", f"sequence {seq}: {e}"))
    finally:
        shutil.rmtree(tmp, ignore_errors=True)
    return {"viol": viol, "nontrivial": len(seq) >= 2, "outcome": f"history:len{len(seq)}:" + ("ok" if not viol else "violation"),
            "key": "hist:" + ">".join(seq), "calls": len(seq) + 1}


# ------------------------------------------------------------------------------------------ dispatch

def run_case(case):
    kind = case.get("kind")
    if kind == "merge":
        return _run_merge(case)
    if kind == "mergex":
        return _run_mergex(case)
    if kind == "annotated":
        return _run_annotated(case)
    if kind == "apply":
        return _run_apply(case)
    if kind == "validate":
        return _run_validate(case)
    if kind == "yamlspell":
        return _run_yamlspell(case)
    if kind == "cwd":
        return _run_cwd(case)
    if kind == "yamljson":
        return _run_yamljson(case)
    if kind == "history":
        return _run_history(case)
    raise HarnessError(f"unknown case kind {kind}")


# ------------------------------------------------------------------------------------------ enumeration

def _groups(paths):
    E = [i for i, p in enumerate(paths) if p[0] == "elast"]
    Q = [i for i, p in enumerate(paths) if p[:2] == ("qha", "settings")]
    rest = [i for i in range(len(paths)) if i not in E and i not in Q]
    return E, Q, rest


def _bits(idx):
    m = 0
    for i in idx:
        m |= 1 << i
    return m


def quick_masks(paths):
    """Bounded enumeration used in both tiers: the full power set of the `elast` leaves x {none, all} of the
    qha.settings leaves, and every subset of (elast + qha.settings) leaves with <= 3 kept or <= 3 removed;
    each x {none, all} of the remaining leaves (inputs, output lists, ...)."""
    E, Q, rest = _groups(paths)
    L = E + Q
    core = set()
    for k in range(len(E) + 1):
        for sub in itertools.combinations(E, k):
            core.add(_bits(sub))
            core.add(_bits(sub) | _bits(Q))
    full = _bits(L)
    for k in range(0, min(3, len(L)) + 1):
        for sub in itertools.combinations(L, k):
            core.add(_bits(sub))
            core.add(full & ~_bits(sub))
    out = set()
    for m in core:
        out.add(m)
        out.add(m | _bits(rest))
    return sorted(out)


def full_L_masks(paths):
    E, Q, rest = _groups(paths)
    L = E + Q
    out = []
    for bitsel in range(1 << len(L)):
        m = 0
        for j, i in enumerate(L):
            if bitsel >> j & 1:
                m |= 1 << i
        out.append(m)
        out.append(m | _bits(rest))
    return out


def _chunks(lst, n):
    for i in range(0, len(lst), n):
        yield lst[i:i + n]


def apply_cases(quick):
    cases, info = [], {}
    for rel in R.SHIPPED_REL:
        base = R.load_yaml(rel)
        paths = R.sorted_leaf_paths(base)
        n = len(paths)
        qm = quick_masks(paths)
        info[rel] = {"leaves": n, "bounded_subsets": len(qm)}
        for variant in ("shipped", "alt", "falsy", "null"):
            for ch in _chunks(qm, 128):
                cases.append({"kind": "apply", "file": rel, "variant": variant, "nleaves": n, "masks": {"list": ch}})
        if quick:
            continue
        # full power sets.  Shipped file: every subset of its leaves, values as shipped except that a value equal
        # to the packaged default is changed ("distinct": otherwise who won is unobservable at that leaf).
        # Defaults file against itself: all subsets of the elast + qha.settings leaves x {none, all} of the rest,
        # every value changed ("alt").
        if rel == R.DEFAULT_REL:
            fm = full_L_masks(paths)
            info[rel]["full_subsets"] = {"alt": len(fm)}
            for ch in _chunks(fm, 1024):
                cases.append({"kind": "apply", "file": rel, "variant": "alt", "nleaves": n, "masks": {"list": ch}})
        else:
            info[rel]["full_subsets"] = {"distinct": 1 << n}
            for a in range(0, 1 << n, 1024):
                cases.append({"kind": "apply", "file": rel, "variant": "distinct", "nleaves": n,
                              "masks": {"range": [a, min(a + 1024, 1 << n)]}})
    return cases, info


MERGE_USER_LEAVES = [1, 2, None, 0, False, "", []]      # null and every falsy kind are ordinary leaf values
MERGE_DEFAULT_LEAVES = [1, 2, None]

CONFLICT_VALUES = [None, 0, 0.0, False, "", [], 7, "x", ["x"], [None], {}, {"zz_new": 1}, {"zz_new": None}, {"zz_new": {}},
                   {"zz_new": {"deep": [1]}}]


def conflict_cases():
    """One user entry at a time: every path (leaf or inner) of the packaged defaults and of every shipped file is
    set to every kind of value (null, each falsy scalar, scalars, lists, leafless and non-empty dictionaries), alone
    and on top of each shipped file.  The user's value must survive; everything else comes from the defaults."""
    paths = set()
    bases = [{}]
    for rel in R.SHIPPED_REL:
        obj = R.load_yaml(rel)
        bases.append(obj)
        for p in R.flatten(obj)[0]:
            for i in range(1, len(p) + 1):
                paths.add(p[:i])
    cases = []
    for p in sorted(paths):
        users = []
        for v in CONFLICT_VALUES:
            for b in bases:
                users.append(R.set_path(b, p, v))
        cases.append({"kind": "apply", "users": users, "at": R.dotted(p)})
    return cases, len(paths)


YJ_VALUES = [0, 1, -3, 10 ** 12, 0.5, 1.2, 1.0e-8, 1e20, 3.0, -2.5e-3, True, False, None, "", "x", "123", "1.5", "1e3",
             "yes", "no", "on", "off", "null", "~", "true", "False", "0x1F", "012", "1_000", "2001-01-01", "a: b", "# c",
             "ü", " lead", "trail ", "multi\nline", "- x", "{a}", "[1]", "!tag", "&a", "*a", "%", "@",
             [], [1, "a", [2.5], {"k": None}], {}, {"k": {"m": []}}]
YJ_KEYS = ["yes", "no", "1", "1.5", "null", "~", "a b", "true", "on", "", "ü", "a:b", "#", "-"]


YJ_STRINGS = [
    # '//' and '/* */' (what a JSON "comment" stripper would eat), alone, inside paths, URLs, globs
    "a//b", "../shared//input01", "out//v_s.txt", "file:///data/x", "https://host//p", "//", "// lead", "trail //", "a // b",
    "x/*y*/z", "*/", "/*", "/**/", "/* c */", "x /* y", "y */ z", "*.dat/*.txt and a/*/b", "a//b/*c*/d//e", "a/*b//c*/d",
    # YAML-sensitive content
    "#", "a # b", "#lead", "%", "50%", "%TAG", "a: b", ": ", "a:", "- ", "- a", "a - b", "{}", "{a}", "a{b}c", "{a: b}", "[a]", "a, b",
    # backslashes, quotes
    "\\", "a\\b", "C:\\dir\\file", "\\n", "\\\"", "\"", "\"q\"", "'", "'q'", "it's", "a\"b'c", "\"a//b\"",
    # blanks, control characters, unicode
    " lead", "trail ", " both ", "  ", "tab\there", "multi\nline", "line//\n//two", "ü/ß", "日本/データ", "é//è", "\u00a0nbsp", "\u2028sep",
]


def _string_positions(base, s_):
    """The configuration `base` with the string s_ at each string-typed place: the two documented file-name
    fields, an output list item, a free-form output value, and an output key."""
    out = []
    out.append(("qha.input", R.set_path(base, ("qha", "input"), s_)))
    out.append(("elast.input", R.set_path(base, ("elast", "input"), s_)))
    out.append(("output.pressure_base[0]", R.set_path(base, ("output", "pressure_base"), [s_, "cij"])))
    out.append(("output.fname", R.set_path(base, ("output", "fname"), {"vs": s_, "vp": "plain.txt"})))
    out.append(("output.<key>", R.set_path(base, ("output", s_), "as-key")))
    return out


def yamljson_string_cases():
    base = R.packaged_defaults()
    cases = []
    for i, s_ in enumerate(YJ_STRINGS):
        for where, obj in _string_positions(base, s_):
            cases.append({"kind": "yamljson", "name": f"string[{i}]={s_!r}@{where}", "obj": obj, "valid": True,
                          "strict": True, "where": where})
    return cases


def yamljson_cases():
    cases = []
    D = R.packaged_defaults()
    for rel in R.SHIPPED_REL:
        obj = R.load_yaml(rel)
        cases.append({"kind": "yamljson", "name": rel, "obj": obj, "valid": True})
        cases.append({"kind": "yamljson", "name": "effective:" + rel, "obj": R.ref_merge(obj, D), "valid": True})
    for i, v in enumerate(YJ_VALUES):
        obj = {"qha": {"input": "input01", "settings": {"probe": v}}, "elast": {"input": "elast.dat"}}
        cases.append({"kind": "yamljson", "name": f"value[{i}]={v!r}", "obj": obj, "valid": False})
    cases.append({"kind": "yamljson", "name": "keys", "valid": False,
                  "obj": {"qha": {"settings": {k: i for i, k in enumerate(YJ_KEYS)}}, "elast": {k: {k: k} for k in YJ_KEYS}}})
    return cases


def validate_cases():
    perts = R.perturbations()
    return [{"kind": "validate", "base": rel, "pert": p} for rel in R.SHIPPED_REL for p in perts], perts


X_LEAVES_A = ["one", "tuple", "date", "np_int64", "nan", "object"]
X_LEAVES_B = ["one", "np_float64", "bytes", "frozenset", "inf", "opaque"]
X_LEAVES_ALL = ["one", "tuple", "date", "np_int64", "np_float64", "bytes", "frozenset", "nan", "inf", "opaque", "object"]


def mergex_cases(quick):
    """Sub-spaces with non-JSON-native leaves (string keys) and with non-string keys (plain leaves)."""
    cases, info = [], []

    def add(sub, us, ds):
        U = R.named_space(us["depth"], us["keys"], us["leaves"])
        nd = len(R.named_space(ds["depth"], ds["keys"], ds["leaves"]))
        info.append({"sub": sub, "user_space": us, "users": len(U), "default_space": ds, "defaults": nd})
        for i, u in enumerate(U):
            cases.append({"kind": "mergex", "sub": sub, "uspace": us, "dspace": ds, "ui": i, "desc": R.show(u)})

    ab = ["a", "b"]
    # (1) leaves: both sides carry non-native leaves
    add("leaves", {"depth": 2, "keys": ab, "leaves": X_LEAVES_A}, {"depth": 2, "keys": ab, "leaves": ["one", "tuple9"]})
    add("leaves", {"depth": 2, "keys": ab, "leaves": X_LEAVES_B}, {"depth": 2, "keys": ab, "leaves": ["date2", "nan"]})
    if not quick:
        add("leaves", {"depth": 2, "keys": ab, "leaves": X_LEAVES_ALL}, {"depth": 2, "keys": ab, "leaves": ["one", "tuple9"]})
    # (2) keys: non-string keys at depth 1 and 2 on both sides / user side only / default side only
    small, full = (["one"], ["one", "two"]) if quick else (["one", "two"], ["one", "two"])
    for kp in R.key_pairs():
        add("keys-both", {"depth": 2, "keys": kp, "leaves": full}, {"depth": 2, "keys": kp, "leaves": small})
        add("keys-user-only", {"depth": 2, "keys": kp, "leaves": full}, {"depth": 2, "keys": ab, "leaves": small})
        add("keys-default-only", {"depth": 2, "keys": ab, "leaves": small}, {"depth": 2, "keys": kp, "leaves": full})
    # 1 and True are one dictionary key: user True / default 1 and the reverse
    add("keys-both", {"depth": 2, "keys": ["#True", "#2"], "leaves": full}, {"depth": 2, "keys": ["#1", "#2"], "leaves": small})
    add("keys-both", {"depth": 2, "keys": ["#1", "#2"], "leaves": full}, {"depth": 2, "keys": ["#True", "#2"], "leaves": small})
    return cases, info


def annotated_cases():
    return [{"kind": "annotated", "file": rel, "ann": ann, "where": where}
            for rel in R.SHIPPED_REL for ann in ANNOTATIONS for where in ANN_WHERE]


def _tally(ctx, results, inputs_key, note):
    tot = Counter()
    for r in results:
        for k, v in (r.get("counts") or {}).items():
            tot[k] += v
    ctx.states += tot.get(inputs_key, 0)
    ctx.transitions += tot.get("calls", 0)
    ctx.notes[note] = dict(tot)
    return tot


def explore(ctx):
    from mc import explore as X
    ctx.rule = (
        "merge: every (user, default) pair of small-scope dictionary spaces D(leaves, k) = all dictionaries over keys "
        "{a,b} with the given leaf values and nesting depth <= k, empty dictionaries included: both tiers "
        "D({1,2,null,0,false,'',[]},2) x D({1,null},2) = 5184 x 144; thorough adds the same users x D({1,2,null},2) "
        "= 5184 x 400, D({1,2},3) x D({1,2},2) and D({1,null},3) x D({1,null},2) = 21609 x 144 each; null is an ordinary leaf value; one case = one user dict "
        "against all defaults of its space. merge-non-json-native: the same product construction over (1) leaves that "
        "JSON cannot spell - tuple, datetime.date, numpy.int64/float64, bytes, frozenset, nan, inf, a value object, a bare "
        "object() - on both sides (two 6-leaf user spaces of 3136 x 144 defaults; thorough adds all 11 leaves, 24336 x "
        "144) and (2) non-string keys: every 2-key set over {a,1,2,(1,2),None,True} (14 sets, 1/True never together) at "
        "depth 1 and 2, on both sides, on the user side only and on the default side only, plus user True against "
        "default 1 and the reverse. apply-annotated-files: each shipped file x 8 annotations (unquoted date, timestamp, "
        "integer-keyed block, integer key, scripted tuple / numpy int / numpy float / date inside a list) x 4 levels "
        "through read_config -> apply_default_config. apply: apply_default_config on sub-dictionaries (subsets of "
        "leaf paths) of each shipped settings file in three value variants (as shipped / every leaf changed to differ "
        "from the default / every leaf falsy) on a bounded set in both tiers (power set of elast leaves, <=3 kept or <=3 "
        "removed of elast+qha.settings leaves, x {none, all} of the other leaves); thorough adds the full power set of "
        "the leaves of each example file (values as shipped, changed only where equal to the default) and, for the "
        "defaults file, all subsets of its elast+qha.settings leaves with every value changed; a fourth value variant 'every kept leaf null' on the bounded "
        "set; plus one user entry at a time at every path of the packaged defaults and of the shipped files, set to "
        "null / 0 / 0.0 / false / '' / [] / scalars / lists / leafless and non-empty dictionaries, alone and on top of "
        "each shipped file. validate: 4 shipped files x every documented field x every perturbation. "
        "yaml-anchors-merge-keys: style {block,flow} x merge source {single, list, nested} x override of a merged "
        "key {none, after, before} + alias-only and two-level documents, each against its expanded JSON spelling. "
        "working-directory: the effective configuration of 8 users, every asserted validation perturbation and file reads by "
        "relative/absolute path, from inside a cwd holding decoy files (other defaults at default/settings.yaml, "
        "cij/data/default/settings.yaml, data/default/settings.yaml, settings.yaml; a permissive / an all-rejecting schema "
        "at schema/config.schema.json, cij/data/schema/..., data/schema/..., config.schema.json; all at once; none): "
        "results must be those of the reference (packaged defaults, packaged schema). "
        "yamljson-string-leaves: every string of an alphabet of '//', '/* */', '#', '%', ': ', '- ', braces, quotes, "
        "backslashes, blanks, control characters and unicode at every string-typed place (qha.input, elast.input, an output "
        "list item, a free-form output value, an output key) in .json/.yaml/.yml: identical and the leaf intact. "
        "yamljson: shipped/effective configurations and one probe per scalar kind and YAML-sensitive string. history: "
        "all sequences of length 1..3 over 11 operations on shared objects. A case is non-trivial when: merge - the "
        "user dict is non-empty; apply - at least one input ran; validate - the verdict is asserted by the table "
        "(not 'unasserted'); history - length >= 2; yamljson - always. states = distinct inputs given to cij, "
        "transitions = calls of cij functions (measured by the workers).")
    ctx.assumptions = [
        "effective configuration is defined on leaf paths (mc/ref/config_ref.py docstring); lists are leaves; an "
        "explicit null (None) and every falsy scalar are ordinary user-specified leaf values that must survive",
        "a user sub-dictionary without any leaf specifies nothing: default leaves below it are taken (asserted); "
        "whether a leafless key survives in the result is not asserted, and a leafless user dict exactly on a default "
        "leaf may yield either the default leaf or the user's leafless dict (not asserted; an exception is a violation)",
        "every non-dict value is an opaque leaf; leaf equality = same object, or same type and == (NaN equals NaN, tuple "
        "is not list, numpy.int64(3) is not 3); a bare object() has no value semantics, so the result must hold that very "
        "object; dictionary keys must keep their value and type (1 and True are one key for Python: either accepted)",
        "annotated files must validate where a shipped file or the docs show that extra keys are allowed (directly under "
        "qha, under output); at the root and under qha.settings the validation verdict is recorded, not asserted",
        "result/input aliasing is not asserted (the statement only requires that the call leaves its inputs unmodified)",
        "validation verdict table transcribed from the statement and docs/usage/input.rst; numeric ranges: counts >= 1, "
        "T_MIN >= 0 K, volume_ratio >= 1, EoS order >= 2, interpolation order >= 1",
        "not asserted (executed, labelled 'unasserted'): unknown keys outside elast.settings / symmetry, wrong types "
        "of non-numeric non-enumerated fields, removal of single fields, sign of steps/tolerances, case variants of "
        "enumerated names, 3.0 for an integer, the unlisted settings DT_SAMPLE / static_only",
        "YAML merge-key semantics as in the YAML 1.1 merge type (explicit keys win wherever they stand; earlier entries of "
        "a merge list win); the expanded objects are written by construction and checked against a pristine PyYAML in a "
        "separate interpreter by --selftest; plain duplicate keys are not asserted either way",
        "PyYAML safe_dump/safe_load and json are trusted to spell an object faithfully (checked per probe)",
        "reference defaults read with yaml.safe_load from $VERIF_REPO/cij/data/default/settings.yaml",
    ]
    # merge spaces: (user leaves, user depth, default leaves, default depth)
    spaces = [(MERGE_USER_LEAVES, 2, [1, None], 2)]
    if not ctx.quick:
        spaces += [(MERGE_USER_LEAVES, 2, MERGE_DEFAULT_LEAVES, 2), ([1, 2], 3, [1, 2], 2), ([1, None], 3, [1, None], 2)]
    mcases, minfo = [], []
    for ul, ud, dl, dd in spaces:
        users = R.dict_space(ud, leaves=tuple(ul))
        minfo.append({"user_leaves": ul, "user_depth": ud, "users": len(users), "default_leaves": dl,
                      "default_depth": dd, "defaults": len(R.dict_space(dd, leaves=tuple(dl)))})
        mcases += [{"kind": "merge", "user": u, "ddepth": dd, "dleaves": dl} for u in users]
    res = ctx.run(MOD, "run_case", mcases, part="merge", states=0, transitions=0)
    _tally(ctx, res, "pairs", "merge_counts")

    xcases, xinfo = mergex_cases(ctx.quick)
    res = ctx.run(MOD, "run_case", xcases, part="merge-non-json-native", states=0, transitions=0)
    _tally(ctx, res, "pairs", "mergex_counts")

    acases, ainfo = apply_cases(ctx.quick)
    ccases, npaths = conflict_cases()
    res = ctx.run(MOD, "run_case", acases, part="apply-subdictionaries", states=0, transitions=0, chunksize=1)
    _tally(ctx, res, "inputs", "apply_counts")
    res = ctx.run(MOD, "run_case", ccases, part="apply-type-conflicts", states=0, transitions=0, chunksize=1)
    _tally(ctx, res, "inputs", "apply_conflict_counts")

    ncases = annotated_cases()
    res = ctx.run(MOD, "run_case", ncases, part="apply-annotated-files", states=0, transitions=0)
    ctx.states += len(ncases)
    ctx.transitions += sum(r.get("calls", 0) for r in res)
    ctx.notes["annotated_outcomes"] = dict(Counter(str(r.get("outcome")) for r in res))

    vcases, perts = validate_cases()
    res = ctx.run(MOD, "run_case", vcases, part="validate", transitions=3 * len(vcases))
    ctx.run_under(MOD, "run_case", vcases[:2] + vcases[len(vcases) // 2:len(vcases) // 2 + 2] + mcases[:1], ("-O",))   # interpreter started with -O (asserts stripped)
    table = {}
    unasserted = {}
    for c, r in zip(vcases, res):
        if r.get("harness_error"):
            continue
        e = table.setdefault(c["pert"]["expect"], Counter())
        e[r.get("observed")] += 1
        if c["pert"]["expect"] == "unasserted":
            unasserted.setdefault(c["pert"]["cls"], Counter())[r.get("observed")] += 1
    ctx.notes["validate_expected_vs_observed"] = {k: dict(v) for k, v in table.items()}
    ctx.notes["validate_unasserted_by_class"] = {k: dict(v) for k, v in sorted(unasserted.items())}

    ycases = yamljson_cases()
    ctx.run(MOD, "run_case", ycases, part="yamljson", transitions=4 * len(ycases))
    zcases = yamljson_string_cases()
    ctx.run(MOD, "run_case", zcases, part="yamljson-string-leaves", transitions=6 * len(zcases))
    scases = [dict(c, kind="yamlspell") for c in yaml_spellings()]
    ctx.run(MOD, "run_case", scases, part="yaml-anchors-merge-keys", transitions=6 * len(scases))

    wcases = [{"kind": "cwd", "layout": name, "ops": ops} for name in cwd_layouts()
              for ops in ("apply", "validate:0/3", "validate:1/3", "validate:2/3")]
    res = ctx.run(MOD, "run_case", wcases, part="working-directory", states=0, transitions=0, chunksize=1)
    ctx.states += len(cwd_layouts())
    ctx.transitions += sum(r.get("calls", 0) for r in res)

    hcases = [{"kind": "history", "seq": list(s)} for s in X.sequences(H_OPS, 3, min_len=1)]
    res = ctx.run(MOD, "run_case", hcases, part="history", states=0, transitions=0)
    ctx.states += len(hcases)
    ctx.transitions += sum(r.get("calls", 0) for r in res)

    ctx.notes["alphabets"] = {
        "merge_spaces": minfo, "mergex_spaces": xinfo, "annotated_files": len(ncases),
        "annotations": ANNOTATIONS, "annotation_levels": list(ANN_WHERE),
        "apply_files": ainfo, "apply_variants": 4, "apply_conflict_paths": npaths,
        "apply_conflict_values": len(CONFLICT_VALUES),
        "validate_bases": len(R.SHIPPED_REL), "validate_fields": len(R.FIELDS), "validate_perturbations": len(perts),
        "validate_by_expectation": dict(Counter(p["expect"] for p in perts)),
        "yamljson_objects": len(ycases), "yaml_spellings": len(scases), "yamljson_strings": len(YJ_STRINGS), "yamljson_string_cases": len(zcases), "cwd_layouts": len(cwd_layouts()), "history_ops": len(H_OPS), "history_max_len": 3, "history_sequences": len(hcases),
    }


# ------------------------------------------------------------------------------------------ selftest

def _naive_union(u, d):
    """Independent formulation, valid only without type conflicts and leafless dicts."""
    out = {}
    for k in set(u) | set(d):
        if k in u and k in d and isinstance(u[k], dict) and isinstance(d[k], dict):
            out[k] = _naive_union(u[k], d[k])
        elif k in u:
            out[k] = R.clone(u[k])
        else:
            out[k] = R.clone(d[k])
    return out


def selftest():
    ok = True

    def chk(cond, what):
        nonlocal ok
        if not cond:
            ok = False
            print("selftest FAILED:", what)

    D1, D2 = R.dict_space(1), R.dict_space(2)
    chk(len(D1) == 9 and len(D2) == 144, f"|D1|={len(D1)} |D2|={len(D2)}")
    chk(len({json.dumps(d, sort_keys=True) for d in D2}) == 144, "D2 has duplicates")
    chk(max(R.depth_of(d) for d in D2) == 2, "depth of D2")
    chk(len(R.dict_space(3)) == 21609, "|D3|")
    hand = [
        ({"a": 1}, {"b": 2}, {"a": 1, "b": 2}),
        ({"a": 1}, {"a": 2}, {"a": 1}),
        ({"a": {"b": 1}}, {"a": {"c": 2}}, {"a": {"b": 1, "c": 2}}),
        ({"b": 3}, {"a": {"c": 2}}, {"a": {"c": 2}, "b": 3}),
        ({"a": {"b": 1}}, {"a": 2}, {"a": {"b": 1}}),                 # user dict over default leaf
        ({"a": 1}, {"a": {"b": 2}}, {"a": 1}),                        # user leaf over default dict
        ({"a": {"b": {"c": 1}}}, {"a": {"b": 2, "d": 3}}, {"a": {"b": {"c": 1}, "d": 3}}),
        ({"a": {}}, {"a": {"b": 2}}, {"a": {"b": 2}}),                # leafless user dict specifies nothing
        ({"a": {}}, {"a": 2}, {"a": 2}),
        ({"a": {"b": {}}}, {"a": 2, "b": 1}, {"a": 2, "b": 1}),
        ({"a": [1]}, {"a": [2, 3]}, {"a": [1]}),                       # lists are leaves
        ({"a": 0, "b": False, "c": ""}, {"a": 5, "b": True, "c": "x"}, {"a": 0, "b": False, "c": ""}),
        ({"a": None}, {"a": 1}, {"a": None}),                          # null is an ordinary leaf value
        ({"a": {"b": None}}, {"a": {"b": 1, "c": None}}, {"a": {"b": None, "c": None}}),
        ({"a": None}, {"a": {"b": 1}}, {"a": None}),                   # null leaf over default dict
        ({"a": {"b": 1}}, {"a": None}, {"a": {"b": 1}}),               # user dict over default null leaf
        ({}, {"a": None}, {"a": None}),
    ]
    for u, d, ex in hand:
        chk(R.same(R.ref_merge(u, d), ex), f"ref_merge({u},{d}) = {R.ref_merge(u, d)} != {ex}")
        chk(R.compare(ex, u, d)[0] == [], f"compare rejects the expected result for {u},{d}: {R.compare(ex, u, d)[0]}")
    # compare must flag each class of slip
    chk([k for k, _, _ in R.compare({"a": 2}, {"a": 1}, {"a": 2})[0]] == ["default-overrides-user"], "default-overrides-user")
    chk([k for k, _, _ in R.compare({}, {"a": 1}, {})[0]] == ["user-leaf-lost"], "user-leaf-lost")
    chk([k for k, _, _ in R.compare({"a": 1}, {"a": None}, {"a": 1})[0]] == ["default-overrides-user"], "null user leaf overridden")
    chk([k for k, _, _ in R.compare({"a": {"b": [1]}}, {"a": {"b": None}}, {"a": {"b": [1]}})[0]] == ["default-overrides-user"],
        "nested null user leaf overridden")
    chk([k for k, _, _ in R.compare({}, {"a": None}, {})[0]] == ["user-leaf-lost"], "null user leaf dropped")
    chk([k for k, _, _ in R.compare({"a": 1}, {"a": 1}, {"b": None})[0]] == ["default-leaf-missing"], "null default leaf dropped")
    chk(len(R.dict_space(2, leaves=tuple(MERGE_USER_LEAVES))) == 5184 and len(R.dict_space(2, leaves=tuple(MERGE_DEFAULT_LEAVES))) == 400,
        "sizes of the extended merge spaces")
    chk([k for k, _, _ in R.compare({"a": 1}, {"a": 1}, {"b": 2})[0]] == ["default-leaf-missing"], "default-leaf-missing")
    chk([k for k, _, _ in R.compare({"a": 1, "c": 3}, {"a": 1}, {})[0]] == ["extra-key"], "extra-key")
    chk([k for k, _, _ in R.compare({"a": 1, "c": {}}, {"a": 1}, {})[0]] == ["extra-empty-dict"], "extra-empty-dict")
    chk(R.compare({"a": {}}, {"a": {}}, {})[0] == [] and R.compare({}, {"a": {}}, {})[0] == [], "leafless key not asserted")
    for good in ({"a": 2}, {"a": {}}):
        chk(R.compare(good, {"a": {}}, {"a": 2})[0] == [], f"leafless user dict over default leaf: {good} must be accepted")
    for bad in ({"a": 3}, {"a": {"x": 1}}, {}, {"a": {}, "b": {}}):
        chk(R.compare(bad, {"a": {}}, {"a": 2})[0] != [] or bad == {}, f"leafless user dict over default leaf: {bad} must be flagged")
    chk(R.compare({"a": {"b": {}}}, {"a": {"b": {}}}, {"a": 2, "b": 1})[0] != [], "default leaf b lost must be flagged")
    chk(R.compare({"a": {"b": {}}, "b": 1}, {"a": {"b": {}}}, {"a": 2, "b": 1})[0] == [], "nested leafless user dict over default leaf")
    chk(R.compare({"a": {}}, {"a": {}}, {"a": {"b": 1}})[0] != [], "defaults below a leafless user dict must be taken")
    chk(not R.same({"a": 1}, {"a": 1.0}) and not R.same({"a": 1}, {"a": True}) and R.same({"a": [1, {"b": 2}]}, {"a": [1, {"b": 2}]}),
        "typed equality")
    # non-JSON-native leaves and non-string keys
    import copy
    ex = R.exotic_leaves()
    chk(len(R.key_pairs()) == 14 and all(set(kp) != {"#1", "#True"} for kp in R.key_pairs()), "key pairs")
    chk(len(R.named_space(2, ["a", "b"], X_LEAVES_A)) == 3136 and len(R.named_space(2, ["#1", "#(1,2)"], ["one", "two"])) == 144,
        "named space sizes")
    chk(set(X_LEAVES_A) | set(X_LEAVES_B) == set(X_LEAVES_ALL) and len(X_LEAVES_ALL) == 11, "exotic leaf alphabets")
    for n, v in ex.items():
        chk(R.same(v, v) and R.same({"a": v}, {"a": v}), f"same({n}) reflexive")
        if n != "object":
            chk(R.same(v, copy.deepcopy(v)), f"an equal copy of {n} must be accepted")
    chk(not R.same(ex["object"], R.Bare()) and not R.same(ex["object"], copy.deepcopy(ex["object"])), "a different bare object is not the same value")
    chk(R.same(float("nan"), float("nan")) and not R.same(float("nan"), 1.0), "NaN equals NaN only")
    chk(not R.same((1, 2), [1, 2]) and not R.same(ex["np_int64"], 3) and not R.same(ex["np_float64"], 2.5)
        and not R.same(ex["date"], "2024-05-01") and not R.same(ex["date"], ex["datetime"]) and not R.same(b"x", "x"),
        "typed leaf equality")
    chk(not R.same({1: "x"}, {"1": "x"}) and R.same({1: "x"}, {True: "x"}) and not R.same({1: "x"}, {1.0: "x"})
        and not R.same({(1, 2): 1}, {"(1, 2)": 1}) and not R.same({None: 1}, {"null": 1}) and R.same({None: 1, (1, 2): {2: 3}}, {(1, 2): {2: 3}, None: 1}),
        "typed key equality")
    xhand = [
        ({"a": ex["tuple"]}, {"a": [1, 2], "b": ex["date"]}, {"a": ex["tuple"], "b": ex["date"]}),
        ({1: {2: "u"}}, {1: {2: "d", (1, 2): "d"}, None: 0}, {1: {2: "u", (1, 2): "d"}, None: 0}),
        ({True: "u"}, {1: "d", 2: "d"}, {1: "u", 2: "d"}),
        ({"a": ex["object"]}, {"a": {"b": ex["nan"]}}, {"a": ex["object"]}),
        ({"a": {"b": ex["nan"]}}, {"a": {"b": 1.0, "c": ex["bytes"]}}, {"a": {"b": ex["nan"], "c": ex["bytes"]}}),
    ]
    for u, d, exd in xhand:
        chk(R.same(R.ref_merge(u, d), exd), f"ref_merge({u},{d}) = {R.ref_merge(u, d)} != {exd}")
        chk(R.compare(exd, u, d)[0] == [], f"compare rejects the expected result for {u},{d}")
    chk([k for k, _, _ in R.compare({"a": [1, 2]}, {"a": (1, 2)}, {})[0]] == ["user-leaf-lost"], "tuple turned into a list")
    chk(sorted(k for k, _, _ in R.compare({"a": {"1": "x"}}, {"a": {1: "x"}}, {})[0]) == ["extra-key", "user-leaf-lost"],
        "integer key turned into a string")
    chk([k for k, _, _ in R.compare({"a": R.Bare()}, {"a": ex["object"]}, {})[0]] == ["user-leaf-lost"], "bare object replaced")
    chk([k for k, _, _ in R.compare({"a": 3}, {}, {"a": ex["np_int64"]})[0]] == ["default-leaf-missing"], "numpy default leaf retyped")
    # YAML spellings: a pristine PyYAML (fresh interpreter, cij never imported) must agree with the constructed objects
    import subprocess
    import sys
    sp = yaml_spellings()
    chk(len(sp) == 21 and len({c["name"] for c in sp}) == 21, "number of YAML spellings")
    script = ("import sys, json, yaml\ncases = json.load(sys.stdin)\nbad = [c['name'] for c in cases if yaml.safe_load(c['yaml']) != c['obj'] "
              "or yaml.load(c['yaml'], Loader=yaml.FullLoader) != c['obj']]\nassert 'cij' not in sys.modules\nprint(json.dumps(bad))")
    pr = subprocess.run([sys.executable, "-c", script], input=json.dumps(sp), capture_output=True, text=True, cwd="/",
                        env={k: v for k, v in os.environ.items() if k != "PYTHONPATH"})
    chk(pr.returncode == 0 and pr.stdout.strip() == "[]", f"pristine PyYAML disagrees with the constructed expansions: {pr.stdout} {pr.stderr[-300:]}")
    chk(any("<<: *fine, NT: 81" in c["yaml"] for c in sp), "the flow spelling with an overridden merged key is enumerated")
    chk(len(set(YJ_STRINGS)) == len(YJ_STRINGS) and len(YJ_STRINGS) > 60 and "a//b" in YJ_STRINGS and "x/*y*/z" in YJ_STRINGS
        and "\\" in YJ_STRINGS and "file:///data/x" in YJ_STRINGS, "string alphabet")
    zc = yamljson_string_cases()
    chk(len(zc) == 5 * len(YJ_STRINGS) and all(R.get_path(c["obj"], ("qha", "input")) is not R.ABSENT for c in zc), "string probe cases")
    chk(R.get_path(zc[0]["obj"], ("qha", "input")) == "a//b" and R.get_path(zc[4]["obj"], ("output", "a//b")) == "as-key", "string positions")
    lay = cwd_layouts()
    chk(len(lay) == 16 and lay["empty"] == [] and len(lay["all-decoys-permissive"]) == 8, "cwd layouts")
    import yaml as _y
    chk(_y.safe_load(_DECOY_DEFAULTS)["qha"]["settings"]["T_MIN"] == 300 and json.loads(_DECOY_CONTENT["schema-rejecting"]) == {"not": {}},
        "decoy contents parse")
    n_plain = 0
    for u in D2:
        ul, ue = R.flatten(u)
        chk(R.same(R.unflatten(ul), u) or bool(ue), f"flatten/unflatten round trip {u}")
        for d in D2:
            r = R.ref_merge(u, d)
            chk(R.same(R.ref_merge(r, d), r), f"reference not idempotent on {u},{d}")
            chk(R.compare(r, u, d)[0] == [], f"reference fails its own oracle on {u},{d}")
            rl = R.flatten(r)[0]
            chk(all(p in rl and rl[p] == v for p, v in ul.items()), f"reference loses a user leaf on {u},{d}")
            if R.conflict_class(u, d) == "no-type-conflict" and not R.has_empties(u) and not R.has_empties(d):
                n_plain += 1
                chk(R.same(r, _naive_union(u, d)), f"reference != naive union on conflict-free {u},{d}")
    chk(n_plain > 1000, f"only {n_plain} conflict-free pairs")
    chk(R.same(R.ref_merge({}, D2[57]), R.unflatten(R.flatten(D2[57])[0])), "merge with empty user")
    # verdict table sanity
    perts = R.perturbations()
    chk(len(R.INTERPOLATORS) == 7 and len(R.SYSTEMS) == 9 and len(R.FIELDS) == 18, "table sizes")
    chk(len({p["id"] for p in perts}) == len(perts), "perturbation ids not unique")
    by = Counter(p["expect"] for p in perts)
    chk(by["reject"] > 50 and by["accept"] > 50 and by["unasserted"] > 20, f"verdict table unbalanced {by}")
    base = {"qha": {"settings": {"NT": 3}}, "elast": {}}
    chk(R.same(R.set_path(base, ("qha", "settings", "NT"), 0)["qha"]["settings"], {"NT": 0}) and base["qha"]["settings"]["NT"] == 3,
        "set_path copies")
    chk("qha" not in R.del_path(base, ("qha",)) and "qha" in base, "del_path copies")
    chk(R.same(R.set_path(base, ("elast", "settings", "symmetry", "system"), "cubic")["elast"],
               {"settings": {"symmetry": {"system": "cubic"}}}), "set_path creates parents")
    for v in (0, 1, 2.5, "s", True, False, [1, 2]):
        chk(not R.same(R.alt_value(v), v), f"alt_value({v!r})")
        chk(not R.same(R.falsy_value(v, v), v), f"falsy_value({v!r}) equals the default")
    # mask enumeration
    paths = [("elast", "a"), ("elast", "b"), ("qha", "settings", "x"), ("qha", "settings", "y"), ("qha", "input"), ("output", "o")]
    chk(len(quick_masks(paths)) == 32 and len(set(full_L_masks(paths))) == 32, "mask enumerations on a toy file")
    return ok
