"""C12 — results are finite and real on the whole grid for every valid configuration (mode A)."""
from collections import OrderedDict
import os

import numpy

from mc import synth, calc as K
from mc.explore import V, HarnessError, lattice, case_key

ID = "C12"
MOD = "mc.props.c12"

METHODS = [["lsq_poly", 3]] + [["lsq_poly", o] for o in (1, 2, 4, 5)] + [["spline", o] for o in (2, 3, 4, 5)] + \
          [[m, o] for m in ("lagrange", "krogh", "pchip", "akima", "hermite") for o in (2, 3, 4, 5, 6, 7)]
TGRIDS = {"T0-300": dict(T_MIN=0, DT=300, DT_SAMPLE=300, NT=3), "T0-0.5": dict(T_MIN=0, DT=0.5, DT_SAMPLE=0.5, NT=4),
          "T0-2": dict(T_MIN=0, DT=2, DT_SAMPLE=2, NT=4), "T1-50": dict(T_MIN=1, DT=50, DT_SAMPLE=50, NT=3),
          "T0-500": dict(T_MIN=0, DT=500, DT_SAMPLE=500, NT=6),
          # steps that are not exactly representable in binary, with temperature counts at which float-step ranges mis-count
          "T0-0.6x10": dict(T_MIN=0, DT=0.6, DT_SAMPLE=0.6, NT=10), "T0-0.7x11": dict(T_MIN=0, DT=0.7, DT_SAMPLE=0.7, NT=11),
          "T0-1.3x9": dict(T_MIN=0, DT=1.3, DT_SAMPLE=1.3, NT=9), "T0-1.2x10": dict(T_MIN=0, DT=1.2, DT_SAMPLE=1.2, NT=10),
          "T0.1-0.1x13": dict(T_MIN=0.1, DT=0.1, DT_SAMPLE=0.1, NT=13)}
DIMS = OrderedDict([
    ("method", METHODS),
    ("system", ["orthorhombic"] + [s for s in synth.SYSTEMS if s != "orthorhombic"] + [None]),
    ("tgrid", list(TGRIDS)),
    ("compset", ["minimal", "nonzero", "full21"]),
    ("wset", ["mid", "edge", "low"]),
    ("shape", [[2, 1], [3, 2], [1, 2]]),
    ("lattice", ["power", "none"]),
    ("nv", [8, 6, 12]),                       # orders are admissible only below the number of sampled volumes (canon drops the rest)
    ("weights", ["increasing", "equal", "int", "scaled"]),
    ("qorder", [3, 4, 5]),                    # order of the QHA layer's own finite-strain fit
    ("pve", ["f", "E", "plus"]),
    ("static_nv", [None, 4, 5, 12]),          # rows of the static table (its own volumes); 4 is the smallest that determines the cubic fit              # number format of the P= V= E= volume headers of the phonon file
    ("pgrid", ["p2", "pfrac", "at-limit"]),     # at-limit: the largest NTV whose top pressure is still inside the computed range (within one DELTA_P of its end)
])
PGRIDS = {"p2": dict(NTV=31, DELTA_P=2.0, DELTA_P_SAMPLE=2.0), "pfrac": dict(NTV=27, DELTA_P=0.75, DELTA_P_SAMPLE=2.25, P_MIN=-1.5)}
AVG = ["bulk_modulus_voigt", "bulk_modulus_reuss", "bulk_modulus_voigt_reuss_hill", "shear_modulus_voigt",
       "shear_modulus_reuss", "shear_modulus_voigt_reuss_hill", "primary_velocities", "secondary_velocities"]


def run_case(case):
    method, order = case["method"]
    spec = dict(nv=case.get("nv", 8), nq=case["shape"][0], na=case["shape"][1], lattice=case["lattice"],
                system=case["system"], compset=case["compset"], static="generic", weights=case.get("weights", "increasing"), wset=case["wset"],
                interpolator=method, order=order, pve=case.get("pve", "f"), static_nv=case.get("static_nv"))
    spec["qha"] = dict(TGRIDS[case["tgrid"]], **PGRIDS["p2" if case.get("pgrid") == "at-limit" else case.get("pgrid", "p2")], order=case.get("qorder", 3))
    synth.VOLUME_SETS.setdefault(8, [320.0, 308.0, 296.0, 284.0, 272.0, 260.0, 248.0, 236.0])
    viol = []
    with K.scratch() as d:
        ds, st = synth.write(d, spec)
        if case.get("pgrid") == "at-limit":
            from mc.ref import pipeline_ref as P
            from mc.explore import repo_root
            try:
                reach = P.Pipeline(d, repo_root(), laws=ds["laws"]).p_reach_gpa     # an independently driven qha instance
                dp = 5.0
                for _ in range(6):          # the fine volume grid (hence the reach) depends on NTV: iterate to the fixed point
                    ntv = int(numpy.floor((reach - 1e-9 * abs(reach)) / dp)) + 1
                    spec["qha"].update(P_MIN=0, DELTA_P=dp, DELTA_P_SAMPLE=dp, NTV=ntv)
                    ds, st = synth.write(d, spec)
                    ref = P.Pipeline(d, repo_root(), laws=ds["laws"])
                    if ref.p_reach_gpa - dp < ref.p_desired_max_gpa <= ref.p_reach_gpa:
                        break
                    reach = ref.p_reach_gpa
                else:
                    raise HarnessError(f"at-limit grid misplaced: top {ref.p_desired_max_gpa} reach {ref.p_reach_gpa}")
            except HarnessError:
                raise
            except Exception as ex:
                raise HarnessError(f"reference qha run failed: {ex!r}")
        try:
            from cij.io import read_config
            read_config(os.path.join(d, "settings.yaml"))
        except Exception as ex:
            # every configuration enumerated here is admissible by the property's own quantifier (documented methods,
            # orders 1-5 / 2-5 below the number of volumes, documented grid settings): a refusal is a violation
            return {"viol": [V(f"c12:rejects-valid-configuration:{method}:{type(ex).__name__}", f"{method} order {order}, system {case['system']}, grid {case['tgrid']}: the settings file is refused: {K.fmt_exc(ex)[:300]}")],
                    "outcome": f"rejected:{method}"}
        try:
            from cij.core.calculator import Calculator
            c = Calculator(os.path.join(d, "settings.yaml"))
            iso, adi = c.modulus_isothermal, c.modulus_adiabatic
            t = numpy.asarray(c.t_array, float)
            cv = numpy.asarray(c.qha_calculator.volume_base.heat_capacity, float)
        except Exception as ex:
            return {"viol": [V(f"c12:raises:{method}:{type(ex).__name__}", f"valid configuration ({method} order {order}, system {case['system']}, grid {case['tgrid']}) raised {K.fmt_exc(ex)}")],
                    "outcome": f"raises:{method}"}
        nt = len(t)
        # wiring of the interpolation: the spectrum the calculator works with is the one interpolate_modes returns for the
        # CONFIGURED method and order on the calculator's own volume grid (C11 decides what interpolate_modes returns)
        try:
            from cij.core.mode_gamma import interpolate_modes
            f_d, g_d, b_d = interpolate_modes(c.qha_input, numpy.asarray(c.v_array), method, order)
            got3 = (numpy.asarray(c.freq_array), numpy.asarray(c.mode_gamma[1]), numpy.asarray(c.mode_gamma[0]))
            for nm, o, r in zip(("frequencies", "gamma", "V dgamma/dV"), got3, (f_d, g_d, b_d)):
                if o.shape != numpy.shape(r) or not numpy.array_equal(o, numpy.asarray(r), equal_nan=True):
                    viol.append(V(f"c12:wiring:{nm.split()[0]}", f"the calculator's {nm} are not those of interpolate_modes(method={method!r}, order={order}) on its volume grid (QHA fit order {case.get('qorder', 3)})"))
                    break
        except (AttributeError, TypeError):
            pass        # attribute layout / call signature changed: the wiring comparison is skipped, never an alarm
        for k in iso:
            a, b = numpy.asarray(iso[k]), numpy.asarray(adi[k])
            name = "c%d%d" % tuple(k.voigt)
            kind = "shear" if k.voigt[1] >= 4 else "nonshear"
            if a.dtype != numpy.float64 or b.dtype != numpy.float64:
                viol.append(V(f"c12:dtype:{kind}", f"{name}: dtype {a.dtype}/{b.dtype} instead of float64 ({method})"))
                continue
            if not numpy.all(numpy.isfinite(a)):
                rows = sorted(set(numpy.argwhere(~numpy.isfinite(a))[:, 0].tolist()))
                viol.append(V(f"c12:nonfinite:isothermal:{method}", f"{name} isothermal: non-finite at temperatures {t[rows].tolist()} ({method} order {order}, grid {case['tgrid']}, spectrum {case['wset']})"))
            ok_adi = (cv > 0) | (t[:, None] == 0)
            if not numpy.all(numpy.isfinite(b[ok_adi])):
                viol.append(V(f"c12:nonfinite:adiabatic:{method}", f"{name} adiabatic: non-finite where C_V > 0 or T = 0 ({method} order {order}, grid {case['tgrid']})"))
            if numpy.any(t == 0) and numpy.all(numpy.isfinite(a)) and numpy.all(numpy.isfinite(b[t == 0])):
                if not numpy.array_equal(a[t == 0], b[t == 0]):
                    viol.append(V("c12:gap-at-T0", f"{name}: adiabatic differs from isothermal at T = 0"))
                small = (t > 0) & (t <= 2.0)
                if small.any() and case["wset"] != "low":
                    i0 = int(numpy.argmax(t == 0))
                    dev = numpy.abs(a[small] - a[i0][None, :]).max()
                    if not dev <= 1e-6 * numpy.abs(a[i0]).max():
                        viol.append(V("c12:low-T-limit", f"{name}: |c(T<=2K) - c(0)| = {float(dev)!r} is not small (frequencies >= 200 cm-1)"))
        if viol:
            return {"viol": viol, "outcome": viol[0]["sig"]}
        # averages and velocities finite wherever the adiabatic stiffness is positive definite
        try:
            c6 = numpy.zeros((nt, cv.shape[1], 6, 6))
            for k in adi:
                i, j = k.voigt
                c6[:, :, i - 1, j - 1] = c6[:, :, j - 1, i - 1] = adi[k]
            pd = numpy.zeros(cv.shape, bool)
            for i in range(nt):
                for j in range(cv.shape[1]):
                    if numpy.all(numpy.isfinite(c6[i, j])):
                        try:
                            numpy.linalg.cholesky(c6[i, j])
                            pd[i, j] = True
                        except numpy.linalg.LinAlgError:
                            pass
            for nm in AVG:
                q = numpy.asarray(getattr(c.volume_base, nm))
                if q.dtype != numpy.float64 or not numpy.all(numpy.isfinite(q[pd])):
                    viol.append(V(f"c12:nonfinite:{nm}", f"{nm}: non-finite/complex where the stiffness is positive definite ({method} order {order})"))
        except Exception as ex:
            viol.append(V(f"c12:averages-raise:{type(ex).__name__}", K.fmt_exc(ex)))
    return {"viol": viol, "nontrivial": True, "outcome": f"ok/{len(iso)}keys/pd{int(pd.sum())}" if not viol else viol[0]["sig"]}


def canon(c):
    c = dict(c)
    if c["method"][1] >= c.get("nv", 8):
        return None        # not an admissible order for this number of volumes
    if c["system"] in (None, "triclinic") and c["compset"] == "nonzero":
        c["compset"] = "full21"
    return c


def explore(ctx):
    ctx.rule = ("mode A: deviation lattice over 39 (method, order) pairs (orders up to n_V-1) x 3 volume counts x 4 weight kinds x QHA fit orders 3-5 x 2 pressure grids x 10 system settings x 5 temperature grids (T_MIN>=0, "
                "DT 0.5..500 K) x 3 component sets x 3 spectra (incl. 1500 cm-1 modes and 30-60 cm-1 modes) x 3 shapes x lattice block; "
                "every configuration is schema-validated and run through the real Calculator; quick <=2 deviations, thorough full "
                "product of method x system x tgrid x compset x wset plus <=2 deviations of the rest; non-trivial = all")
    ctx.assumptions = ["well-formed synthetic inputs: positive non-acoustic frequencies, decreasing volumes, pressures inside the range",
                       "positive definiteness decided by numpy Cholesky of the reported adiabatic stiffness"]
    dims = OrderedDict((k, list(v)) for k, v in DIMS.items())
    cases, seen, edges = [], set(), 0

    def add(cfg, k):
        nonlocal edges
        c = canon(dict(cfg))
        if c is None:
            return
        key = case_key(c)
        edges += max(k, 1)
        if key not in seen:
            seen.add(key)
            cases.append(c)
    for cfg, k in lattice(dims, 2):
        add(cfg, k)
    if not ctx.quick:
        core = OrderedDict((k, dims[k]) for k in ("method", "system", "tgrid", "compset", "wset"))
        for cfg, k in lattice(core, None):
            full = dict(cfg, shape=dims["shape"][0], lattice=dims["lattice"][0])
            add(full, k)
    ctx.exhaustive = False
    ctx.notes["lattice"] = {"dims": {k: len(v) for k, v in dims.items()}, "configs": len(cases),
                            "bound": "2 deviations" if ctx.quick else "full product of 5 core dimensions + 2 deviations overall"}
    ctx.run(MOD, "run_case", cases, part="configurations", transitions=edges, chunksize=2)
    ctx.run_under(MOD, "run_case", cases[:1] + cases[len(cases) // 2:len(cases) // 2 + 2], ("-O",))


def selftest():
    return True
