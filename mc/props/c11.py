"""C11 — every interpolation method returns ONE consistent (omega, gamma, V dgamma/dV) triple  (mode A).

interp cases: interpolate_modes(qha_input, v_array, method, order) on analytic mode tables
  (1) power-law data (and ln w polynomial of degree <= order for lsq_poly): the returned triple equals the
      analytic triple on the whole (extended) grid;
  (2) every data kind: the three arrays belong to one interpolant, checked through
      ln w(V) - ln w(V_0) = -int gamma dlnV  and  gamma(V) - gamma(V_0) = int (V dgamma/dV) dlnV
      by composite quadrature on the returned arrays (2001-point grid, cumulative, every end point);
  (3) Gamma acoustic slots exactly 0 in all three arrays;
  (4) each (q,m) slot belongs to its own law (distinct law per slot; square (3,3) shape makes [m,q] legal);
  (5) no NaN / inf anywhere on the grid, no exception.
  The lattice also carries unit scales (frequency x1e-3/x1e3, volume in A^3 / x1e3: gamma and V dgamma/dV are
  scale-free, omega scales), corner shapes (Gamma only; n_p = 3, i.e. nothing but acoustic modes at Gamma) and
  the spelling of the Gamma acoustic residuals.  Mode branches of one q-point cross between sampled volumes.
plot cases: the real Calculator._interpolate_modes wiring on a duck `self`, then
  ModePlotter(duck).plot_modes(recording_axes, n, iq): y-data for n = 0,1,2 are omega, gamma, V dgamma/dV.
history cases (mode B): sequences of interpolate_modes calls inside ONE process over an alphabet of call
  descriptions (same input / other grid / other method / other input of the same shape / other shape and unit /
  the SAME object refilled in place / objects created and released so that addresses are re-used); every call is
  held to the per-call oracle for ITS arguments, the inputs are unchanged by the call, results handed out earlier
  do not change later (the caller overwrites its own copies in between), and nothing returned aliases anything.
plotseq cases (mode B): sequences of plot_modes(n, iq) on ONE ModePlotter and ONE recording axes.
"""
import gc
import itertools
from collections import OrderedDict
from types import SimpleNamespace

import numpy

from mc.explore import V, HarnessError
from mc.ref import interp_ref as R

ID = "C11"
MOD = "mc.props.c11"

# DESIGN §5, unit-free identity: exactness for data that lies in the interpolant's function space.
# A backward-stable evaluation has error ~ Lebesgue constant (<~1e3 on the x1.2 grid for <= 6 nodes)
# x eps x |ln w| ~ 1e-12; the tolerances below leave >= 3 orders on top of that and are 5+ orders below
# any slip named in the property (sign, duplicated derivative, unflipped array, index swap: O(1)).
RTOL_W = 1e-9        # relative, on omega
ATOL_G = 1e-7        # absolute, on gamma and V dgamma/dV (both O(1) quantities)
TOL_ID = 1e-3        # scaled residual of the integral identities: 1e-3 of the range (DESIGN C11) plus the a-posteriori
                     # trapezoid bound sum h|df|/2 of the oracle's own quadrature (capped at 1e-3): h ~ 4e-4 on 2001 points,
                     # so second-derivative jumps of a C1 interpolant (pchip: measured 4.7e-4) stay inside; slips are >= 0.1

METHODS = ("spline", "lagrange", "krogh", "pchip", "akima", "hermite", "lsq_poly")   # config.schema.json enum
NODE_BASED = ("lagrange", "krogh", "pchip", "akima", "hermite")
MO = [["spline", k] for k in (2, 3, 4, 5)] + [[m, o] for m in NODE_BASED for o in (2, 3, 6)] + \
     [["lsq_poly", k] for k in (1, 2, 3, 4, 5)]
DATA = [["power", 0], ["morse", 0]] + [["poly", d] for d in (1, 2, 3, 4, 5)]

SCALE_DIMS = OrderedDict([               # crossed with a reduced core in quick, with everything in thorough
    ("wscale", [1.0, 1e-3, 1e3]),
    ("vscale", [1.0, R.ANG3_PER_BOHR3, 1e3]),
    ("acoustic", ["mixed", "positive"]),
])
CORNER_SHAPES = [[1, 6], [2, 3], [1, 3]]  # Gamma only; only acoustic modes at Gamma; both (nothing to interpolate)

DIMS = OrderedDict([
    ("mo", [["lsq_poly", 3]] + [x for x in MO if x != ["lsq_poly", 3]]),     # shipped default first
    ("nv", [8, 6, 7, 12]),       # 7: the node-based methods keep every third / second volume INCLUDING the last one
    ("data", DATA),
    ("vkind", ["extended", "inside"]),
    ("shape", [[2, 6], [3, 3]]),
])


def canon(case):
    method, order = case["mo"]
    if order >= case["nv"]:
        return None                       # admissible orders are below the number of sampled volumes
    return case


def exact_expected(case):
    """Is the data inside the function space of the method at this order (so the result must be exact)?"""
    method, order = case["mo"]
    kind, d = case["data"]
    if kind == "power" or (kind == "poly" and d == 1):
        return True
    if kind == "poly" and method == "lsq_poly" and d <= order:
        return True
    return False


def real_input(inp):
    """The plain reference objects re-packed into the package's own model NamedTuples."""
    from cij.io.traditional.models import QHAInputData, VolumeData, QPointData, QPointWeight
    try:
        return QHAInputData(
            nv=inp.nv, nq=inp.nq, np=inp.np, nm=inp.nm, na=inp.na,
            weights=[QPointWeight(c, w) for c, w in inp.weights],
            volumes=[VolumeData(pressure=v.pressure, volume=v.volume, energy=v.energy,
                                q_points=[QPointData(coord=q.coord, modes=list(q.modes)) for q in v.q_points])
                     for v in inp.volumes])
    except TypeError as e:
        raise HarnessError(f"model objects changed their fields: {e}")


def _finite_block(ok):
    """Longest contiguous run of True in the boolean vector ok -> slice (or None); first one on ties."""
    ok = numpy.asarray(ok, bool)
    if not ok.any():
        return None
    edges = numpy.diff(numpy.concatenate(([0], ok.astype(numpy.int8), [0])))
    starts, stops = numpy.flatnonzero(edges == 1), numpy.flatnonzero(edges == -1)
    i = int(numpy.argmax(stops - starts))
    return slice(int(starts[i]), int(stops[i]))


def _fmt(x):
    return f"{float(x):.6g}"


# =========================================================================== interp cases

def build(case):
    """(plain input, laws, sampled volumes, V0, evaluation grid as float64) of a case / call description."""
    nq, npm = case["shape"]
    kind, degree = case["data"]
    pres = case.get("vpres", "float64")
    vscale = case.get("vscale", 1.0) * (R.INT_GRID_UNIT if pres.startswith("int") else 1.0)
    inp, laws, vols, v0 = R.build_input(case["nv"], nq, npm, kind, degree,
                                        wscale=case.get("wscale", 1.0), vscale=vscale,
                                        acoustic=case.get("acoustic", "mixed"), offset=case.get("offset", 0),
                                        weights=case.get("weights", "unit"), dup=case.get("dup", "none"))
    v = R.present_grid(pres, case["vkind"], vols, n=case.get("ntv", R.N_GRID))[1]
    return inp, laws, vols, v0, v


def presented_grid(case, vols):
    return R.present_grid(case.get("vpres", "float64"), case["vkind"], vols, n=case.get("ntv", R.N_GRID))[0]


def run_interp(case):
    from cij.core.mode_gamma import interpolate_modes
    method, order = case["mo"]
    inp, laws, vols, v0, v = build(case)
    pres = case.get("vpres", "float64")
    vp = presented_grid(case, vols)               # what the code is handed: dtype / strides / flags of this presentation
    if not numpy.array_equal(vp.astype(numpy.float64), v):
        raise HarnessError("presented grid and its float64 twin differ")
    try:
        with numpy.errstate(all="ignore"):
            res = interpolate_modes(real_input(inp), vp, method=method, order=order)
    except Exception as e:
        return {"viol": [V(f"c11:{method}:raises:{type(e).__name__}" + ("" if pres == "float64" else f":grid-{pres}"),
                           f"interpolate_modes(method={method!r}, order={order}) on {case['nv']} volumes"
                           f"{'' if pres == 'float64' else f' with a {pres} volume grid'} raised {type(e).__name__}: {str(e)[:160]}")],
                "nontrivial": False, "outcome": f"raises:{type(e).__name__}"}
    out = evaluate(case, res, laws, vols, v0, v)
    if not numpy.array_equal(vp.astype(numpy.float64), v):
        out["viol"].append(V(f"c11:{method}:v_array-modified", f"the {pres} volume grid was changed in place by the call"))
    if pres not in ("float64", "float32"):
        # same volumes, other presentation (dtype / strides / flags): the statement is about the volumes, so the
        # result must be what the plain float64 array of the same values gives, bit for bit
        try:
            with numpy.errstate(all="ignore"):
                ref = interpolate_modes(real_input(inp), v.copy(), method=method, order=order)
            diff = []
            for nm, a, b in zip(("omega", "gamma", "V dgamma/dV"), res, ref):
                a, b = numpy.asarray(a), numpy.asarray(b)
                if a.shape != b.shape:
                    diff.append(f"{nm}: shape {a.shape} vs {b.shape}")
                    continue
                bad = ~((a == b) | (numpy.isnan(a.astype(float)) & numpy.isnan(b.astype(float))))
                if bad.any():
                    i = tuple(int(x) for x in numpy.argwhere(bad)[0])
                    diff.append(f"{nm} (dtype {a.dtype}) differs at {int(bad.sum())} entries, e.g. [{i}] (V={float(v[i[0]])!r}) = {a[i].item()!r} vs {b[i].item()!r}")
            if diff:
                out["viol"].append(V(f"c11:{method}:grid-{pres}-differs-from-float64",
                                     f"method={method} order={order}: the same {len(v)} volumes handed over as a {pres} array "
                                     f"(dtype {vp.dtype}, contiguous={vp.flags.c_contiguous}, writeable={vp.flags.writeable}) do not give the "
                                     f"float64 result: " + "; ".join(diff)))
        except Exception as e:
            out["viol"].append(V(f"c11:{method}:raises:{type(e).__name__}", f"float64 twin of the case raised {e!r}"))
        if out["viol"]:
            out["outcome"] = out["viol"][0]["sig"]
    if case.get("weights", "unit") != "unit":
        # weights play no role in the statement: the result must be the unit-weight result, bit for bit
        plain_u = build(dict(case, weights="unit"))[0]
        try:
            with numpy.errstate(all="ignore"):
                ref = interpolate_modes(real_input(plain_u), v.copy(), method=method, order=order)
            same = all(numpy.array_equal(numpy.asarray(a), numpy.asarray(b), equal_nan=True) for a, b in zip(res, ref))
        except Exception as e:
            same, ref = False, None
            out["viol"].append(V(f"c11:{method}:raises:{type(e).__name__}", f"unit-weight twin of the case raised {e!r}"))
        if not same and ref is not None:
            names = ("omega", "gamma", "V dgamma/dV")
            diff = []
            for nm, a, b in zip(names, res, ref):
                a, b = numpy.asarray(a, float), numpy.asarray(b, float)
                bad = ~((a == b) | (numpy.isnan(a) & numpy.isnan(b))) if a.shape == b.shape else None
                if bad is None:
                    diff.append(f"{nm}: shape {a.shape} vs {b.shape}")
                elif bad.any():
                    i = tuple(int(x) for x in numpy.argwhere(bad)[0])
                    qs = sorted({int(x[1]) for x in numpy.argwhere(bad)})
                    diff.append(f"{nm} differs at q-point(s) {qs}, e.g. [{i}] = {float(a[i])!r} vs {float(b[i])!r} with unit weights")
            wts = R.weights_for(case["weights"], case["shape"][0])
            out["viol"].append(V(f"c11:{method}:depends-on-weights",
                                 f"method={method} order={order} shape {case['shape']}: with q-point weights {wts if wts is not None else '[] (empty list)'} "
                                 f"the result is not identical to the unit-weight result: " + "; ".join(diff)))
            out["outcome"] = out["viol"][0]["sig"]
    return out


def evaluate(case, res, laws, vols, v0, v):
    """The per-call oracle: `res` is what interpolate_modes returned for the arguments described by `case`."""
    method, order = case["mo"]
    kind, degree = case["data"]
    nq, npm = case["shape"]
    nv = case["nv"]
    viol = []
    try:
        w, g, h = (numpy.asarray(a, float) for a in res)
    except Exception as e:
        return {"viol": [V(f"c11:{method}:return-type", f"return value is not three arrays: {e!r}")], "nontrivial": False}
    ntv = len(v)
    if not (w.shape == g.shape == h.shape == (ntv, nq, npm)):
        return {"viol": [V(f"c11:{method}:shape", f"shapes {w.shape} {g.shape} {h.shape}, expected {(ntv, nq, npm)}")],
                "nontrivial": False}

    # (3) Gamma acoustic slots
    bad_ac = []
    for name, a in (("omega", w), ("gamma", g), ("V dgamma/dV", h)):
        ac = a[:, 0, :3]
        if not numpy.array_equal(ac, numpy.zeros_like(ac)):
            bad_ac.append(f"{name} (first offending value {ac[~(ac == 0)].ravel()[:1].tolist()})")
    if bad_ac:
        viol.append(V(f"c11:{method}:gamma-acoustic-nonzero",
                      "the three Gamma acoustic slots [:, 0, :3] are not exactly zero in: " + "; ".join(bad_ac)))

    inside = (v >= min(vols)) & (v <= max(vols))
    exact = exact_expected(case)
    slots = [(q, m) for q in range(nq) for m in range(npm) if laws[q][m] is not None]
    analytic = {s: R.triple(laws[s[0]][s[1]], v, v0) for s in slots}
    seen = set()

    def add(sig, msg):
        if sig not in seen:
            seen.add(sig)
            viol.append(V(sig, msg))

    worst = {"w": 0.0, "g": 0.0, "h": 0.0, "r1": 0.0, "r2": 0.0, "mix": 0.0}
    checked = 0
    for (q, m) in slots:
        ws, gs, hs = w[:, q, m], g[:, q, m], h[:, q, m]
        fin = numpy.isfinite(ws) & numpy.isfinite(gs) & numpy.isfinite(hs)
        # (5) finite everywhere
        if not fin.all():
            bad = ~fin
            where = "inside-range" if (bad & inside).any() else "outside-range"
            what = "nonfinite" if any(numpy.isinf(a_[bad]).any() for a_ in (ws, gs, hs)) else "nan"
            first = int(numpy.argmax(bad))
            add(f"c11:{method}:{what}-{where}",
                f"method={method} order={order} n_V={nv}: {int(bad.sum())} of {ntv} grid volumes give non-finite values in slot (q={q}, m={m}); "
                f"{int((bad & inside).sum())} of them lie inside the sampled range [{_fmt(min(vols))}, {_fmt(max(vols))}]; "
                f"first at V={_fmt(v[first])}: omega={float(ws[first])!r} gamma={float(gs[first])!r}")
        blk = _finite_block(fin & (ws > 0))
        if fin.any() and not (ws[fin] > 0).all():
            add(f"c11:{method}:omega-not-positive", f"slot (q={q}, m={m}): interpolated omega <= 0 (min {_fmt(ws[fin].min())})")
        if not fin.any():
            continue
        checked += 1
        W, G, H = analytic[(q, m)]
        usable = blk is not None and blk.stop - blk.start >= 5          # the log-based checks need omega > 0
        # (1) exactness
        if exact:
            tol_w, tol_g, tol_h = RTOL_W, ATOL_G, ATOL_G
            if case.get("vpres") == "float32":
                # the caller's grid is single precision: ln V may legitimately be formed in float32, i.e. x is known to
                # eps32 |x| only; first-order propagation d(ln w) = gamma dx, d(gamma) = H dx, dH = H' dx
                dx = float(numpy.finfo(numpy.float32).eps) * float(numpy.abs(numpy.log(v)).max())
                h1 = numpy.gradient(H, numpy.log(v)) if len(v) > 2 else numpy.zeros_like(H)
                tol_w += dx * float(numpy.abs(G).max())
                tol_g += dx * float(numpy.abs(H).max())
                tol_h += dx * float(numpy.abs(h1).max())
            ew = float(numpy.abs(ws[fin] / W[fin] - 1).max())
            eg = float(numpy.abs(gs[fin] - G[fin]).max())
            eh = float(numpy.abs(hs[fin] - H[fin]).max())
            worst["w"], worst["g"], worst["h"] = max(worst["w"], ew), max(worst["g"], eg), max(worst["h"], eh)
            if ew > tol_w or eg > tol_g or eh > tol_h:
                # does the slot carry ANOTHER slot's law? (index mixing)
                other = None
                for s2 in slots:
                    if s2 == (q, m):
                        continue
                    W2, G2, H2 = analytic[s2]
                    if (numpy.abs(ws[fin] / W2[fin] - 1).max() <= RTOL_W and numpy.abs(gs[fin] - G2[fin]).max() <= ATOL_G
                            and numpy.abs(hs[fin] - H2[fin]).max() <= ATOL_G):
                        other = s2
                        break
                fam = "power-law" if (kind == "power" or degree == 1) else "polynomial"
                if other is not None:
                    add(f"c11:{method}:slot-mixing",
                        f"slot (q={q}, m={m}) carries the triple of slot (q={other[0]}, m={other[1]}) (shape n_q={nq}, n_p={npm})")
                else:
                    i = int(numpy.argmax(numpy.where(fin, numpy.abs(ws / W - 1), 0)))
                    over = ", ".join(f"{name} {err:.3e} (tolerance {tol:g})" for name, err, tol in
                                     (("omega [relative]", ew, tol_w), ("gamma", eg, tol_g), ("V dgamma/dV", eh, tol_h)) if err > tol)
                    add(f"c11:{method}:{fam}-inexact",
                        f"method={method} order={order} n_V={nv} {case['vkind']} grid, {fam} data"
                        f"{'' if fam == 'power-law' else f' of degree {degree}'}, slot (q={q}, m={m}): max error of {over}; "
                        f"at V={_fmt(v[i])}: omega {float(ws[i])!r} vs analytic {float(W[i])!r}, gamma {float(gs[i])!r} vs {float(G[i])!r}, "
                        f"V dgamma/dV {float(hs[i])!r} vs {float(H[i])!r}")
        elif usable:
            # (4) generic data: the slot must be closest to its own law (inside the sampled range, finite part)
            sel = fin & inside & (ws > 0)
            if sel.sum() >= 5:
                own = float(numpy.abs(numpy.log(ws[sel]) - numpy.log(W[sel])).max())
                others = {s2: float(numpy.abs(numpy.log(ws[sel]) - numpy.log(analytic[s2][0][sel])).max())
                          for s2 in slots if s2 != (q, m) and laws[s2[0]][s2[1]] != laws[q][m]}
                s2 = min(others, key=others.get) if others else None
                if s2 is not None:
                    worst["mix"] = max(worst["mix"], own / others[s2])
                if s2 is not None and not own < others[s2]:        # nearest-law classification; measured own/other <= 0.39 on a correct tree
                    add(f"c11:{method}:slot-mixing",
                        f"slot (q={q}, m={m}): max |ln w - ln w_law| is {own:.3g} to its own law but {others[s2]:.3g} to the law of slot (q={s2[0]}, m={s2[1]})")
        if not usable:
            continue
        # (2) one interpolant: integral identities on the returned arrays
        r1, r2 = R.identity_residuals(v[blk], ws[blk], gs[blk], hs[blk])
        q1, q2 = R.quadrature_bounds(v[blk], gs[blk], hs[blk])      # trapezoid error bound of the oracle itself
        q1, q2 = min(q1, TOL_ID), min(q2, TOL_ID)                   # never more than doubles the tolerance
        worst["r1"], worst["r2"] = max(worst["r1"], r1), max(worst["r2"], r2)
        if not r1 <= TOL_ID + q1:
            add(f"c11:{method}:triple-inconsistent:gamma-vs-omega",
                f"method={method} order={order} n_V={nv} {kind}{degree or ''} slot (q={q}, m={m}): ln w(V)-ln w(V0) + int gamma dlnV "
                f"has scaled residual {r1:.3g} (tolerance {TOL_ID}); gamma is not -dln w/dlnV of the returned omega")
        if not r2 <= TOL_ID + q2:
            add(f"c11:{method}:triple-inconsistent:vdgamma-vs-gamma",
                f"method={method} order={order} n_V={nv} {kind}{degree or ''} slot (q={q}, m={m}): gamma(V)-gamma(V0) - int (V dgamma/dV) dlnV "
                f"has scaled residual {r2:.3g} (tolerance {TOL_ID}); the third array is not dgamma/dlnV of the returned gamma")
    outcome = ("exact" if exact else "consistent") if not viol else viol[0]["sig"]
    return {"viol": viol, "nontrivial": checked > 0, "outcome": outcome,
            "worst": worst, "exact": exact, "checked_slots": checked}


def fresh_modules():
    """Mode-B cases start from freshly executed modules, so that a history is exactly the listed sequence (what a
    replay in a new process sees) and not whatever this worker ran before.  Order matters: calculator binds
    interpolate_modes by name at import, plot.modes binds the calculator module."""
    import importlib
    try:
        import cij.core.mode_gamma as mg
        import cij.core.calculator as calc
        import cij.plot.modes as pm
        mg = importlib.reload(mg)
        calc = importlib.reload(calc)
        pm = importlib.reload(pm)
    except Exception as e:
        raise HarnessError(f"cannot (re)load the modules under test: {e!r}")
    return mg, calc, pm


# =========================================================================== plot cases

class RecordingAxes:
    def __init__(self):
        self.calls = []

    def plot(self, *a, **k):
        self.calls.append(("plot", a, k))
        return []

    def scatter(self, *a, **k):
        self.calls.append(("scatter", a, k))
        return None

    def __getattr__(self, name):          # anything else the plotter might touch is recorded, not drawn
        def f(*a, **k):
            self.calls.append((name, a, k))
        return f


PLOT_QUANTITY = {0: "omega", 1: "gamma", 2: "vdgamma"}


# Configurations of the wiring Calculator -> interpolate_modes.  The order of the mode interpolation
# (elast.settings.mode_gamma.order) and the order of the equation-of-state fit (qha.settings.order) are different
# settings; except for the packaged default they DIFFER here, with data for which the order matters.
WIRINGS = OrderedDict([
    # name:          (interpolator, mode_gamma order, qha order, data kind, degree)
    ("lsq3-eos3", ("lsq_poly", 3, 3, "poly", 3)),          # packaged defaults; data the fit reproduces exactly
    ("lsq4-eos3", ("lsq_poly", 4, 3, "poly", 4)),          # exact only with the configured order 4
    ("lsq2-eos3", ("lsq_poly", 2, 3, "poly", 4)),          # under-fit: order 2 and 3 give visibly different curves
    ("lsq3-eos4", ("lsq_poly", 3, 4, "poly", 3)),          # both exact to rounding: only the bit-for-bit comparison tells
    ("spline2-eos3", ("spline", 2, 3, "morse", 0)),
    ("pchip3-eos4", ("pchip", 3, 4, "morse", 0)),          # node sub-sampling interval depends on the order
])


def full_config(method, order, qha_order):
    """What Calculator._load leaves in .config: the user's settings over the packaged defaults (settings.yaml)."""
    return {
        "qha": {"input": "input01",
                "settings": {"T_MIN": 0, "DT": 100, "DT_SAMPLE": 100, "NT": 16, "P_MIN": 0, "DELTA_P": 1, "DELTA_P_SAMPLE": 1,
                             "order": qha_order, "static_only": False, "volume_ratio": 1.2}},
        "elast": {"input": "elast.dat",
                  "settings": {"mode_gamma": {"interpolator": method, "order": order},
                               "symmetry": {"system": "triclinic", "ignore_residuals": False, "ignore_rank": False,
                                            "drop_atol": 1.0e-8, "residual_atol": 0.1}}},
        "output": {"pressure_base": ["cij", "bm_VRH", "G_VRH", "v", "vs", "vp"], "volume_base": ["p"]},
    }


def make_plot_duck(case, calc, mg):
    """A REAL Calculator object that has not gone through __init__ (no files): the public state that _load sets is put
    in place directly, then the class's own _interpolate_modes builds freq_array / mode_gamma, then the attributes
    __init__ sets afterwards.  Helper methods / properties of the class stay available to the code under test.
    Returns also E = interpolate_modes(qha_input, v, CONFIGURED method, CONFIGURED mode_gamma order) and the
    violations of the wiring clause (what the calculator holds is that interpolant, bit for bit)."""
    Calculator = calc.Calculator
    nq, npm = case["shape"]
    nv = case["nv"]
    wname = case.get("wiring", "lsq3-eos3")
    method, order, qha_order, kind, degree = WIRINGS[wname]
    inp, laws, vols, v0 = R.build_input(nv, nq, npm, kind, degree, weights=case.get("weights", "unit"))
    v = R.v_grid(case["vkind"], vols, n=case.get("ntv", 201))
    qi = real_input(inp)
    cfg = full_config(method, order, qha_order)
    obj = Calculator.__new__(Calculator)
    grid = v.copy()
    # qha_calculator first: Calculator.__getattr__ forwards unknown names to it
    obj.qha_calculator = SimpleNamespace(v_array=grid, settings=cfg["qha"]["settings"], qha_input=qi,
                                         volume_base=SimpleNamespace(v_array=grid))
    obj.config = cfg
    obj.qha_input = qi
    obj.elast_data = SimpleNamespace(nv=nv, volumes=[], lattice_parmeters=[])
    wviol = []
    try:
        with numpy.errstate(all="ignore"):
            obj._interpolate_modes()                     # the real wiring builds freq_array and mode_gamma
    except Exception as e:
        if isinstance(e, AttributeError) and "SimpleNamespace" in str(e):
            raise HarnessError(f"file-less Calculator seam no longer matches the code: {e}")
        return obj, inp, laws, vols, v0, v, None, [V(f"c11:wiring:raises:{type(e).__name__}",
                                                       f"Calculator._interpolate_modes with mode_gamma = {method} order {order}, qha order {qha_order} raised {e!r}")]
    obj.nv, obj.np, obj.nq, obj.na = qi.nv, qi.np, qi.nq, qi.na       # as Calculator.__init__ does next
    try:
        with numpy.errstate(all="ignore"):
            E = tuple(numpy.asarray(a) for a in mg.interpolate_modes(real_input(inp), v.copy(), method=method, order=order))
    except Exception as e:
        raise HarnessError(f"reference call interpolate_modes({method}, {order}) failed: {e!r}")
    held = {"freq_array": getattr(obj, "freq_array", None), "mode_gamma": getattr(obj, "mode_gamma", None)}
    ok = (isinstance(held["freq_array"], numpy.ndarray) and isinstance(held["mode_gamma"], (list, tuple)) and len(held["mode_gamma"]) == 3)
    if ok:
        pairs = (("freq_array", held["freq_array"], E[0]), ("mode_gamma[1] (gamma)", held["mode_gamma"][1], E[1]),
                 ("mode_gamma[0] (V dgamma/dV)", held["mode_gamma"][0], E[2]), ("mode_gamma[2] (gamma^2)", held["mode_gamma"][2], E[1] ** 2))
        bad = [nm for nm, a, b in pairs if not numpy.array_equal(numpy.asarray(a), b, equal_nan=True)]
    if not ok:
        wviol.append(V("c11:wiring:calculator-arrays-missing", "after _interpolate_modes the calculator has no freq_array / 3-element mode_gamma"))
    elif bad:
        guess = ""
        try:
            with numpy.errstate(all="ignore"):
                alt = mg.interpolate_modes(real_input(inp), v.copy(), method=method, order=qha_order)
            if numpy.array_equal(numpy.asarray(held["freq_array"]), numpy.asarray(alt[0]), equal_nan=True):
                guess = f"; freq_array IS the {method} interpolant of order {qha_order} = qha.settings.order (the equation-of-state order)"
        except Exception:
            pass
        d = float(numpy.nanmax(numpy.abs(numpy.asarray(held["freq_array"], float) / numpy.where(E[0] == 0, 1, E[0]) - numpy.where(E[0] == 0, 0, 1))))
        wviol.append(V("c11:wiring:not-the-configured-interpolant",
                       f"configuration mode_gamma = {{interpolator: {method}, order: {order}}}, qha.settings.order = {qha_order}: "
                       f"{', '.join(bad)} differ from interpolate_modes(qha_input, v_array, {method!r}, {order}) "
                       f"(omega off by up to {d:.3e} relative){guess}"))
    if exact_expected({"mo": [method, order], "data": [kind, degree]}):
        for (q, m) in [(q, m) for q in range(nq) for m in range(npm) if laws[q][m] is not None]:
            W, G, H = R.triple(laws[q][m], v, v0)
            if not (numpy.abs(E[0][:, q, m] / W - 1).max() <= RTOL_W and numpy.abs(E[1][:, q, m] - G).max() <= ATOL_G
                    and numpy.abs(E[2][:, q, m] - H).max() <= ATOL_G):
                wviol.append(V("c11:wiring:reference-call-inexact", f"{method} order {order} on {kind}{degree} data is not exact in slot ({q},{m})"))
                break
    return obj, inp, laws, vols, v0, v, E, wviol


def check_plot_calls(calls, n, iq, case, inp, laws, v0, v, viol, tag="", E=None):
    """`calls` = what ONE plot_modes(ax, n, iq) call sent to the axes.  E = (omega, gamma, V dgamma/dV) of the
    CONFIGURED interpolant (reference call); the analytic triple when E is None."""
    nq, npm = case["shape"]
    plots = [c for c in calls if c[0] == "plot"]
    scatters = [c for c in calls if c[0] == "scatter"]
    ks = [k for k in range(npm) if not (iq == 0 and k < 3)]
    sigs = [x_["sig"] for x_ in viol]

    def add(sig, msg):
        if sig not in sigs:
            sigs.append(sig)
            viol.append(V(sig, tag + msg))

    if len(plots) != len(ks):
        add("c11:plot:curve-count", f"n={n} iq={iq} shape {nq}x{npm}: {len(plots)} curves drawn, expected {len(ks)} (Gamma acoustic modes skipped)")
    v_ang3 = v * R.BOHR_IN_ANGSTROM ** 3

    def quantities(q, m):
        if E is not None:
            W, G, H = (numpy.asarray(E[i][:, q, m], float) for i in range(3))
        else:
            W, G, H = R.triple(laws[q][m], v, v0)
        return {"omega": W, "gamma": G, "vdgamma": H, "gamma-squared": G * G}

    def matches(y, ref, name):
        if y.shape != ref.shape or not numpy.all(numpy.isfinite(y)):
            return False
        if name == "omega":
            return bool(numpy.all(ref != 0) and numpy.abs(y / ref - 1).max() <= RTOL_W)
        return bool(numpy.abs(y - ref).max() <= ATOL_G * (1 if name != "gamma-squared" else 10))

    want = PLOT_QUANTITY[n]
    for call, k in zip(plots, ks):
        a = call[1]
        if len(a) < 2:
            add("c11:plot:call-shape", f"ax.plot called with {len(a)} positional arguments")
            continue
        x, y = numpy.asarray(a[0], float), numpy.asarray(a[1], float)
        qs = quantities(iq, k)
        if not matches(y, qs[want], want):
            drawn = [nm for nm, ref in qs.items() if matches(y, ref, nm)]
            if not drawn:
                for q2 in range(nq):
                    for m2 in range(npm):
                        if laws[q2][m2] is not None and (q2, m2) != (iq, k):
                            drawn += [f"{nm}-of-slot-{q2}-{m2}" for nm, ref in quantities(q2, m2).items() if matches(y, ref, nm)]
            what = drawn[0] if drawn else "other"
            add(f"c11:plot:n{n}-draws-{what}",
                f"plot_modes(ax, n={n}, iq={iq}), curve of mode {k}: y-data is {what} "
                f"(y[0]={float(y.ravel()[0])!r}), expected {want} (={float(qs[want][0])!r}); "
                f"of the configured interpolant ({case.get('wiring', 'lsq3-eos3')}); "
                f"mode_gamma is built as [V dgamma/dV, gamma, gamma^2] by Calculator._interpolate_modes")
        if x.shape != v.shape or not numpy.abs(x / v_ang3 - 1).max() <= 1e-6:
            add("c11:plot:x-not-volume", f"n={n} iq={iq}: abscissa is not the fine volume grid in cubic angstrom (x[0]={float(x.ravel()[0])!r}, expected {float(v_ang3[0])!r})")
    if n == 0:
        if len(scatters) != len(ks):
            add("c11:plot:scatter-count", f"n=0 iq={iq}: {len(scatters)} scatter sets, expected {len(ks)}")
        for call, k in zip(scatters, ks):
            a = call[1]
            y = numpy.asarray(a[1], float) if len(a) > 1 else numpy.zeros(0)
            raw = numpy.array([vol.q_points[iq].modes[k] for vol in inp.volumes])
            if y.shape != raw.shape or not numpy.array_equal(y, raw):
                add("c11:plot:scatter-wrong-data", f"n=0 iq={iq} mode {k}: scattered points are not the sampled frequencies of that mode")
    elif scatters:
        add("c11:plot:scatter-on-derivative", f"n={n}: sampled frequencies scattered on a derivative plot")
    return len(plots), len(ks)


def run_plot(case):
    n, iq = case["n"], case["iq"]
    mg, calc, pm = fresh_modules()
    ModePlotter = pm.ModePlotter
    duck, inp, laws, vols, v0, v, E, viol = make_plot_duck(case, calc, mg)
    if E is None:
        return {"viol": viol, "nontrivial": False, "outcome": viol[0]["sig"]}
    ax = RecordingAxes()
    try:
        ModePlotter(duck).plot_modes(ax, n, iq)
    except Exception as e:
        return {"viol": [V(f"c11:plot:raises:{type(e).__name__}", f"plot_modes(ax, n={n}, iq={iq}) raised {e!r}")],
                "nontrivial": False, "outcome": "plot-raises"}
    nplots, nks = check_plot_calls(ax.calls, n, iq, case, inp, laws, v0, v, viol, E=E)
    return {"viol": viol, "nontrivial": nks > 0 and nplots > 0,
            "outcome": f"plot-n{n}-ok" if not viol else viol[0]["sig"], "curves": nplots}


def _snap_duck(duck):
    return {"freq": duck.freq_array.copy(), "mg": [numpy.array(a, copy=True) for a in duck.mode_gamma],
            "v": duck.v_array.copy(), "vq": duck.qha_calculator.v_array.copy(), "inp": snapshot_input(duck.qha_input),
            "ids": (id(duck.freq_array), tuple(id(a) for a in duck.mode_gamma), id(duck.qha_input))}


def run_plotseq(case):
    """Mode B: a sequence of plot_modes(n, iq) calls on ONE plotter and ONE axes recorder."""
    mg, calc, pm = fresh_modules()
    ModePlotter = pm.ModePlotter
    duck, inp, laws, vols, v0, v, E, viol = make_plot_duck(case, calc, mg)
    if E is None:
        return {"viol": viol, "nontrivial": False, "outcome": viol[0]["sig"]}
    before = _snap_duck(duck)
    ax = RecordingAxes()
    plotter = ModePlotter(duck)
    drawn_total = 0
    held = []                                  # (position, recorded y array, copy taken when it was drawn)
    for pos, (n, iq) in enumerate(case["seq"]):
        start = len(ax.calls)
        try:
            plotter.plot_modes(ax, n, iq)
        except Exception as e:
            viol.append(V(f"c11:plotseq:raises:{type(e).__name__}", f"call {pos} of {case['seq']}: plot_modes(ax, n={n}, iq={iq}) raised {e!r}"))
            break
        new = ax.calls[start:]
        mine = []
        nplots, nks = check_plot_calls(new, n, iq, case, inp, laws, v0, v, mine,
                                       tag=f"call {pos} of the sequence {case['seq']} on one plotter: ", E=E)
        for x_ in mine:                       # same failure classes as the single-call part, marked as history-dependent
            x_["sig"] = x_["sig"].replace("c11:plot:", "c11:plotseq:")
            if x_["sig"] not in [y_["sig"] for y_ in viol]:
                viol.append(x_)
        drawn_total += nplots
        for c in new:
            if c[0] == "plot" and len(c[1]) > 1:
                held.append((pos, c[1][1], numpy.array(c[1][1], copy=True)))
        for hpos, arr, cp in held:
            if hpos < pos and not numpy.array_equal(numpy.asarray(arr), cp, equal_nan=True):
                if "c11:plotseq:earlier-curve-changed" not in [y_["sig"] for y_ in viol]:
                    viol.append(V("c11:plotseq:earlier-curve-changed", f"data drawn by call {hpos} changed after call {pos} of {case['seq']}"))
    after = _snap_duck(duck)
    changed = []
    if not numpy.array_equal(before["freq"], after["freq"]):
        changed.append("freq_array")
    if len(before["mg"]) != len(after["mg"]) or any(not numpy.array_equal(a, b) for a, b in zip(before["mg"], after["mg"])):
        changed.append("mode_gamma")
    if not (numpy.array_equal(before["v"], after["v"]) and numpy.array_equal(before["vq"], after["vq"])):
        changed.append("v_array")
    if before["inp"] != after["inp"]:
        changed.append("qha_input")
    if before["ids"] != after["ids"]:
        changed.append("object identity of the calculator's arrays")
    if changed:
        viol.append(V("c11:plotseq:calculator-modified", f"after the plot sequence {case['seq']} the calculator-like object differs in: {', '.join(changed)}"))
    return {"viol": viol, "nontrivial": drawn_total > 0, "outcome": f"plotseq-len{len(case['seq'])}-ok" if not viol else viol[0]["sig"]}


# =========================================================================== call histories (mode B)

HIST_SHAPE, HIST_NV, HIST_NTV = [2, 6], 8, 201
_X = {"nv": HIST_NV, "shape": HIST_SHAPE, "data": ["power", 0], "offset": 0}
_Y = {"nv": HIST_NV, "shape": HIST_SHAPE, "data": ["power", 0], "offset": 12}            # same shapes, a disjoint set of laws
_Z = {"nv": 6, "shape": [3, 3], "data": ["power", 0], "offset": 24, "vscale": R.ANG3_PER_BOHR3}
_W = dict(_X, weights="zero-last")                                                        # X's table listed with a zero weight on the last q-point
HIST_OPS = OrderedDict([
    # name: (object, content it must hold, vkind, method, order)
    ("X-in-spl3", ("X", _X, "inside", "spline", 3)),
    ("X-ex-spl3", ("X", _X, "extended", "spline", 3)),
    ("X-ex-lsq2", ("X", _X, "extended", "lsq_poly", 2)),
    ("Y-ex-spl3", ("Y", _Y, "extended", "spline", 3)),
    ("Z-ex-lsq2", ("Z", _Z, "extended", "lsq_poly", 2)),
    ("X:=Y-ex-spl3", ("X", _Y, "extended", "spline", 3)),        # the SAME object X, frequencies replaced in place by Y's
    ("W-ex-spl3", ("W", _W, "extended", "spline", 3)),
    ("tmp-tmp-ex-spl3", ("tmp", None, "extended", "spline", 3)),   # two inputs created and released one after the other
])
_TMP = [dict(_X, offset=36), dict(_X, offset=48)]


def snapshot_input(qi):
    """Deep, comparable copy of everything interpolate_modes may read."""
    return (qi.nv, qi.nq, qi.np, qi.nm, qi.na,
            tuple((tuple(c), float(w)) for c, w in qi.weights),
            tuple((float(vd.pressure), float(vd.volume), float(vd.energy),
                   tuple((tuple(qp.coord), tuple(float(x) for x in qp.modes)) for qp in vd.q_points))
                  for vd in qi.volumes))


def _fill_in_place(qi, plain):
    """Overwrite the frequencies held by the (immutable NamedTuple, mutable lists) object qi with `plain`'s."""
    for vd, pv in zip(qi.volumes, plain.volumes):
        for qp, pq in zip(vd.q_points, pv.q_points):
            qp.modes[:] = list(pq.modes)


def run_history(case):
    interpolate_modes = fresh_modules()[0].interpolate_modes
    seq = case["seq"]
    viol, sigs = [], set()

    def add(sig, msg):
        if sig not in sigs:
            sigs.add(sig)
            viol.append(V(sig, f"history {seq}: " + msg))

    objs, content = {}, {}            # long-lived input objects by name, and the content spec each currently holds
    held = []                         # (position, name, array, copy) of everything handed out so far
    checked = 0
    reuse_seen = False

    def one_call(pos, label, qi, spec, vkind, method, order):
        nonlocal checked
        c = dict(spec, vkind=vkind, mo=[method, order], ntv=HIST_NTV)
        plain, laws, vols, v0, v = build(c)
        if snapshot_input(qi) != snapshot_input(real_input(plain)):
            raise HarnessError(f"history harness: object for {label} does not hold the intended content")
        before = snapshot_input(qi)
        v_in = v.copy()
        try:
            with numpy.errstate(all="ignore"):
                res = interpolate_modes(qi, v_in, method=method, order=order)
        except Exception as e:
            add(f"c11:history:raises:{type(e).__name__}", f"call {pos} ({label}) raised {type(e).__name__}: {str(e)[:120]}")
            return
        if snapshot_input(qi) != before:
            add("c11:history:input-modified", f"call {pos} ({label}) changed its qha_input argument in place")
        if not numpy.array_equal(v_in, v):
            add("c11:history:v_array-modified", f"call {pos} ({label}) changed its v_array argument in place")
        # results handed out earlier must not move
        for hpos, hname, arr, cp in held:
            if not numpy.array_equal(arr, cp, equal_nan=True):
                add("c11:history:earlier-result-changed", f"{hname} returned by call {hpos} changed when call {pos} ({label}) was made")
        r = evaluate(c, res, laws, vols, v0, v)
        for x_ in r["viol"]:
            parts = x_["sig"].split(":")
            add("c11:history:" + ":".join(parts[1:]), f"call {pos} ({label}): " + x_["msg"])
        checked += r.get("checked_slots", 0) if not r["viol"] else 0
        try:
            arrs = [a for a in res]
        except Exception:
            return
        names = ("omega", "gamma", "V dgamma/dV")
        for i in range(len(arrs)):
            if not isinstance(arrs[i], numpy.ndarray):
                continue
            for j in range(i + 1, len(arrs)):
                if isinstance(arrs[j], numpy.ndarray) and numpy.shares_memory(arrs[i], arrs[j]):
                    add("c11:history:returned-arrays-alias-each-other", f"call {pos} ({label}): {names[i]} and {names[j]} share memory")
            if numpy.shares_memory(arrs[i], v_in):
                add("c11:history:result-aliases-input", f"call {pos} ({label}): {names[i]} shares memory with v_array")
            for hpos, hname, arr, cp in held:
                if numpy.shares_memory(arrs[i], arr):
                    add("c11:history:result-aliases-earlier-result", f"call {pos} ({label}): {names[i]} shares memory with {hname} returned by call {hpos}")
        # the caller owns what it was given: overwrite it, later calls must not care
        for nm, a in zip(names, arrs):
            if isinstance(a, numpy.ndarray) and a.flags.writeable:
                a[...] = 12345.0
                held.append((pos, nm, a, a.copy()))

    for pos, op in enumerate(seq):
        name, spec, vkind, method, order = HIST_OPS[op]
        if name == "tmp":
            # inputs created and released one after the other, alternating contents, until CPython hands out an
            # address again for a DIFFERENT content (at least two, at most eight objects)
            seen_ids = {}
            for t in range(8):
                tspec = _TMP[t % 2]
                qi = real_input(build(dict(tspec, vkind=vkind, ntv=HIST_NTV))[0])
                hit = seen_ids.get(id(qi))
                seen_ids[id(qi)] = t % 2
                one_call(pos, f"{op}#{t}", qi, tspec, vkind, method, order)
                del qi
                if hit is not None and hit != t % 2:
                    reuse_seen = True
                if t >= 1 and reuse_seen:
                    break
            continue
        if name not in objs:
            objs[name] = real_input(build(dict(spec, vkind=vkind, ntv=HIST_NTV))[0])
            content[name] = spec
        elif content[name] is not spec:
            _fill_in_place(objs[name], build(dict(spec, vkind=vkind, ntv=HIST_NTV))[0])      # same object, new frequencies
            content[name] = spec
        one_call(pos, op, objs[name], spec, vkind, method, order)
    return {"viol": viol, "nontrivial": checked > 0, "outcome": f"history-len{len(seq)}-ok" if not viol else viol[0]["sig"],
            "address_reused": reuse_seen}


def run_case(case):
    part = case.get("part")
    if part == "interp":
        return run_interp(case)
    if part == "plot":
        return run_plot(case)
    if part == "history":
        return run_history(case)
    if part == "plotseq":
        return run_plotseq(case)
    raise HarnessError(f"unknown part {part!r}")


# =========================================================================== exploration

PLOT_WEIGHTS = ("unit", "zero-first", "zero-last", "empty")


def plot_cases(thorough=False):
    out = []
    for shape in ([2, 6], [3, 3]) + (([1, 6],) if thorough else ()):
        for nv in (8, 6) + ((12,) if thorough else ()):
            for vkind in ("extended", "inside"):
                for n in (0, 1, 2):
                    for iq in range(shape[0]):
                        for wk in PLOT_WEIGHTS:
                            out.append({"part": "plot", "shape": shape, "nv": nv, "vkind": vkind, "n": n, "iq": iq, "weights": wk,
                                        "wiring": "lsq3-eos3"})
                        for wname in WIRINGS:
                            if wname != "lsq3-eos3":
                                out.append({"part": "plot", "shape": shape, "nv": nv, "vkind": vkind, "n": n, "iq": iq,
                                            "weights": "unit", "wiring": wname})
    return out


def history_cases(max_len):
    ops = list(HIST_OPS)
    return [{"part": "history", "seq": list(seq)} for L in range(1, max_len + 1) for seq in itertools.product(ops, repeat=L)]


def plotseq_cases(thorough=False):
    out = []
    for shape, lens in (([2, 6], (2, 3, 4) if thorough else (2, 3)), ([3, 3], (2, 3) if thorough else (2,))):
        ops = [[n, iq] for n in (0, 1, 2) for iq in range(shape[0])]
        for L in lens:
            for seq in itertools.product(ops, repeat=L):
                out.append({"part": "plotseq", "shape": shape, "nv": 8, "vkind": "extended", "seq": [list(x) for x in seq],
                            "wiring": "lsq4-eos3" if L % 2 == 0 else "spline2-eos3"})
    return out


def explore(ctx):
    ctx.rule = ("mode A: full product (no bound) of documented (method, order) pairs x n_V x data law x evaluation grid x "
                "(n_q, n_p) shape, keeping order < n_V, at the natural units; plus the full product of frequency scale x volume "
                "unit x Gamma-acoustic residual spelling x shapes (incl. Gamma-only and n_p = 3) over "
                + ("a reduced core (all method/order pairs, n_V = 8, power-law and generic data, extended grid)" if ctx.quick else
                   "the same complete core") +
                "; plus 9 non-unit q-point weight spellings (increasing, x1e-9, integer, exact zeros at the first / last / middle / "
                "first and last q-point, all zero, EMPTY list) crossed with the core and with the scale/shape part (result must be the "
                "unit-weight result bit for bit)"
                "; plus 5 presentations of the volume grid (int64 / int32 with integral volumes, float32, a strided view, a "
                "read-only array; the integer, strided and read-only ones must give the float64 result bit for bit, float32 is held "
                "to the exact triple within the propagated single-precision error of ln V) and 3 kinds of tables whose consecutive "
                "(q,m) slots hold identical columns (degenerate branches inside a q-point, across a q-point boundary, right after "
                "the skipped Gamma acoustic slots)"
                "; every case runs the real interpolate_modes on an analytic table with a distinct law per (q,m) (branches of one "
                "q-point cross between sampled volumes) and checks exactness (data in the method's function space), the two integral "
                "identities tying gamma and V dgamma/dV to the returned omega, zero Gamma-acoustic slots, per-slot law identity and "
                "finiteness; every (n, iq) of the mode plot on a real file-less Calculator object whose own _interpolate_modes built the arrays, "
                "for 6 configurations in which mode_gamma.order and qha.settings.order differ (what the calculator holds and what is drawn "
                "must be the interpolant of the CONFIGURED mode_gamma method and order, bit for bit against a reference call). "
                "Mode B: every sequence of length 1.." + ("3" if ctx.quick else "4") + " over 8 call descriptions of interpolate_modes inside one "
                "process (per-call oracle, inputs unchanged, earlier results unchanged after the caller overwrote them, no aliasing) and every "
                "sequence of plot_modes(n, iq) calls of length 2.." + ("3" if ctx.quick else "4") + " on one plotter and one axes. "
                "Non-trivial = the call(s) returned and at least one non-acoustic slot was compared (plot: at least one curve drawn)")
    ctx.assumptions = [
        "scipy.interpolate classes are trusted as interpolators; what is checked is how mode_gamma.py drives them",
        "volumes are listed in decreasing order, as in every shipped input (the property does not speak about order)",
        "numpy.log/exp and composite trapezoid on 2001 points (error bound stated next to TOL_ID)",
        "plot abscissa: CODATA 2018 bohr radius, 1e-6 relative",
        "matplotlib is imported by cij.plot.modes but nothing is drawn: a recording axes object receives the calls",
        "histories: worker processes have executed other cases before (module state is not reset between cases); a replay starts fresh",
        "address re-use by CPython is attempted (create, call, release, create) and recorded, not guaranteed",
    ]
    # the histories run first: their failures replay deterministically in a fresh process, so they are the ones reported first
    hc = history_cases(3 if ctx.quick else 4)
    hres = ctx.run(MOD, "run_case", hc, part="call-histories", states=len(hc), transitions=sum(len(c["seq"]) for c in hc))
    qc = plotseq_cases(thorough=not ctx.quick)
    ctx.run(MOD, "run_case", qc, part="plot-histories", states=len(qc), transitions=sum(len(c["seq"]) for c in qc))

    dims = OrderedDict((k, list(v)) for k, v in DIMS.items())
    if not ctx.quick:
        dims["nv"] = dims["nv"] + [5, 9, 10]
    cases, results = ctx.run_lattice(MOD, "run_case", dims, None, part="interp-full-product",
                                     extra={"part": "interp"}, canon=canon)
    sdims = OrderedDict((k, list(v)) for k, v in dims.items())
    if ctx.quick:
        sdims["nv"] = [8]
        sdims["data"] = [["power", 0], ["morse", 0]]
        sdims["vkind"] = ["extended"]
    sdims["shape"] = sdims["shape"] + CORNER_SHAPES
    for k, v_ in SCALE_DIMS.items():
        sdims[k] = list(v_)
    c2, r2 = ctx.run_lattice(MOD, "run_case", sdims, None, part="interp-scales-shapes",
                             extra={"part": "interp"}, canon=canon)
    cases, results = cases + c2, results + r2
    # q-point weights (no role in the statement): crossed with the complete core in thorough, with a reduced core in quick
    nonunit = [w for w in R.WEIGHT_KINDS if w != "unit"]
    wd = OrderedDict((k, list(v)) for k, v in dims.items())
    if ctx.quick:
        wd["nv"], wd["data"], wd["vkind"] = [8], [["power", 0], ["morse", 0]], ["extended"]
    wd["weights"] = nonunit
    c3, r3 = ctx.run_lattice(MOD, "run_case", wd, None, part="interp-weights", extra={"part": "interp"}, canon=canon)
    ws_ = OrderedDict((k, list(v)) for k, v in sdims.items())
    ws_["nv"], ws_["vkind"] = [8], ["extended"]
    if ctx.quick:
        ws_["mo"] = [["lsq_poly", 3], ["spline", 3], ["pchip", 3]]
        ws_["data"] = [["power", 0]]
    else:
        ws_["data"] = [["power", 0], ["morse", 0], ["poly", 3]]
    ws_["weights"] = nonunit
    c4, r4 = ctx.run_lattice(MOD, "run_case", ws_, None, part="interp-weights-scales-shapes", extra={"part": "interp"}, canon=canon)
    cases, results = cases + c3 + c4, results + r3 + r4
    # presentation of the volume grid (dtype / strides / flags) and tables with identical consecutive columns
    pd = OrderedDict((k, list(v)) for k, v in dims.items())
    if ctx.quick:
        pd["nv"], pd["data"], pd["shape"] = [8], [["power", 0], ["morse", 0]], [[2, 6]]
    pd["vpres"] = [p_ for p_ in R.GRID_PRESENTATIONS if p_ != "float64"]
    c5, r5 = ctx.run_lattice(MOD, "run_case", pd, None, part="interp-grid-presentations", extra={"part": "interp"}, canon=canon)
    dd = OrderedDict((k, list(v)) for k, v in dims.items())
    if ctx.quick:
        dd["nv"], dd["data"], dd["vkind"] = [8], [["power", 0], ["morse", 0]], ["extended"]
    dd["shape"] = [[2, 6], [3, 3], [2, 3], [1, 6]]
    dd["dup"] = [d_ for d_ in R.DUP_KINDS if d_ != "none"]
    c6, r6 = ctx.run_lattice(MOD, "run_case", dd, None, part="interp-duplicate-columns", extra={"part": "interp"}, canon=canon)
    cases, results = cases + c5 + c6, results + r5 + r6
    pc = plot_cases(thorough=not ctx.quick)
    ctx.run(MOD, "run_case", pc, part="plot")

    worst_exact = {"w": 0.0, "g": 0.0, "h": 0.0}
    worst_id = {"r1": 0.0, "r2": 0.0}
    worst_mix = 0.0
    per_method = {}
    for c, r in zip(cases, results):
        wst = r.get("worst")
        method = c["mo"][0]
        pm = per_method.setdefault(method, {"cases": 0, "violating": 0})
        pm["cases"] += 1
        pm["violating"] += 1 if r.get("viol") else 0
        if not wst:
            continue
        if r.get("exact") and not any("-inexact" in v_["sig"] or "mixing" in v_["sig"] for v_ in r.get("viol", [])):
            for k in worst_exact:
                worst_exact[k] = max(worst_exact[k], wst[k])
        if not r.get("viol"):
            worst_mix = max(worst_mix, wst.get("mix", 0.0))
        if not any("inconsistent" in v_["sig"] for v_ in r.get("viol", [])):
            for k in worst_id:
                worst_id[k] = max(worst_id[k], wst[k])
    vols8 = R.volumes(8)
    ctx.notes["alphabets"] = {"method_order": len(MO), "n_V": dims["nv"], "data": DATA, "vkind": ["extended", "inside"],
                              "shape": sdims["shape"], "plot_n": [0, 1, 2], "grid_points": R.N_GRID,
                              "wscale": SCALE_DIMS["wscale"], "vscale": SCALE_DIMS["vscale"], "acoustic_input": {k: list(R.ACOUSTIC_VARIANTS[k]) for k in SCALE_DIMS["acoustic"]},
                              "admissible_method_order_nV": sum(1 for m, o in MO for nv in dims["nv"] if o < nv),
                              "weights": {k: R.weights_for(k, 3) for k in R.WEIGHT_KINDS}, "plot_weights": list(PLOT_WEIGHTS),
                              "wirings": {k: list(w) for k, w in WIRINGS.items()}, "grid_presentations": list(R.GRID_PRESENTATIONS), "duplicate_columns": list(R.DUP_KINDS),
                              "history_ops": list(HIST_OPS), "history_max_len": 3 if ctx.quick else 4}
    ctx.notes["crossing_branch_pairs_per_shape"] = {f"{a}x{b}": R.crossings(R.laws_for("power", 0, a, b), vols8, R.v_ref(vols8))
                                                    for a, b in sdims["shape"]}
    ctx.notes["per_method"] = per_method
    ctx.notes["tolerances"] = {"omega_rel": RTOL_W, "gamma_abs": ATOL_G, "identity_scaled": TOL_ID}
    ctx.notes["largest_error_among_passing_exact_cases"] = worst_exact
    ctx.notes["largest_identity_residual_among_passing_cases"] = worst_id
    ctx.notes["largest_own_over_nearest_other_law_distance_generic_data"] = worst_mix     # nearest-law rule: must stay below 1
    ctx.notes["plot_cases"] = len(pc)
    ctx.notes["histories"] = {"call_histories": len(hc), "plot_histories": len(qc),
                              "histories_with_tmp_op": sum(1 for c in hc if "tmp-tmp-ex-spl3" in c["seq"]),
                              "of_which_address_reuse_observed": sum(1 for r in hres if r.get("address_reused"))}


def selftest():
    ok = R.selftest()
    # the oracle's own classification of slips, on synthetic "returned" arrays (no cij involved)
    vols = R.volumes(8)
    v0 = R.v_ref(vols)
    v = R.v_grid("extended", vols)
    law = R.make_law("morse", 0, 7)
    w, g, h = R.triple(law, v, v0)
    r1, r2 = R.identity_residuals(v, w, g, h)
    ok = ok and r1 < TOL_ID / 100 and r2 < TOL_ID / 100
    ok = ok and R.identity_residuals(v, w, -g, -h)[0] > 100 * TOL_ID          # sign of gamma
    ok = ok and R.identity_residuals(v, w, g, g)[1] > 100 * TOL_ID            # nu=1 twice
    ok = ok and R.identity_residuals(v, w[::-1], g, h)[0] > 100 * TOL_ID      # one array reversed
    # a C1 piecewise-cubic (jumping second derivative) still satisfies the integral form within TOL_ID
    from scipy.interpolate import PchipInterpolator
    x = numpy.log(numpy.array(vols[::-1]))
    y = numpy.log(R.triple(law, numpy.array(vols[::-1]), v0)[0])
    p = PchipInterpolator(x, y)
    lx = numpy.log(v)
    r1, r2 = R.identity_residuals(v, numpy.exp(p(lx)), -p(lx, 1), -p(lx, 2))
    ok = ok and r1 < TOL_ID and r2 < TOL_ID
    # enumeration: 7 documented methods, admissible orders only
    ok = ok and sorted({m for m, _ in MO}) == sorted(METHODS)
    ok = ok and _finite_block(numpy.array([False, True, True, False, True])) == slice(1, 3)
    return bool(ok)
