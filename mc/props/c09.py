"""C09 — fill refuses exactly when under-determined or inconsistent; never distorts data (modes A and B).

Oracle (independent of fill_cij): sufficiency of a set S of supplied components = exact rank test on the
Laue-invariant subspace (mc.ref.laue_ref); inconsistency = the supplied values, perturbed by the harness in ONE
redundant coordinate at ONE volume, measured by the harness' own projections under every reading of "residual":
  rss_joint  sum of squared residuals of the joint least-squares problem [supplied values; relations] (what
             numpy.linalg.lstsq reports and the implementation compares with residual_atol),
  rss_fit    sum of squared distances of the supplied values from the nearest invariant tensor,
  maxabs     largest |supplied value - nearest invariant tensor|, and largest |relation evaluated on supplied values|.
"small" perturbations have ALL of these <= residual_atol/2, "large" ones have ALL of rss_joint, rss_fit, maxabs
>= 2*residual_atol (checked at run time, HarnessError otherwise), so the verdict does not depend on the reading.

  refusal expected  <=>  (S insufficient and not ignore_rank) or (kind == large and not ignore_residuals)

"refusal" = any exception out of fill_cij / non-zero exit status of `cij fill`.  On acceptance (when no refusal was
expected): supplied values unchanged to 1e-9*scale for consistent data and within sqrt(residual_atol) for "small";
every relation of the Laue class (from laue_ref, not from the packaged file) violated by <= sqrt(residual_atol);
non-modulus columns bit-identical in value, dtype and presence (rows compared by POSITION whatever the row labels); a modulus column is present iff it exceeds drop_atol
somewhere (factor-2 guard band); no component occurs twice after lower-casing; the result equals the result of the
plain presentation (float columns, lower case, given order, V only, empty cwd, packaged relations) to 1e-9*scale.
Supplied VANISHING components (part E, lattice dimension z, CLI): all of them as 0 is consistent data (accepted, dropped from
the result); one of them clearly non-zero is inconsistent beyond tolerance (checked under every reading like "large");
they never change sufficiency.  The full non-vanishing set + all vanishing ones is the complete 21-column table.
With inconsistent data (kind == large or a non-zero vanishing component) and ignore_residuals the movement/relation
bounds are NOT asserted (they cannot both hold).
Mutation of the frame passed in is not asserted either way (every call gets a fresh copy).
"""
from __future__ import annotations

import itertools
import math
import os
from collections import OrderedDict

import numpy

from mc.explore import V, HarnessError, lattice, lattice_size, case_key
from mc.ref import laue_ref as L
from mc.props import c08 as C8

ID = "C09"
MOD = "mc.props.c09"
DEFAULT_TOL = 0.1          # default residual_atol of fill_cij (documented in its signature and settings.yaml)
DEFAULT_DROP = 1e-8
NV = 3
PERT_ROW = 1               # the volume whose value is perturbed (only one: "any volume" must refuse)
SMALL_SYSTEMS = C8.SMALL_SYSTEMS
USER_FILE = "my_relations.txt"

DIMS = OrderedDict([
    ("subset", ["min", "min+1", "min-1", "full", "min-1+1"]),
    ("ir", [False, True]),
    ("ires", [False, True]),
    ("kind", ["consistent", "small", "large"]),
    ("dtype", ["float", "int", "whole"]),          # float64 / int64 even numbers / int64 generic whole numbers (C8.WHOLE)
    ("case", ["lower", "upper"]),
    ("order", ["given", "reversed", "rotated"]),
    ("extras", ["V", "P0", "rho", "c110"]),
    ("cwd", ["empty", "dir", "file", "file:other:dot"]),   # see relations_file()
    ("drop", [DEFAULT_DROP, 1.0, 0.1]),
    ("shape", list(C8.SHAPES)),                    # volume dependence of the tensor: smooth / retained components dip below drop_atol at ONE volume
    ("tol", [None, 4.0]),
    ("rows", list(C8.ROWS)),                       # row labels of the frame: default / n-1..0 / offset, non-contiguous
    ("z", ["none", "zeros", "one", "zeros+one"]),  # supplied VANISHING components (see supplied_components)
])
PRESENTATION = ("dtype", "case", "order", "extras", "cwd", "rows")


def vanishing(system):
    nvn = set(L.nonvanishing(system))
    return [j for j in range(21) if j not in nvn]


def supplied_components(system, mask, z="none", zc=None):
    """the supplied components: the subset `mask` of the non-vanishing ones, plus vanishing ones according to z:
      none       no vanishing component is supplied
      zeros      ALL vanishing components are supplied, with value 0 (consistent)
      one        exactly one vanishing component (zc) is supplied, with a clearly non-zero value (inconsistent)
      zeros+one  all vanishing components are supplied, zc with a clearly non-zero value, the others 0
    (mask = full and z = zeros / zeros+one is the complete 21-column table).  A vanishing component adds no
    information about the others: the sufficiency oracle is the same rank test on the union."""
    S = L.mask_to_subset(system, mask)
    if z == "none":
        return S
    van = vanishing(system)
    if not van:
        raise HarnessError(f"{system} has no vanishing component")
    if z in ("one", "zeros+one") and (zc not in L.INDEX or L.INDEX[zc] not in van):
        raise HarnessError(f"{system}: {zc!r} is not a vanishing component")
    if z in ("zeros", "zeros+one"):
        return sorted(S + van)
    if z == "one":
        return sorted(S + [L.INDEX[zc]])
    raise HarnessError(f"unknown z {z}")


def z_inconsistent(c):
    return c.get("z", "none") in ("one", "zeros+one")


# --------------------------------------------------------------------------- scenario (harness side)

def deltas(tol, ints):
    """perturbation sizes clearly on either side of the threshold under both readings (rss ~ delta^2, maxabs ~ delta)"""
    small = min(tol, math.sqrt(tol)) / 8.0
    large = 8.0 * max(tol, math.sqrt(tol))
    if ints:
        large = float(math.ceil(large))
    return small, large


def redundant_coordinate(system, S, last=False):
    """first (or last) non-vanishing j in S whose value is determined by the other supplied components (rank unchanged without it)"""
    nvn = set(L.nonvanishing(system))
    S = [j for j in S if j in nvn]
    r = L.subset_rank(system, S)
    if r == len(S):
        return None
    for j in (S[::-1] if last else S):
        if L.subset_rank(system, [k for k in S if k != j]) == r:
            return j
    raise HarnessError("redundant set without a redundant coordinate")


def basis_matrix(system):
    rows, piv = L.invariant_basis(system)
    return numpy.array([[float(x) for x in r] for r in rows]), piv


def relation_rows(eqs):
    if not eqs:
        return numpy.zeros((0, 21))
    return numpy.array([[float(x) for x in row] for row, _ in eqs])


def true_relation_rows(system):
    """one row per dependent component j: x_j - sum_k basis[k][j] x_pivot(k) = 0 (from the invariant subspace)"""
    B, piv = basis_matrix(system)
    rows = []
    for j in range(21):
        if j in piv:
            continue
        r = numpy.zeros(21)
        r[j] = 1.0
        for k, p in enumerate(piv):
            r[p] -= B[k, j]
        rows.append(r)
    return numpy.array(rows).reshape(-1, 21)


def measures(system, S, vals, A):
    """all readings of 'how much do the supplied values contradict the relations' (max over volumes)"""
    B, _ = basis_matrix(system)
    S = list(S)
    if not S:
        return {"rss_joint": 0.0, "rss_fit": 0.0, "maxabs": 0.0, "maxrel": 0.0}
    BS = B[:, S].T
    coef = numpy.linalg.lstsq(BS, vals, rcond=None)[0]
    r = vals - BS @ coef
    sel = numpy.zeros((len(S), 21))
    for t, j in enumerate(S):
        sel[t, j] = 1.0
    a = numpy.vstack([sel, A])
    b = numpy.vstack([vals, numpy.zeros((A.shape[0], vals.shape[1]))])
    x = numpy.linalg.lstsq(a, b, rcond=None)[0]
    rj = a @ x - b
    maxrel = 0.0
    inS = numpy.zeros(21, bool)
    inS[S] = True
    full = numpy.zeros((21, vals.shape[1]))
    full[S] = vals
    for R in (A, true_relation_rows(system)):
        for row in R:
            if numpy.all(inS[row != 0]):
                maxrel = max(maxrel, float(numpy.abs(row @ full).max()))
    return {"rss_joint": float((rj ** 2).sum(axis=0).max()), "rss_fit": float((r ** 2).sum(axis=0).max()),
            "maxabs": float(numpy.abs(r).max()), "maxrel": maxrel}


def scenario(system, S, kind, ints, small, tol, A, zc=None, shape="smooth", delta=None, jpick="first"):
    """supplied values (|S| x NV), the invariant tensor they come from, the perturbed coordinate.
    zc: a supplied vanishing component that gets a clearly non-zero value at one volume."""
    E = C8.expected_tensor(system, NV, ints=ints, small=small, shape=shape)
    vals = E[list(S)].copy() if S else numpy.zeros((0, NV))
    jstar = None
    if kind != "consistent":
        jstar = redundant_coordinate(system, S, last=(jpick == "last"))
        if jstar is None:
            raise HarnessError(f"{system} S={C8.names(S)}: no redundancy, kind {kind} is not applicable")
        ds, dl = deltas(tol, ints)
        if delta is not None:
            if kind != "small":
                raise HarnessError("an explicit delta is for the value kind 'small' (rounding-level disagreements) only")
            ds = float(delta)
        vals[list(S).index(jstar), PERT_ROW] += ds if kind == "small" else dl
        # the classification must hold under every reading, with the relations written as the reference writes them
        # (coefficients +-1, 1/2) and, when the relations in force are EQUIVALENT to the reference's, also as the tree
        # writes them.  Relations of the tree that are not equivalent (a defective file) never decide what the harness
        # calls small or large: that would turn a defect of the tree into a harness error.
        readings = [measures(system, S, vals, reference_rows(system))]
        if equivalent_to_reference(system, A):
            readings.append(measures(system, S, vals, A))
        for m in readings:
            if kind == "small" and not max(m.values()) <= tol / 2 * (1 + 1e-9):
                raise HarnessError(f"{system} S={C8.names(S)}: 'small' perturbation is not small under every reading: {m} tol={tol}")
            if kind == "large" and not min(m["rss_joint"], m["rss_fit"], m["maxabs"]) >= 2 * tol:
                raise HarnessError(f"{system} S={C8.names(S)}: 'large' perturbation is not large under every reading: {m} tol={tol}")
    if zc is not None:
        vals[list(S).index(L.INDEX[zc]), PERT_ROW] += deltas(tol, ints)[1]
        readings = [measures(system, S, vals, reference_rows(system))]
        if equivalent_to_reference(system, A):
            readings.append(measures(system, S, vals, A))
        for m in readings:
            if not min(m["rss_joint"], m["rss_fit"], m["maxabs"]) >= 2 * tol:
                raise HarnessError(f"{system} S={C8.names(S)}: non-zero vanishing {zc} is not large under every reading: {m} tol={tol}")
    return E, vals, jstar


def reference_rows(system):
    return relation_rows(L.parse_relations(L.user_relations_text(system), "reference"))


def equivalent_to_reference(system, A):
    """do the rows A define the same subspace as the Laue class? (numerical ranks of small exact-valued matrices)"""
    T = true_relation_rows(system)
    if A.shape[0] == 0 or T.shape[0] == 0:
        return A.shape[0] == 0 and T.shape[0] == 0
    r = numpy.linalg.matrix_rank
    return r(A) == r(T) == r(numpy.vstack([A, T]))


def make_table(S, vals, ints, case, order, extras, rows="default"):
    """the DataFrame handed to the real code; returns (frame, list of non-modulus column names)"""
    import pandas
    cols = [("V", C8.volumes(NV, ints))]
    for t, j in enumerate(S):
        if case not in ("lower", "upper", "mixed"):
            raise HarnessError(f"unknown letter case {case}")
        # mixed: every other supplied component in upper case (so that symmetry-related columns are spelled differently)
        name = L.NAMES[j].upper() if (case == "upper" or (case == "mixed" and t % 2 == 1)) else L.NAMES[j]
        v = vals[t]
        if ints:
            if not numpy.all(v == numpy.round(v)):
                raise HarnessError("integer table with non-integer value")
            v = v.astype(numpy.int64)
        cols.append((name, v.copy()))
    nonmod = ["V"]
    if extras == "P0":
        cols.append(("P", numpy.zeros(NV, dtype=numpy.int64 if ints else float)))
        nonmod.append("P")
    elif extras == "rho":
        cols.append(("density", numpy.array([0.25 + 0.01 * i for i in range(NV)])))
        nonmod.append("density")
    elif extras == "c110":
        cols.append(("c110", numpy.array([7.5 + i for i in range(NV)])))
        nonmod.append("c110")
    elif extras != "V":
        raise HarnessError(f"unknown extras {extras}")
    if order == "reversed":
        cols = cols[::-1]
    elif order == "rotated":
        k = min(2, len(cols) - 1)
        cols = cols[k:] + cols[:k]
    elif order != "given":
        raise HarnessError(f"unknown order {order}")
    return C8.relabel_rows(pandas.DataFrame(OrderedDict(cols)), rows), nonmod


# a user-written relations file: WHAT it is called x HOW it is passed.  Its content is always the relations of the table's
# own system written by the reference (laue_ref.user_relations_text: equivalent to the packaged file, other spelling).
#   name kind  plain: my_relations.txt | own: the name of the system itself | other: the name of ANOTHER packaged system
#              whose packaged relations make the table insufficient or inconsistent (so a lookup that prefers the packaged
#              file of that name changes the verdict)
#   style      rel: `name` | dot: `./name` | abs: absolute path | sub: `sub/name`
# "file" = "file:plain:rel".  Rule on the tree (fill.py docstring/comment): a path that is a file is used as the relations.
#   + capital letters: name kinds  caps: MyRelations.TXT | othercaps: the other system's name capitalised (e.g. ./Cubic)
#                      styles      capsub: `Sub/Dir.X/name` | capabs: absolute path through Sub/Dir.X
FILE_NAMEKINDS = ("plain", "own", "other", "caps", "othercaps")
FILE_STYLES = ("rel", "dot", "abs", "sub", "capsub", "capabs")
CAPS_FILE = "MyRelations.TXT"
CAPS_DIR = os.path.join("Sub", "Dir.X")
OTHER_SYSTEM = {"cubic": "hexagonal", "hexagonal": "cubic", "tetragonal6": "cubic", "tetragonal7": "tetragonal6",
                "trigonal6": "hexagonal", "trigonal7": "trigonal6", "orthorhombic": "cubic", "monoclinic": "orthorhombic",
                "triclinic": "cubic"}


def is_file_cwd(cwd):
    return cwd == "file" or cwd.startswith("file:")


def relations_file(system, cwd, base):
    """(file name relative to the scratch cwd `base`, the string passed as `system`)"""
    namekind, style = ("plain", "rel") if cwd == "file" else cwd.split(":")[1:]
    if namekind not in FILE_NAMEKINDS or style not in FILE_STYLES:
        raise HarnessError(f"unknown relations-file variant {cwd}")
    name = {"plain": USER_FILE, "own": system, "other": OTHER_SYSTEM[system], "caps": CAPS_FILE,
            "othercaps": OTHER_SYSTEM[system].capitalize()}[namekind]
    rel = os.path.join("sub", name) if style == "sub" else (os.path.join(CAPS_DIR, name) if style in ("capsub", "capabs") else name)
    arg = {"rel": name, "dot": "./" + name, "abs": os.path.join(base, name), "sub": "sub/" + name,
           "capsub": CAPS_DIR + "/" + name, "capabs": os.path.join(base, CAPS_DIR, name)}[style]
    return rel, arg


def call_fill(system, table, cwd, ir, ires, drop, tol):
    """ONE execution of the real fill_cij in a fresh scratch working directory.
    Returns ('ok', frame) or ('raised', exception)."""
    from cij.util.fill import fill_cij
    with C8.scratch_cwd("c09-") as base:
        sysarg = system
        if cwd == "dir":
            os.mkdir(system)
        elif is_file_cwd(cwd):
            rel, sysarg = relations_file(system, cwd, base)
            if os.path.dirname(rel):
                os.makedirs(os.path.dirname(rel))
            with open(rel, "w") as fp:
                fp.write(L.user_relations_text(system))
        elif cwd != "empty":
            raise HarnessError(f"unknown cwd {cwd}")
        kw = {"ignore_residuals": ires, "ignore_rank": ir, "drop_atol": drop}
        if tol is not None:
            kw["residual_atol"] = tol
        try:
            return "ok", fill_cij(table.copy(), sysarg, **kw)
        except BaseException as ex:
            if isinstance(ex, (KeyboardInterrupt, SystemExit, MemoryError)):
                raise
            return "raised", ex


def relations_in_force(system, cwd):
    """the relations the implementation is asked to use, parsed by the reference's own parser"""
    if is_file_cwd(cwd):
        return relation_rows(L.parse_relations(L.user_relations_text(system), "user-file"))
    return relation_rows(C8.packaged_relations(system))


def cfg_label(c):
    zs = "" if c["z"] == "none" else (" +all vanishing components as 0" if c["z"] == "zeros" else
                                      f" +vanishing {c['zc']} non-zero" + (", the other vanishing ones as 0" if c["z"] == "zeros+one" else ""))
    return (f"{c['system']} S={C8.names(L.mask_to_subset(c['system'], c['mask']))}{zs} kind={c['kind']} ignore_rank={c['ir']} "
            f"ignore_residuals={c['ires']} dtype={c['dtype']} case={c['case']} order={c['order']} extras={c['extras']} "
            f"cwd={c['cwd']} drop_atol={c['drop']} residual_atol={c['tol'] if c['tol'] is not None else 'default'}"
            + ("" if c["rows"] == "default" else f" row-labels={c['rows']}")
            + ("" if c["shape"] == "smooth" else f" value-shape={c['shape']}"))


ROOT_DIMS = ("cwd", "extras", "dtype", "case", "order", "drop", "tol", "rows")


def execute(c, small=True):
    """build the inputs of configuration c and run the real code once"""
    s = c["system"]
    S = supplied_components(s, c["mask"], c["z"], c["zc"])
    ints = {"float": False, "int": True, "whole": "whole"}[c["dtype"]]
    tol = DEFAULT_TOL if c["tol"] is None else c["tol"]
    A = relations_in_force(s, c["cwd"])
    E, vals, jstar = scenario(s, S, c["kind"], ints, small, tol, A, c["zc"] if z_inconsistent(c) else None, c["shape"],
                              c["delta"], c["jpick"])
    table, nonmod = make_table(S, vals, ints, c["case"], c["order"], c["extras"], c["rows"])
    status, res = call_fill(s, table, c["cwd"], c["ir"], c["ires"], c["drop"], c["tol"])
    return S, tol, A, E, vals, jstar, table, nonmod, status, res


def context(c, tname, small=True):
    """root cause of an exception that was not due: the presentation deviations of c that are NECESSARY for it
    (putting any one of them back to its default makes this exception type disappear), found by re-running the
    real code; so one root cause keeps one signature whatever else deviates in the configuration."""
    need = []
    for k in ROOT_DIMS:
        if c[k] == DIMS[k][0]:
            continue
        c2 = dict(c)
        c2[k] = DIMS[k][0]
        try:
            out = execute(c2, small)
            gone = not (out[-2] == "raised" and type(out[-1]).__name__ == tname)
        except HarnessError:
            gone = True
        if gone:
            need.append(f"{k}-{c[k]}")
    if c["mask"] == 0:
        need.append("no-modulus-columns")
    return "+".join(need) or "plain"


def vector(cols):
    """(21, NV) array of a folded result; absent -> 0; plus presence flags"""
    x = numpy.zeros((21, NV))
    present = numpy.zeros(21, bool)
    for j, n in enumerate(L.NAMES):
        if n in cols:
            x[j] = numpy.asarray(cols[n], dtype=float)
            present[j] = True
    return x, present


def evaluate(c, small=True):
    """run ONE configuration on the real code and apply the oracle. Returns (viol, outcome, info)"""
    import pandas
    s = c["system"]
    ints = {"float": False, "int": True, "whole": "whole"}[c["dtype"]]
    S, tol, A, E, vals, jstar, table, nonmod, status, res = execute(c, small)
    suff = L.is_sufficient(s, S)
    norel = L.dimension(s) == 21
    reasons = []
    if not suff and not c["ir"]:
        reasons.append("insufficient")
    ek = "large" if (c["kind"] == "large" or z_inconsistent(c)) else c["kind"]     # effective value kind
    if ek == "large" and not c["ires"]:
        reasons.append("inconsistent")
    viol = []
    lab = cfg_label(c)
    info = {"status": status, "suff": suff}
    if status == "raised":
        tname = type(res).__name__
        if reasons:
            return viol, f"refused:{tname}:{'+'.join(reasons)}", info
        if isinstance(res, Warning):
            viol.append(V(f"c09:refuses:{'sufficient' if suff else 'insufficient'}:{c['kind']}:ir{int(c['ir'])}:ires{int(c['ires'])}:{context(c, tname, small)}",
                          f"{lab}: refused with {tname}: {str(res)[:200]} although no refusal is due"))
        else:
            viol.append(V(f"c09:raises:{tname}:{context(c, tname, small)}",
                          f"{lab}: raised {tname}: {str(res)[:200]} although no refusal is due"))
        return viol, f"raised:{tname}", info
    # returned
    if reasons:
        if reasons[0] == "insufficient":
            sig = "c09:accepts-insufficient" + (":no-relations" if norel else "")
            what = (f"the supplied components have rank {L.subset_rank(s, S)} < {L.dimension(s)} on the invariant subspace "
                    f"(they do not determine the tensor) and ignore_rank is off")
        else:
            sig = "c09:accepts-inconsistent:" + ("full-rank" if suff else "rank-deficient")
            m = measures(s, S, vals, A)
            moved = ([L.NAMES[jstar]] if c["kind"] == "large" else []) + ([c["zc"] + " (vanishing in this class)"] if z_inconsistent(c) else [])
            what = (f"{' and '.join(moved)} at volume {PERT_ROW} was moved by {deltas(tol, ints)[1]} away from consistency "
                    f"({m}; residual_atol {tol}) and ignore_residuals is off")
            if isinstance(res, pandas.DataFrame):
                cols, _ = C8.fold_columns(res)
                x, pres = vector(cols)
                mv = [(L.NAMES[j], float(numpy.abs(x[j] - vals[t]).max())) for t, j in enumerate(S) if pres[j]]
                if mv:
                    what += f"; supplied values came back moved by up to {max(v for _, v in mv):.4g}"
        viol.append(V(sig, f"{lab}: accepted although {what}"))
        return viol, "accepted-but-refusal-due", info
    if not isinstance(res, pandas.DataFrame) or len(res) != NV:
        viol.append(V("c09:not-a-table", f"{lab}: returned {type(res).__name__} of length {len(res) if hasattr(res, '__len__') else '?'}"))
        return viol, "bad-result", info
    cols, dup = C8.fold_columns(res)
    if dup:
        viol.append(V("c09:duplicate-component-columns",
                      f"{lab}: columns {dup} occur more than once after lower-casing: {list(res.columns)}"))
    # non-modulus columns: bit-identical in presence, dtype and values
    for name in nonmod:
        want = table[name].to_numpy()
        if name not in res.columns:
            if numpy.all(want == 0):
                why = "all-zero"
            elif numpy.all(numpy.abs(want) <= c["drop"]):
                why = "below-drop-atol"
            else:
                why = "other"
            viol.append(V(f"c09:nonmodulus-dropped:{why}", f"{lab}: non-modulus column {name!r} ({want.tolist()}) is missing from the result {list(res.columns)}"))
            continue
        got = res[name]
        if hasattr(got, "columns") or not (got.to_numpy().dtype == want.dtype and numpy.array_equal(got.to_numpy(), want)):
            viol.append(V("c09:nonmodulus-changed", f"{lab}: non-modulus column {name!r} came back as {numpy.asarray(got).tolist()} "
                                                    f"({getattr(got, 'dtype', '?')}), was {want.tolist()} ({want.dtype})"))
    for name in res.columns:
        if name not in nonmod and not C8.is_modulus_name(name):
            viol.append(V("c09:unexpected-column", f"{lab}: unexpected column {name!r} in the result"))
    x, present = vector(cols)
    scale = max(float(numpy.abs(vals).max()) if len(S) else 1.0, 1.0)
    drop = c["drop"]
    # supplied values
    if ek in ("consistent", "small"):
        bound = C8.RTOL * scale + C8.ATOL_REL * scale if ek == "consistent" else math.sqrt(tol)
        for t, j in enumerate(S):
            if present[j]:
                mv = float(numpy.abs(x[j] - vals[t]).max())
                if not mv <= bound:
                    i = int(numpy.argmax(numpy.abs(x[j] - vals[t])))
                    viol.append(V(f"c09:supplied-moved:{ek}" + ("" if suff else ":rank-deficient"),
                                  f"{lab}: supplied {L.NAMES[j]} at volume {i} was {float(vals[t, i])!r}, came back {float(x[j, i])!r} (moved {mv:.3g} > {bound:.3g})"))
            elif float(numpy.abs(vals[t]).max()) >= 2 * drop:
                viol.append(V("c09:supplied-missing", f"{lab}: supplied {L.NAMES[j]} ({vals[t].tolist()}) is absent from the result {list(res.columns)}"))
        # relations of the class (absent = 0); only meaningful when nothing above ~drop_atol can have been dropped
        if drop <= 1e-6:
            T = true_relation_rows(s)
            if T.shape[0]:
                rv = numpy.abs(T @ x)
                if not rv.max() <= math.sqrt(tol):
                    r, i = numpy.unravel_index(int(numpy.argmax(rv)), rv.shape)
                    terms = " ".join(f"{T[r, k]:+g}*{L.NAMES[k]}" for k in range(21) if T[r, k])
                    viol.append(V("c09:relation-violated" + ("" if suff else ":rank-deficient"),
                                  f"{lab}: relation {terms} = 0 is violated by {rv[r, i]:.4g} > sqrt(residual_atol) = {math.sqrt(tol):.4g} at volume {i}"))
    # presence <-> drop tolerance (guard band of a factor 2)
    for j in range(21):
        if present[j] and float(numpy.abs(x[j]).max()) <= drop / 2:
            viol.append(V("c09:drop:below-drop-atol-present" + (":no-relations" if norel else ""),
                          f"{lab}: {L.NAMES[j]} is below drop_atol at all volumes ({x[j].tolist()}) but present in the result"))
        if not present[j] and suff and ek in ("consistent", "small") and float(numpy.abs(E[j]).max()) >= max(2 * drop, 2.0):
            viol.append(V("c09:drop:component-missing", f"{lab}: {L.NAMES[j]} (invariant tensor {E[j].tolist()}) is absent from the result"))
    info.update({"x": x, "present": present, "scale": scale})
    return viol, "accepted", info


def compare_results(c, info, base, what, viol, drop_band=None):
    """result of configuration c against a baseline result (both accepted)"""
    lab = cfg_label(c)
    x, p = info["x"], info["present"]
    bx, bp = base["x"], base["present"]
    tolv = (C8.RTOL + C8.ATOL_REL) * max(info["scale"], base["scale"])
    for j in range(21):
        if drop_band is not None:
            big = float(numpy.abs(bx[j]).max()) if bp[j] else 0.0
            if big >= 2 * drop_band and not p[j]:
                viol.append(V(f"c09:{what}:component-missing", f"{lab}: {L.NAMES[j]} = {bx[j].tolist()} with the default drop_atol, absent with drop_atol={drop_band}"))
            if big <= drop_band / 2 and p[j]:
                viol.append(V(f"c09:{what}:below-drop-atol-present" + (":no-relations" if L.dimension(c["system"]) == 21 else ""),
                              f"{lab}: {L.NAMES[j]} = {bx[j].tolist()} is below drop_atol={drop_band} at all volumes but present"))
            if not (p[j] and bp[j]):
                continue
        elif p[j] != bp[j]:
            viol.append(V(f"c09:{what}:presence", f"{lab}: {L.NAMES[j]} present={bool(p[j])}, in the plain presentation present={bool(bp[j])}"))
            continue
        if p[j] and not float(numpy.abs(x[j] - bx[j]).max()) <= tolv:
            viol.append(V(f"c09:{what}:values", f"{lab}: {L.NAMES[j]} = {x[j].tolist()}, in the baseline {bx[j].tolist()}"))


# --------------------------------------------------------------------------- case runners

def applicable_kinds(system, S, ints=False):
    if redundant_coordinate(system, S) is None:
        return ["consistent"]
    return ["consistent", "large"] if ints else ["consistent", "small", "large"]


def run_subsets(case):
    """part A: every (flag combination x applicable value kind) for each subset of the chunk, plain presentation"""
    s = case["system"]
    viol, outcomes, nfill = [], {}, 0
    z, zc = case.get("z", "none"), case.get("zc")
    for mask in [case["mask"]]:
        S = L.mask_to_subset(s, mask)
        for kind in case.get("kinds") or applicable_kinds(s, S):
            for ir, ires in itertools.product((False, True), repeat=2):
                c = full_config({"system": s, "mask": mask, "kind": kind, "ir": ir, "ires": ires, "z": z, "zc": zc})
                v, out, _ = evaluate(c, small=False)
                nfill += 1
                viol += v
                outcomes[out] = outcomes.get(out, 0) + 1
    # smallest failing subset first, so that the replay message names a minimal input
    return {"viol": C8.dedupe(viol, 1), "outcome": "subsets:" + s + ":" + ",".join(sorted(o.split(":")[0] for o in outcomes)),
            "key": f"subsets:{s}:{case['mask']}:{z}:{zc}", "nfill": nfill, "detail": outcomes}


def full_config(case):
    """lattice / CLI cases carry only their deviations from the default configuration (short replays)"""
    c = {k: v[0] for k, v in DIMS.items() if k != "subset"}
    c["zc"] = None
    c["delta"] = None        # explicit size of the "small" disagreement (default: deltas()[0])
    c["jpick"] = "first"     # which redundant supplied component carries the disagreement
    c.update(case)
    return c


def baseline_of(c):
    b = dict(c)
    b.update({"case": "lower", "order": "given", "extras": "V", "cwd": "empty", "dtype": c["dtype"], "rows": "default"})
    return b


def run_lattice_case(case):
    """part B: one configuration of the deviation lattice + its plain-presentation baseline"""
    c = full_config(case)
    viol, out, info = evaluate(c)
    nfill = 1
    if out == "accepted":
        pres_dev = [k for k in PRESENTATION if c[k] != DIMS[k][0]]
        if pres_dev:
            b = baseline_of(c)
            # int columns hold the same numbers as the float columns of the baseline
            b["dtype"] = "float"
            bv, bout, binfo = evaluate_with_values_of(c, b)
            nfill += 1
            if bout == "accepted":
                what = "presentation:" + "+".join(f"{k}-{c[k]}" for k in pres_dev)
                # an equivalent user file may spread an inconsistency differently: equality only for consistent data
                if not (is_file_cwd(c["cwd"]) and (c["kind"] != "consistent" or z_inconsistent(c))):
                    compare_results(c, info, binfo, what, viol)
        if c["drop"] != DEFAULT_DROP:
            b = dict(c)
            b["drop"] = DEFAULT_DROP
            bv, bout, binfo = evaluate(b)
            nfill += 1
            if bout == "accepted":
                compare_results(c, info, binfo, "drop", viol, drop_band=c["drop"])
    return {"viol": C8.dedupe(viol, 2), "outcome": out, "nfill": nfill}


def evaluate_with_values_of(c, b):
    """evaluate baseline b with the value set of c (int-valued numbers in float columns when c is the int variant)"""
    if c["dtype"] in ("int", "whole"):
        return _evaluate_float_of_ints(b, True if c["dtype"] == "int" else "whole")
    return evaluate(b)


def _evaluate_float_of_ints(b, ints=True):
    """plain presentation, float64 columns, but the integer-valued numbers of the int variant"""
    import pandas
    s = b["system"]
    S = supplied_components(s, b["mask"], b["z"], b["zc"])
    tol = DEFAULT_TOL if b["tol"] is None else b["tol"]
    A = relations_in_force(s, "empty")
    E, vals, _ = scenario(s, S, b["kind"], ints, True, tol, A, b["zc"] if z_inconsistent(b) else None, b["shape"])
    table, _ = make_table(S, vals, False, "lower", "given", "V")
    status, res = call_fill(s, table, "empty", b["ir"], b["ires"], b["drop"], b["tol"])
    if status != "ok" or not isinstance(res, pandas.DataFrame) or len(res) != NV:
        return [], "not-accepted", {}
    cols, _ = C8.fold_columns(res)
    x, present = vector(cols)
    return [], "accepted", {"x": x, "present": present, "scale": max(float(numpy.abs(vals).max()) if len(S) else 1.0, 1.0)}


# ---- CLI

def table_text(table, title="synthetic static table"):
    """elast.dat text: title, 'vref nv cellmass', header + rows (repr of the numbers: lossless)"""
    lines = [title, f"  100.25  {len(table)}  120.5", "  ".join(str(c) for c in table.columns)]
    for i in range(len(table)):
        lines.append("  ".join(repr(int(v)) if numpy.issubdtype(type(v), numpy.integer) else repr(float(v))
                               for v in table.iloc[i].tolist()))
    return "\n".join(lines) + "\n"


def invoke_cli(args, files, mkdirs=()):
    """`cij fill ...` in-process in a fresh cwd; returns (exit_code, exception, stdout)"""
    from click.testing import CliRunner
    from cij.cli.cij import main
    with C8.scratch_cwd("c09-cli-"):
        for d in mkdirs:
            os.mkdir(d)
        for name, text in files.items():
            with open(name, "w") as fp:
                fp.write(text)
        try:
            runner = CliRunner(mix_stderr=False)
        except TypeError:
            runner = CliRunner()
        res = runner.invoke(main, args)
    out = res.stdout if hasattr(res, "stdout") else res.output
    return res.exit_code, res.exception, out


def parse_cli_table(out, nv):
    """stdout of `cij fill`: title, count line, header + nv rows -> {lower name: values}, duplicates"""
    lines = out.splitlines()
    if len(lines) < 3 + nv:
        return None, None
    head = lines[2].split()
    rows = [ln.split() for ln in lines[3:3 + nv]]
    if any(len(r) != len(head) for r in rows):
        return None, None
    cols, dup = {}, []
    for k, name in enumerate(head):
        key = name.lower()
        if key in cols:
            dup.append(key)
            continue
        try:
            cols[key] = numpy.array([float(r[k]) for r in rows])
        except ValueError:
            return None, None
    return cols, dup


def cli_args(c, fname="elast.dat"):
    args = ["fill", "-s", c["system"]]
    if c["ir"]:
        args.append("--ignore-rank")
    if c["ires"]:
        args.append("--ignore-residuals")
    if c["drop"] != DEFAULT_DROP:
        args += ["--drop-atol", repr(c["drop"])]
    return args + [fname]


PRINT_TOL = 1e-6     # pandas to_string prints floats with 6 decimals: half a unit of the last digit is 5e-7


def run_cli(case):
    c = full_config(case)
    s = c["system"]
    S = supplied_components(s, c["mask"], c["z"], c["zc"])
    A = relations_in_force(s, "empty")
    E, vals, jstar = scenario(s, S, c["kind"], False, True, DEFAULT_TOL, A, c["zc"] if z_inconsistent(c) else None, c["shape"],
                              c["delta"], c["jpick"])
    table, nonmod = make_table(S, vals, False, "lower", "given", "V")
    suff = L.is_sufficient(s, S)
    ek = "large" if (c["kind"] == "large" or z_inconsistent(c)) else c["kind"]
    refuse = (not suff and not c["ir"]) or (ek == "large" and not c["ires"])
    args = cli_args(c)
    code, exc, out = invoke_cli(args, {"elast.dat": table_text(table)}, mkdirs=[s] if c["cwd"] == "dir" else [])
    lab = (f"`cij {' '.join(args)}` on table [V,{','.join(C8.names(S))}] kind={c['kind']} cwd={c['cwd']}"
           + ("" if c["shape"] == "smooth" else f" value-shape={c['shape']}")
           + (f" (vanishing {c['zc']} non-zero)" if z_inconsistent(c) else "")
           + (f" ({L.NAMES[jstar]} disagrees with its relation by {c['delta'] if c['delta'] is not None else deltas(DEFAULT_TOL, False)[0]} at one volume)"
              if c["kind"] == "small" else ""))
    viol = []
    ename = type(exc).__name__ if exc is not None else "none"
    if code != 0:
        if refuse:
            return {"viol": [], "outcome": f"cli-refused:{ename}"}
        if isinstance(exc, Warning):
            sig = f"c09:cli:refuses:{'sufficient' if suff else 'insufficient'}:{c['kind']}:ir{int(c['ir'])}:ires{int(c['ires'])}"
        else:
            sig = f"c09:cli:raises:{ename}:{'cwd-' + c['cwd'] if c['cwd'] != 'empty' else 'plain'}"
        return {"viol": [V(sig, f"{lab}: exit status {code} ({ename}: {str(exc)[:160]}) although no refusal is due")], "outcome": f"cli-raised:{ename}"}
    if refuse:
        why = "insufficient" + (":no-relations" if L.dimension(s) == 21 else "") if (not suff and not c["ir"]) else \
              "inconsistent:" + ("full-rank" if suff else "rank-deficient")
        return {"viol": [V(f"c09:cli:accepts-{why}", f"{lab}: exit status 0 although a refusal is due")], "outcome": "cli-accepted-but-refusal-due"}
    cols, dup = parse_cli_table(out, NV)
    if cols is None:
        return {"viol": [V("c09:cli:output-not-a-table", f"{lab}: cannot parse the table from stdout: {out[:300]!r}")], "outcome": "cli-bad-output"}
    if dup:
        viol.append(V("c09:cli:duplicate-component-columns", f"{lab}: duplicate columns {dup}"))
    vin = table["V"].to_numpy()
    if "v" not in cols or not numpy.all(numpy.abs(cols["v"] - vin) <= PRINT_TOL):
        viol.append(V("c09:cli:V-changed", f"{lab}: V column printed as {cols.get('v')}"))
    x, present = vector(cols)
    drop = c["drop"]
    if ek == "small":
        bound = math.sqrt(DEFAULT_TOL)
        for t, j in enumerate(S):
            if present[j] and not float(numpy.abs(x[j] - vals[t]).max()) <= bound + PRINT_TOL:
                viol.append(V("c09:cli:supplied-moved:small", f"{lab}: supplied {L.NAMES[j]} {vals[t].tolist()} printed as {x[j].tolist()} (bound sqrt(residual_atol) = {bound:.4g})"))
        T = true_relation_rows(s)
        if T.shape[0] and drop <= 1e-6:
            rv = numpy.abs(T @ x)
            if not rv.max() <= bound + 4 * PRINT_TOL:
                viol.append(V("c09:cli:relation-violated", f"{lab}: a relation of the class is violated by {rv.max():.4g} > sqrt(residual_atol) in the printed table"))
    if ek == "consistent":
        for t, j in enumerate(S):
            if present[j] and not float(numpy.abs(x[j] - vals[t]).max()) <= PRINT_TOL:
                viol.append(V("c09:cli:supplied-moved", f"{lab}: supplied {L.NAMES[j]} {vals[t].tolist()} printed as {x[j].tolist()}"))
        if suff:
            for j in range(21):
                big = float(numpy.abs(E[j]).max())
                if big >= max(2 * drop, 2.0) and not present[j]:
                    viol.append(V("c09:cli:component-missing", f"{lab}: {L.NAMES[j]} absent from the printed table"))
                elif big <= drop / 2 and present[j]:
                    viol.append(V("c09:cli:below-drop-atol-present" + (":no-relations" if L.dimension(s) == 21 else ""),
                                  f"{lab}: {L.NAMES[j]} (invariant tensor {E[j].tolist()}) is below drop_atol but printed"))
                elif present[j] and not float(numpy.abs(x[j] - E[j]).max()) <= PRINT_TOL:
                    viol.append(V("c09:cli:filled-wrong", f"{lab}: {L.NAMES[j]} printed as {x[j].tolist()}, invariant tensor {E[j].tolist()}"))
    return {"viol": C8.dedupe(viol, 2), "outcome": "cli-accepted"}


# ---- mode B chain

def run_chain(case):
    """history of operations F (fill_cij) / C (`cij fill`) applied to the previous output; nothing may drift"""
    import pandas
    s, hist = case["system"], case["history"]
    S = L.mask_to_subset(s, case["mask"])
    E = C8.expected_tensor(s, NV, small=False)
    scale = float(numpy.abs(E).max())
    table = C8.build_table(s, S, E, NV)
    vin = table["V"].to_numpy().copy()
    nvn = set(L.nonvanishing(s))
    viol = []
    ncli = 0
    digests = []
    for step, op in enumerate(hist, 1):
        tag = f"{s} start=[V,{','.join(C8.names(S))}] history={''.join(hist[:step])}"
        if op == "F":
            status, res = call_fill(s, table, "empty", False, False, DEFAULT_DROP, None)
            if status != "ok":
                viol.append(V(f"c09:chain:step{min(step, 2)}:raises:{type(res).__name__}",
                              f"{tag}: fill_cij on {'the start table' if step == 1 else 'an already filled table'} raised {type(res).__name__}: {str(res)[:160]}"))
                break
            table = res
        elif op == "C":
            code, exc, out = invoke_cli(["fill", "-s", s, "elast.dat"], {"elast.dat": table_text(table)})
            if code != 0:
                viol.append(V(f"c09:chain:step{min(step, 2)}:cli-exit:{type(exc).__name__}",
                              f"{tag}: `cij fill` on {'the start table' if step == 1 else 'an already filled table'} exited {code}: {exc!r}"))
                break
            cols, dup = parse_cli_table(out, NV)
            if cols is None or dup:
                viol.append(V("c09:chain:cli-output", f"{tag}: unparsable/duplicate table {out[:200]!r}"))
                break
            ncli += 1
            order = ["v"] + [n for n in L.NAMES if n in cols] + [n for n in cols if n != "v" and n not in L.INDEX]
            table = pandas.DataFrame(OrderedDict(("V" if n == "v" else n, cols[n]) for n in order))
        else:
            raise HarnessError(f"unknown op {op}")
        if not isinstance(table, pandas.DataFrame) or len(table) != NV:
            viol.append(V("c09:chain:not-a-table", f"{tag}: result is not a table of {NV} rows"))
            break
        cols, dup = C8.fold_columns(table)
        x, present = vector(cols)
        # printed with 6 decimals (<= 5e-7 each time), then re-fitted to relations that the rounded numbers violate by <= 1e-6
        tolv = 2e-6 * ncli + (C8.RTOL + C8.ATOL_REL) * scale
        if dup:
            viol.append(V("c09:chain:duplicate-component-columns", f"{tag}: {dup}"))
        if "v" not in cols or not numpy.all(numpy.abs(numpy.asarray(cols["v"], float) - vin) <= (PRINT_TOL if ncli else 0.0)):
            viol.append(V("c09:chain:V-drift", f"{tag}: V is {cols.get('v')}"))
        for j in range(21):
            if (j in nvn) != bool(present[j]):
                viol.append(V("c09:chain:component-set-drift", f"{tag}: {L.NAMES[j]} present={bool(present[j])}, non-vanishing={j in nvn}"))
            elif present[j] and not float(numpy.abs(x[j] - E[j]).max()) <= tolv:
                viol.append(V("c09:chain:value-drift", f"{tag}: {L.NAMES[j]} = {x[j].tolist()} after {step} steps, invariant tensor {E[j].tolist()} (tolerance {tolv:.3g})"))
        digests.append(case_key({"cols": sorted(cols), "x": numpy.round(x, 5).tolist()}))
        if viol:
            break
    return {"viol": C8.dedupe(viol, 1), "outcome": "chain:" + ("ok" if not viol else "drift"), "digests": digests, "steps": len(hist)}


def run_case(case):
    what = case["what"]
    if what == "subsets":
        return run_subsets(case)
    if what == "lattice":
        return run_lattice_case(case)
    if what == "cli":
        return run_cli(case)
    if what == "chain":
        return run_chain(case)
    raise HarnessError(f"unknown case {what}")


# --------------------------------------------------------------------------- enumeration

def named_subsets(system):
    """the subset alphabet of the lattice, resolved to masks (None = not available in this system)"""
    nvn = L.nonvanishing(system)
    piv = list(L.invariant_basis(system)[1])
    n = len(nvn)
    out = {"min": L.subset_to_mask(system, piv), "full": (1 << n) - 1}
    extra = [j for j in nvn if j not in piv]
    out["min+1"] = L.subset_to_mask(system, piv + extra[:1]) if extra else None
    less = piv[:-1]
    out["min-1"] = L.subset_to_mask(system, less)
    out["min-1+1"] = None
    for j in extra:
        cand = less + [j]
        if not L.is_sufficient(system, cand) and L.subset_rank(system, cand) < len(cand):
            out["min-1+1"] = L.subset_to_mask(system, cand)
            break
    return out


def canon_lattice(case, subsets):
    """resolve the subset label; drop configurations that do not exist"""
    c = dict(case)
    mask = subsets[c["system"]][c.pop("subset")]
    if mask is None:
        return None
    c["mask"] = mask
    S = L.mask_to_subset(c["system"], mask)
    if c["kind"] not in applicable_kinds(c["system"], S, ints=c["dtype"] != "float"):
        return None
    if c["z"] != "none":
        van = vanishing(c["system"])
        if not van:
            return None                      # triclinic: nothing vanishes
        if c["z"] in ("one", "zeros+one"):
            c["zc"] = L.NAMES[van[0]]
    return c


def subset_masks(system, tier_quick, restrict_large):
    """part A enumeration for one system; returns (masks, description, complete?)"""
    n = len(L.nonvanishing(system))
    d = L.dimension(system)

    def pc(m):
        return bin(m).count("1")
    if system == "triclinic":
        # 2^21 subsets are not enumerable with a 10 ms call; every subset of size k has rank k, the boundary is at 21
        lo = 20 if tier_quick else 19
        masks = []
        full = (1 << n) - 1
        for k in range(n, lo - 1, -1):
            for miss in itertools.combinations(range(n), n - k):
                m = full
                for t in miss:
                    m &= ~(1 << t)
                masks.append(m)
        return masks, f"|S| in {lo}..21 ({len(masks)} of 2^21)", False
    t = L.rank_table(system)
    if not tier_quick:
        if restrict_large and system in ("trigonal7", "monoclinic"):
            masks = [m for m in range(1 << n) if abs(pc(m) - d) <= 2]
            return masks, f"|S| within 2 of {d} ({len(masks)} of {1 << n})", False
        return list(range(1 << n)), f"all {1 << n}", True
    if system in SMALL_SYSTEMS and system != "orthorhombic":
        return list(range(1 << n)), f"all {1 << n}", True
    if system == "orthorhombic":
        # no dependent component: every proper subset is insufficient and nothing is redundant; quick keeps the layers
        # next to the full set (thorough: all 512)
        masks = [m for m in range(1 << n) if pc(m) >= n - 2]
        return masks, f"|S| in {n - 2}..{n} ({len(masks)} of {1 << n})", False

    def near(m):
        return t[m] == d or any(t[m | 1 << k] == d for k in range(n) if not m >> k & 1)
    if system in ("trigonal6", "trigonal7"):
        masks = [m for m in range(1 << n) if (t[m] == d and pc(m) == d) or (t[m] < d and pc(m) == d - 1 and near(m))]
        return masks, f"sufficient with |S| = {d} + insufficient with |S| = {d - 1} one component short of sufficiency ({len(masks)} of {1 << n})", False
    if system == "tetragonal7":
        masks = [m for m in range(1 << n) if (t[m] == d and pc(m) <= d + 1) or (t[m] < d and pc(m) == d - 1 and near(m))]
        return masks, f"sufficient with |S| in {{{d},{d + 1}}} + insufficient with |S| = {d - 1} one component short of sufficiency ({len(masks)} of {1 << n})", False
    masks = [m for m in range(1 << n) if d - 1 <= pc(m) <= d + 1 and near(m)]
    return masks, f"|S| in {d - 1}..{d + 1}, sufficient or one component short of sufficiency ({len(masks)} of {1 << n})", False


def explore(ctx):
    ctx.rule = ("A: subsets of the non-vanishing components (sufficient AND insufficient, oracle = exact rank on the Laue-invariant "
                "subspace) x (ignore_rank, ignore_residuals) in 4 combinations x value kind in {consistent, small, large} (the latter "
                "two only where S contains a redundant component), plain presentation; quick: cubic, hexagonal, tetragonal6, "
                "orthorhombic complete + boundary layers of the others, thorough: all subsets of all systems but triclinic (sizes "
                "19..21). B: deviation lattice (quick <= 2, thorough <= 3 deviations) around each system's minimal sufficient set over "
                "subset kind, flags, value kind, dtype, letter case, column order, extra columns, working directory / relations file, "
                "drop_atol, residual_atol, row labels of the frame, supplied vanishing components; each configuration is compared with "
                "its plain presentation. E: supplied VANISHING components {all as 0; one non-zero (each vanishing component, quick: first "
                "and last); all supplied with one non-zero} x the named subsets (minimal, +1, -1, full, -1+1; full + all vanishing = the "
                "complete 21-column table) x flags x value kinds. C: `cij fill` (CliRunner, "
                "per-case cwd): subset kind x value kind x flags x --drop-atol x cwd. D (mode B): all histories over {fill_cij, cij fill} "
                "up to depth 3 from the minimal and the full table. non-trivial = every case (each runs the real code on a distinct input)")
    ctx.assumptions = ["sufficiency/relations oracle: mc.ref.laue_ref (exact); inconsistency measured by numpy lstsq in the harness",
                       "a refusal is any exception (fill_cij) / non-zero exit status (cij fill)",
                       "perturbations stay a factor >= 2 (in fact >= 8 in the perturbed coordinate) from residual_atol under both readings "
                       "(sum of squares, max abs)",
                       "pandas to_string prints 6 decimals (CLI comparisons to 1e-6)",
                       "mutation of the caller's DataFrame is not asserted either way"]
    quick = ctx.quick
    # thorough enumerates every subset of every system but triclinic (about 4.8e5 fills of ~16 ms).  Only when a
    # soft budget was given (--budget) and the estimate does not fit, trigonal7 (2^15) and monoclinic (2^13) are
    # restricted to |S| within 2 of the sufficiency boundary; this is recorded and exhaustive is set to False.
    restrict = False
    if not quick and ctx.deadline is not None:
        import time
        est = 0.0
        for s in L.SYSTEMS:
            if s == "triclinic":
                continue
            t = L.rank_table(s)
            est += sum(12 if t[m] < bin(m).count("1") else 4 for m in range(len(t))) * 0.016 / max(ctx.nproc, 1)
        restrict = time.time() + est > ctx.deadline
        ctx.notes["A_budget"] = {"estimated_wall_s": round(est), "restricted": restrict}
    # ---- A
    cases, counts = [], {}
    complete = True
    for s in L.SYSTEMS:
        masks, desc, comp = subset_masks(s, quick, restrict)
        complete &= comp
        masks = sorted(masks, key=lambda m: (bin(m).count("1"), m))
        n_suff = sum(1 for m in masks if L.is_sufficient(s, L.mask_to_subset(s, m))) if s == "triclinic" else \
            sum(1 for m in masks if L.rank_table(s)[m] == L.dimension(s))
        counts[s] = {"explored": len(masks), "sufficient_among_them": n_suff, "rule": desc}
        for m in masks:
            cases.append({"what": "subsets", "system": s, "mask": m})
    res = ctx.run(MOD, "run_case", cases, part="subsets-x-flags-x-kinds", chunksize=8, transitions=0)
    nf = sum(r.get("nfill", 0) for r in res)
    ctx.transitions += nf
    ctx.notes["A_subsets"] = counts
    ctx.notes["A_fill_calls"] = nf
    detail = {}
    for r in res:
        for k, v in (r.get("detail") or {}).items():
            detail[k] = detail.get(k, 0) + v
    ctx.notes["A_outcomes"] = detail
    if not complete:
        ctx.exhaustive = False
        ctx.notes["A_not_exhaustive"] = "see A_subsets[*].rule: triclinic is restricted to the layers next to the full set in both tiers" + \
            ("; the other systems are complete" if not quick and not restrict else "") + \
            ("; --budget too small: trigonal7 and monoclinic restricted to |S| within 2 of the boundary" if restrict else "")
    # ---- E: supplied vanishing components (incl. the complete 21-column tables)
    subsets = {s: named_subsets(s) for s in L.SYSTEMS}
    cases, zcount = [], {}
    for s in L.SYSTEMS:
        van = vanishing(s)
        if not van:
            continue
        zcs = [L.NAMES[j] for j in (van if not quick else sorted({van[0], van[-1]}))]
        zmodes = [("zeros", None)] + [(z, zc) for z in ("one", "zeros+one") for zc in zcs]
        masks = sorted({m for m in subsets[s].values() if m is not None})
        zcount[s] = {"vanishing_components": len(van), "non_zero_candidates": len(zcs), "subsets": len(masks), "z_modes": len(zmodes)}
        for m in masks:
            for z, zc in zmodes:
                c = {"what": "subsets", "system": s, "mask": m, "z": z}
                if zc:
                    c["zc"] = zc
                if quick:      # quick: the decisive value kinds only (thorough adds "small")
                    c["kinds"] = [k for k in applicable_kinds(s, L.mask_to_subset(s, m)) if k != "small"]
                cases.append(c)
    res = ctx.run(MOD, "run_case", cases, part="vanishing-components-x-flags-x-kinds", chunksize=4, transitions=0)
    nf = sum(r.get("nfill", 0) for r in res)
    ctx.transitions += nf
    ctx.notes["E_vanishing"] = zcount
    ctx.notes["E_fill_calls"] = nf
    # ---- B
    bound = 2 if quick else 3
    cases, seen, edges = [], set(), 0
    # quick: one deviation for every system, two deviations for five of them (one per family of relation structure:
    # equalities only / with the c66 combination / sign relations / zeros only / none); thorough: three for all nine
    pair_systems = ("cubic", "hexagonal", "trigonal7", "monoclinic", "triclinic")
    for s in L.SYSTEMS:
        for cfg, k in lattice(DIMS, bound if (not quick or s in pair_systems) else 1):
            c = dict(cfg)
            c.update({"what": "lattice", "system": s})
            c = canon_lattice(c, subsets)
            if c is None:
                continue
            key = case_key(c)
            if key in seen:
                continue
            seen.add(key)
            edges += max(k, 1)
            cases.append({k_: v for k_, v in c.items() if k_ not in DIMS or v != DIMS[k_][0]})
    res = ctx.run(MOD, "run_case", cases, part="presentation-lattice", transitions=edges)
    full, _ = lattice_size(DIMS, None)
    done, _ = lattice_size(DIMS, bound)
    ctx.notes["lattice_quick_rule"] = f"two deviations for {list(pair_systems)}, one for the other systems" if quick else "three deviations, all systems"
    ctx.notes["lattices"] = [{"part": "presentation-lattice", "dims": {k: len(v) for k, v in DIMS.items()}, "bound": bound,
                              "configs_in_bound_per_system": done, "full_product_per_system": full,
                              "distinct_applicable_all_systems": len(cases)}]
    ctx.notes["B_fill_calls"] = sum(r.get("nfill", 0) for r in res)
    ctx.exhaustive = False     # the lattice is bounded
    ctx.notes["named_subsets"] = {s: {k: (C8.names(L.mask_to_subset(s, m)) if m is not None else None) for k, m in v.items()}
                                  for s, v in subsets.items() if s != "triclinic"}
    # ---- C
    cases = []
    for s in L.SYSTEMS:
        for label in ("min", "min+1", "min-1", "full", "min-1+1"):
            mask = subsets[s][label]
            if mask is None:
                continue
            S = L.mask_to_subset(s, mask)
            for kind in applicable_kinds(s, S):
                if kind == "small":
                    continue
                for ir, ires in itertools.product((False, True), repeat=2):
                    for drop in (DEFAULT_DROP, 1.0):
                        for cwd in ("empty", "dir"):
                            if cwd == "dir" and (ir or ires or drop != DEFAULT_DROP):
                                continue
                            c = {"what": "cli", "system": s, "mask": mask, "kind": kind, "ir": ir, "ires": ires,
                                 "drop": drop, "cwd": cwd}
                            cases.append({k_: v for k_, v in c.items() if k_ not in DIMS or v != DIMS[k_][0]})
    # ... rounding-level disagreements ("small": <= residual_atol/2 under every reading), no flag: the command must accept
    #     (both tiers, every system with an equality relation); the same configurations through fill_cij
    small_api = []
    for s in L.SYSTEMS:
        for label in ("min+1", "full"):
            mask = subsets[s][label]
            if mask is None or "small" not in applicable_kinds(s, L.mask_to_subset(s, mask)):
                continue
            for delta in (None, 0.01, 0.05):
                for jpick in ("first", "last"):
                    c = {"system": s, "mask": mask, "kind": "small", "jpick": jpick}
                    if delta is not None:
                        c["delta"] = delta
                    c = {k_: v for k_, v in c.items() if not (k_ == "jpick" and v == "first")}
                    cases.append(dict(c, what="cli"))
                    small_api.append(dict(c, what="lattice"))
                    # ... x column spelling (compared with the lower-case result: the reconciled values must not depend on it)
                    for lc in ("upper", "mixed"):
                        small_api.append(dict(c, what="lattice", case=lc))
    # ... value shape dip x --drop-atol
    for s in L.SYSTEMS:
        for label in ("min", "full"):
            for drop in DIMS["drop"]:
                c = {"what": "cli", "system": s, "mask": subsets[s][label], "shape": "dip", "drop": drop}
                cases.append({k_: v for k_, v in c.items() if k_ not in DIMS or v != DIMS[k_][0]})
    # ... and the tables with supplied vanishing components / complete 21-column tables
    for s in L.SYSTEMS:
        van = vanishing(s)
        if not van:
            continue
        for label in ("min", "full"):
            mask = subsets[s][label]
            S = L.mask_to_subset(s, mask)
            for z in ("zeros", "one", "zeros+one"):
                for kind in applicable_kinds(s, S):
                    if kind == "small":
                        continue
                    for ir, ires in itertools.product((False, True), repeat=2):
                        c = {"what": "cli", "system": s, "mask": mask, "kind": kind, "ir": ir, "ires": ires, "z": z}
                        if z != "zeros":
                            c["zc"] = L.NAMES[van[0]]
                        cases.append({k_: v for k_, v in c.items() if k_ not in DIMS or v != DIMS[k_][0]})
    seen, uniq = set(), []
    for c in cases:
        k = case_key(c)
        if k not in seen:
            seen.add(k)
            uniq.append(c)
    ctx.run(MOD, "run_case", uniq, part="cli")
    ctx.run(MOD, "run_case", small_api, part="rounding-level-disagreements-api")
    ctx.notes["small_disagreements"] = {"deltas": [deltas(DEFAULT_TOL, False)[0], 0.01, 0.05], "which_component": ["first", "last"],
                                        "letter_case": ["lower", "upper", "mixed"],
                                        "configurations": len(small_api)}
    # ---- G: integer-versus-float column type on every system: whole-number tables in int64 columns x the named subsets
    cases = []
    for s in L.SYSTEMS:
        for label, mask in subsets[s].items():
            if mask is None:
                continue
            for dt in ("int", "whole"):
                cases.append({"what": "lattice", "system": s, "mask": mask, "dtype": dt})
    seen, uniq = set(), []
    for c in cases:
        k = case_key(c)
        if k not in seen:
            seen.add(k)
            uniq.append(c)
    ctx.run(MOD, "run_case", uniq, part="integer-column-tables")
    # ---- F: user-written relations files: name kind x path style (content: the table's own relations, reference spelling)
    cases = []
    for s in L.SYSTEMS:
        for label in (("min",) if quick else ("min", "full")):
            for nk in FILE_NAMEKINDS:
                for st in FILE_STYLES:
                    cases.append({"what": "lattice", "system": s, "mask": subsets[s][label], "cwd": f"file:{nk}:{st}"})
    ctx.run(MOD, "run_case", cases, part="relations-file-name-x-path-style")
    ctx.notes["relations_file_alphabet"] = {"name": list(FILE_NAMEKINDS), "path_style": list(FILE_STYLES), "other_system": OTHER_SYSTEM}
    # ---- D
    cases = []
    for s in L.SYSTEMS:
        for mask in sorted({subsets[s]["min"], subsets[s]["full"]}):
            for L_ in (1, 2, 3):
                for hist in itertools.product("FC", repeat=L_):
                    cases.append({"what": "chain", "system": s, "mask": mask, "history": list(hist)})
    res = ctx.run(MOD, "run_case", cases, part="chain-depth3", states=0, transitions=sum(len(c["history"]) for c in cases))
    dig = set()
    for r in res:
        dig.update(r.get("digests") or [])
    ctx.states += len(dig)
    ctx.notes["chain_distinct_states"] = len(dig)
    ctx.notes["group_orders"] = {s: L.EXPECTED_ORDER[s] for s in L.SYSTEMS}
    ctx.notes["invariant_dimensions"] = {s: L.dimension(s) for s in L.SYSTEMS}
    ctx.notes["nonvanishing_components"] = {s: len(L.nonvanishing(s)) for s in L.SYSTEMS}
    ctx.notes["alphabets"] = {k: len(v) for k, v in DIMS.items()}
    ctx.notes["perturbations"] = {"residual_atol 0.1": deltas(0.1, False), "residual_atol 0.1 int": deltas(0.1, True),
                                  "residual_atol 4.0": deltas(4.0, False)}


def selftest():
    ok = L.selftest()
    # the perturbation generator lands on the intended side under every reading, for every named subset
    for s in L.SYSTEMS:
        subs = named_subsets(s)
        A = relation_rows(L.parse_relations(L.user_relations_text(s)))
        T = true_relation_rows(s)
        ok &= T.shape[0] == 21 - L.dimension(s)
        E = C8.expected_tensor(s, NV, small=True)
        ok &= bool(numpy.abs(T @ E).max() < 1e-9) if T.shape[0] else True
        for lab, m in subs.items():
            if m is None:
                continue
            S = L.mask_to_subset(s, m)
            for tol in (0.1, 4.0):
                for kind in applicable_kinds(s, S):
                    try:
                        scenario(s, S, kind, False, True, tol, A)
                    except HarnessError as e:
                        print("c09 selftest:", e)
                        ok = False
        ok &= subs["min"] is not None and L.is_sufficient(s, L.mask_to_subset(s, subs["min"]))
        ok &= not L.is_sufficient(s, L.mask_to_subset(s, subs["min-1"]))
    # small-parameter design: the last independent parameter (and only its dependents) lies below 0.5
    for s in L.SYSTEMS:
        E = C8.expected_tensor(s, NV, small=True)
        mx = numpy.abs(E).max(axis=1)
        ok &= bool(numpy.all((mx == 0) | (mx <= 0.5) | (mx >= 2.0))) and bool(numpy.any((mx > 0) & (mx <= 0.5)))
    return bool(ok)
