"""C10 — Voigt/standard index algebra: complete finite domain, orbit graph explored by BFS."""
import itertools

from mc.explore import V, HarnessError
from mc.ref import voigt_ref as R

ID = "C10"
MOD = "mc.props.c10"


def _c(*a):
    from cij.util import c_
    return c_(*a)


def _e(*a):
    from cij.util import e_
    return e_(*a)


def _raises(f, *a):
    try:
        f(*a)
    except Exception:
        return True
    return False


def run_case(case):
    kind = case["kind"]
    viol = []
    if kind == "batch":      # many cases in one interpreter (used for the runs under `python -O`)
        n = 0
        for sub in case["cases"]:
            r = run_case(sub)
            viol += r.get("viol", [])
            n += 1
        seen, uniq = set(), []
        for v in viol:
            if v["sig"] not in seen:
                seen.add(v["sig"]); uniq.append(v)
        return {"viol": uniq[:12], "nontrivial": True, "outcome": f"batch-ok/{n}" if not viol else viol[0]["sig"]}
    orbit_of, _ = R.orbits()
    if kind == "tuple":
        t = tuple(case["t"])
        vp = R.voigt_pair(t)
        try:
            k = _c(*t)
        except Exception as e:
            return {"viol": [V(f"c10:tuple-rejected:{t}", f"c_{t} raised {e!r}")]}
        spell = {
            "4int": k,
            "str4": _c("%d%d%d%d" % t),
            "int4": _c(int("%d%d%d%d" % t)),
            "voigt2": _c(*vp),
            "voigt2rev": _c(vp[1], vp[0]),
            "str2": _c("%d%d" % vp),
            "int2": _c(int("%d%d" % vp)),
            "str2rev": _c("%d%d" % (vp[1], vp[0])),
        }
        import numpy
        for name, conv in (("np.int64", numpy.int64), ("np.int32", numpy.int32), ("np.intp", numpy.intp)):
            for label, args in (("4" + name, [conv(x) for x in t]), ("voigt2" + name, [conv(x) for x in vp])):
                try:
                    spell[label] = _c(*args)
                except Exception as ex:
                    viol.append(V(f"c10:spelling-rejected:{label}", f"c_{tuple(args)} (numpy integer spelling of {t}) raised {ex!r}"))
        # the public classmethods, with python and numpy integers (what callers holding index arrays pass)
        from cij.util import C_
        for name, conv in (("int", int), ("np.int64", numpy.int64)):
            for label, make in ((f"C_.create4:{name}", lambda: C_.create(*[conv(x) for x in t])),
                                (f"C_.create2:{name}", lambda: C_.create(*[conv(x) for x in vp])),
                                (f"C_.from_standard:{name}", lambda: C_.from_standard(*[conv(x) for x in t])),
                                (f"C_.from_voigt:{name}", lambda: C_.from_voigt(*[conv(x) for x in vp]))):
                try:
                    spell[label] = make()
                except Exception as ex:
                    viol.append(V(f"c10:spelling-rejected:{label}", f"{label} for {t} raised {ex!r}"))
        for name, s in spell.items():
            if s != k or hash(s) != hash(k):
                viol.append(V(f"c10:spelling:{name}", f"{name} spelling of {t} gives {s!r} != {k!r}"))
            elif (s.multiplicity != k.multiplicity or tuple(s.voigt) != tuple(k.voigt) or tuple(s.standard) != tuple(k.standard)
                  or s.calc_type != k.calc_type or (s.is_longitudinal, s.is_off_diagonal, s.is_shear) != (k.is_longitudinal, k.is_off_diagonal, k.is_shear)):
                viol.append(V(f"c10:spelling-attributes:{name}", f"{name} spelling of {t} equals {k!r} but reports multiplicity {s.multiplicity} / views {s.voigt} {s.standard} instead of {k.multiplicity} / {k.voigt} {k.standard}"))
        if tuple(k.voigt) != vp:
            viol.append(V("c10:voigt-view", f"c_{t}.voigt={k.voigt} expected {vp}"))
        if tuple(k.standard) != R.canonical_standard(t):
            viol.append(V("c10:standard-view", f"c_{t}.standard={k.standard} expected {R.canonical_standard(t)}"))
        if tuple(k.v) != tuple(k.voigt) or tuple(k.s) != tuple(k.standard):
            viol.append(V("c10:alias-view", f"short aliases differ for {t}"))
        if _c(*k.voigt) != k or _c(*k.standard) != k:
            viol.append(V("c10:roundtrip", f"round trip through views fails for {t}"))
        if k.multiplicity != len(orbit_of[t]):
            viol.append(V("c10:multiplicity", f"c_{t}.multiplicity={k.multiplicity} orbit size {len(orbit_of[t])}"))
        flags = (k.is_longitudinal, k.is_off_diagonal, k.is_shear)
        exp = R.kind(vp)
        if sum(map(bool, flags)) != 1 or k.calc_type.name != exp or \
                dict(zip(("LONGITUDINAL", "OFF_DIAGONAL", "SHEAR"), flags))[exp] is not True:
            viol.append(V("c10:classification", f"c_{t}: flags {flags} calc_type {k.calc_type} expected {exp}"))
        # every generator edge stays in the class (real code) -- BFS edges of the orbit graph
        for name, g in R.GENERATORS.items():
            if _c(*g(t)) != k:
                viol.append(V(f"c10:edge:{name}", f"c_{t} != c_{g(t)} although related by {name}"))
        return {"viol": viol, "outcome": f"{exp}/m{k.multiplicity}", "key": f"t{t}"}
    if kind == "row":
        t = tuple(case["t"])
        k = _c(*t)
        bad = 0
        for u in R.TUPLES:
            ku = _c(*u)
            related = orbit_of[u] == orbit_of[t]
            if (ku == k) != related or (related and hash(ku) != hash(k)) or ((ku != k) == related):
                bad += 1
                if bad < 3:
                    viol.append(V("c10:equality", f"c_{t}==c_{u} is {ku == k}, related={related}, hash equal={hash(ku) == hash(k)}"))
        return {"viol": viol, "outcome": "row", "key": f"r{t}"}
    if kind == "global":
        keys = {_c(*t) for t in R.TUPLES}
        n_orb = len(set(orbit_of.values()))
        if len(keys) != 21 or n_orb != 21:
            viol.append(V("c10:count", f"{len(keys)} distinct keys, {n_orb} orbits, expected 21"))
        if sum(k.multiplicity for k in keys) != 81:
            viol.append(V("c10:multiplicity-sum", f"multiplicities sum to {sum(k.multiplicity for k in keys)}"))
        part = [sum(1 for k in keys if f(k)) for f in (lambda k: k.is_longitudinal, lambda k: k.is_off_diagonal, lambda k: k.is_shear)]
        if part != [3, 3, 15]:
            viol.append(V("c10:partition", f"partition {part} expected [3,3,15]"))
        vkeys = {_c(a, b) for a in range(1, 7) for b in range(1, 7)}
        if vkeys != keys:
            viol.append(V("c10:voigt-cover", "36 Voigt pairs do not map onto the same 21 keys"))
        d = {}
        for t in R.TUPLES:
            d[_c(*t)] = d.get(_c(*t), 0) + 1
        for k, n in d.items():
            if n != k.multiplicity:
                viol.append(V("c10:multiplicity", f"{k!r}: {n} tuples but multiplicity {k.multiplicity}"))
        return {"viol": viol, "outcome": "global", "key": "global"}
    if kind == "voigt":
        a, b = case["ab"]
        k = _c(a, b)
        exp_s = R.V2S[min(a, b)] + R.V2S[max(a, b)]
        if tuple(k.voigt) != (min(a, b), max(a, b)) or tuple(k.standard) != exp_s:
            viol.append(V("c10:voigt-map", f"c_({a},{b}) -> voigt {k.voigt} standard {k.standard}; expected {exp_s}"))
        if _c(b, a) != k or _c(f"{a}{b}") != k or _c(int(f"{a}{b}")) != k or _c(*exp_s) != k:
            viol.append(V("c10:voigt-spelling", f"spellings of Voigt pair ({a},{b}) disagree"))
        return {"viol": viol, "outcome": "voigt", "key": f"v{a}{b}"}
    if kind == "strain":
        i, j = case["ij"]
        v = R.S2V[(i, j)]
        try:
            e = _e(i, j)
        except Exception as ex:
            return {"viol": [V("c10:strain-rejected:2arg", f"e_({i},{j}) raised {ex!r}")], "outcome": "rejected"}
        exp = R.V2S[v]
        import numpy
        spell = {}
        for name, args in {"rev": (j, i), "voigt": (v,), "str2": (f"{i}{j}",), "int2": (int(f"{i}{j}"),), "str1": (str(v),),
                           "np2": (numpy.int64(i), numpy.int64(j))}.items():
            try:
                spell[name] = _e(*args)
            except Exception as ex:
                viol.append(V(f"c10:strain-rejected:{name}", f"e_{args} (a valid spelling of strain index ({i},{j})) raised {ex!r}"))
        for name, s in spell.items():
            if s != e or hash(s) != hash(e):
                viol.append(V(f"c10:strain-spelling:{name}", f"e_ spelling {name} of ({i},{j}) -> {s!r} != {e!r}"))
        if e.voigt != v or tuple(e.standard) != exp or e.v != v or tuple(e.s) != exp:
            viol.append(V("c10:strain-view", f"e_({i},{j}): voigt {e.voigt} standard {e.standard}, expected {v} {exp}"))
        others = [(a, b) for a in (1, 2, 3) for b in (1, 2, 3) if R.S2V[(a, b)] != v]
        for a, b in others:
            if _e(a, b) == e:
                viol.append(V("c10:strain-collision", f"e_({a},{b}) == e_({i},{j})"))
        return {"viol": viol, "outcome": f"strain{v}", "key": f"e{i}{j}"}
    if kind == "reject":
        what, args = case["what"], case["args"]
        f = _c if what == "c" else _e
        args = [a for a in args]
        if not _raises(f, *args):
            try:
                shown = repr(f(*args))
            except Exception as ex:      # the accepted object cannot even print itself
                shown = f"<object whose repr raises {type(ex).__name__}>"
            viol.append(V(f"c10:accepts-out-of-range:{what}", f"{what}_{tuple(args)} accepted: {shown}"))
        return {"viol": viol, "outcome": "rejected" if not viol else "accepted", "key": f"x{what}{args}"}
    if kind == "scan":
        # complete scan of the one-argument spellings: every integer lo..hi-1 (and its decimal string) plus the listed longer
        # ones; accepted iff it is a 2-digit Voigt (digits 1-6) or 4-digit standard (digits 1-3) spelling, and then equal to
        # the key built digit by digit
        what = case["what"]
        f = _c if what == "c" else _e
        todo = list(range(case["lo"], case["hi"])) + list(case.get("extra", []))
        n_acc = 0
        for n in todo:
            sn = str(n)
            if what == "c":
                ok = (len(sn) == 2 and all(ch in "123456" for ch in sn)) or (len(sn) == 4 and all(ch in "123" for ch in sn))
            else:
                ok = (len(sn) == 1 and sn in "123456") or (len(sn) == 2 and all(ch in "123" for ch in sn))
            for arg in (n, sn):
                try:
                    got = f(arg)
                    acc = True
                except Exception:
                    acc = False
                if acc and not ok and len(viol) < 5:
                    viol.append(V(f"c10:accepts-out-of-range:{what}:scan", f"{what}_({arg!r}) accepted"))
                elif ok and not acc and len(viol) < 5:
                    viol.append(V(f"c10:spelling-rejected:{what}:scan", f"{what}_({arg!r}) (a valid one-argument spelling) rejected"))
                elif ok and acc:
                    n_acc += 1
                    try:
                        same = got == f(*[int(ch) for ch in sn])
                    except Exception:
                        same = False
                    if not same and len(viol) < 5:
                        viol.append(V(f"c10:spelling-differs:{what}:scan", f"{what}_({arg!r}) differs from the key built from its digits"))
        return {"viol": viol, "outcome": f"scan-{what}-{n_acc}-accepted" if not viol else "scan-bad", "key": f"scan{what}{case['lo']}"}
    raise HarnessError(f"unknown case kind {kind}")


def reject_cases():
    out = []
    base4, base2 = (1, 2, 2, 3), (2, 5)
    for a in (-1, 0, 4, 5, 6, 7):
        for b in (-1, 0, 1, 2, 3, 4, 5, 6, 7):
            for pair in ([a, b], [b, a]):
                out.append({"kind": "reject", "what": "e", "args": pair})
                out.append({"kind": "reject", "what": "c", "args": pair + [1, 2]})
                out.append({"kind": "reject", "what": "c", "args": [1, 2] + pair})
                if all(0 <= x <= 9 for x in pair):
                    out.append({"kind": "reject", "what": "e", "args": ["%d%d" % tuple(pair)]})
                    out.append({"kind": "reject", "what": "c", "args": ["%d%d12" % tuple(pair)]})
                    out.append({"kind": "reject", "what": "c", "args": ["12%d%d" % tuple(pair)]})
    for a in (10, 11, 12, 13, 21, 22, 23, 31, 32, 33, 44, 66):
        for b in (1, 4, 6, 12, 23, 66):
            out.append({"kind": "reject", "what": "c", "args": [a, b]})
            out.append({"kind": "reject", "what": "c", "args": [b, a]})
        out.append({"kind": "reject", "what": "e", "args": [a, 1]})
    for a in (-1, 0, 7, 8):
        for b in range(-1, 9):
            for pair in ([a, b], [b, a]):
                out.append({"kind": "reject", "what": "c", "args": pair})
        out.append({"kind": "reject", "what": "e", "args": [a]})
    for pos in range(4):
        for bad in (0, 4):
            t = list(base4)
            t[pos] = bad
            out.append({"kind": "reject", "what": "c", "args": t})
            out.append({"kind": "reject", "what": "c", "args": ["%d%d%d%d" % tuple(t)]})
            if t[0] != 0:
                out.append({"kind": "reject", "what": "c", "args": [int("%d%d%d%d" % tuple(t))]})
    for pos in range(2):
        for bad in (0, 7):
            t = list(base2)
            t[pos] = bad
            out.append({"kind": "reject", "what": "c", "args": t})
            out.append({"kind": "reject", "what": "c", "args": ["%d%d" % tuple(t)]})
            if t[0] != 0:
                out.append({"kind": "reject", "what": "c", "args": [int("%d%d" % tuple(t))]})
    for pos in range(2):
        for bad in (0, 4):
            t = [1, 2]
            t[pos] = bad
            out.append({"kind": "reject", "what": "e", "args": t})
            out.append({"kind": "reject", "what": "e", "args": ["%d%d" % tuple(t)]})
    for bad in (0, 7):
        out.append({"kind": "reject", "what": "e", "args": [bad]})
        out.append({"kind": "reject", "what": "e", "args": [str(bad)]})
    return out


def explore(ctx):
    ctx.rule = ("complete finite domain: 81 standard tuples (each with 8 spellings and its 3 generator edges), "
                "81x81 ordered equality/hash pairs, 36 Voigt pairs, 9 strain index pairs, out-of-range neighbours "
                "(0/4 standard, 0/7 Voigt, every position, int and str spellings); tuples, pairs and out-of-range cases repeated in an interpreter started with -O; non-trivial = every case "
                "(each touches a distinct tuple/pair); oracle = orbits of the orbit graph computed by BFS in voigt_ref")
    orbit_of, edges = R.orbits()
    cases = [{"kind": "tuple", "t": list(t)} for t in R.TUPLES]
    ctx.run(MOD, "run_case", cases, part="tuples+edges", parallel=False, states=81, transitions=len(edges))
    ctx.run(MOD, "run_case", [{"kind": "row", "t": list(t)} for t in R.TUPLES], part="equality-pairs",
            parallel=False, states=0, transitions=81 * 81)
    ctx.run(MOD, "run_case", [{"kind": "voigt", "ab": [a, b]} for a in range(1, 7) for b in range(1, 7)],
            part="voigt-pairs", parallel=False)
    ctx.run(MOD, "run_case", [{"kind": "strain", "ij": [i, j]} for i in (1, 2, 3) for j in (1, 2, 3)],
            part="strain-pairs", parallel=False)
    ctx.run(MOD, "run_case", reject_cases(), part="out-of-range", parallel=False)
    hi = 100000 if ctx.quick else 3000000
    long_ones = [int(pre + suf) for pre in ("1", "5", "9", "10", "100", "123", "1111", "3" * 12) for suf in ("1123", "1111", "3333", "2312", "11", "66", "45")]
    ctx.run(MOD, "run_case", [{"kind": "scan", "what": "c", "lo": lo, "hi": min(hi, lo + 50000), "extra": long_ones if lo < 0 else []} for lo in range(-1000, hi, 50000)] +
            [{"kind": "scan", "what": "e", "lo": -1000, "hi": 100000}], part="one-argument-scan")
    ctx.notes["one_argument_scan"] = f"every integer -1000..{hi - 1} and its decimal string through c_ (e_: -1000..99999), plus {len(long_ones)} longer integers"
    ctx.run(MOD, "run_case", [{"kind": "global"}], part="global", parallel=False)
    # the same complete domain in an interpreter started with -O (assert statements stripped)
    ctx.run_under(MOD, "run_case", [{"kind": "batch", "cases": reject_cases()}, {"kind": "batch", "cases": cases},
                                    {"kind": "batch", "cases": [{"kind": "voigt", "ab": [a, b]} for a in range(1, 7) for b in range(1, 7)] +
                                                               [{"kind": "strain", "ij": [i, j]} for i in (1, 2, 3) for j in (1, 2, 3)]}], ("-O",))
    ctx.notes["orbits"] = len(set(orbit_of.values()))
    ctx.notes["orbit_graph_edges"] = len(edges)
    ctx.assumptions = ["CPython tuple hashing", "reference orbits computed by union of generator images (voigt_ref)"]


def selftest():
    orbit_of, edges = R.orbits()
    sizes = sorted(len(o) for o in set(orbit_of.values()))
    return len(sizes) == 21 and sum(sizes) == 81 and sizes == [1] * 3 + [2] * 3 + [4] * 12 + [8] * 3
