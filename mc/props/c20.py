"""C20 — eigenvector tools: evec_sort, evec_disp2eig, evec_load  (mode A, bounded exhaustive).

sort, clause 1 ("match"):   target_j = phase_j * perturbed(base)[perm_j]; oracle: sorted[perm_j] = items[j]
sort, clause 2 ("anybasis"): any two orthonormal bases of equal dimension; oracle: the output is a
                             permutation of the input (nothing else is asserted there)
sort, clause 3 ("mismatch"): complete off-by-one lattice over the five sizes; oracle: raises
disp2eig:                    u = s * e / sqrt(m); oracle: rows come back as (s/|s|) * e, unit norm, orthonormal
load:                        files written by evec_ref.format_file; oracle: every printed number comes back
"""
import copy
import functools
import itertools
import os
import shutil
import tempfile
import time
from collections import Counter, OrderedDict

import numpy as np

from mc.explore import V, HarnessError
from mc.ref import evec_ref as R

ID = "C20"
MOD = "mc.props.c20"

TOL = 1e-9          # DESIGN §5: unit-free algebraic identity in double precision
CONTAINERS = ("list", "ndarray", "testlike")
THETAS = (np.pi / 4, np.pi / 4 - 1e-12, np.pi / 4 + 1e-12, np.pi / 4 - 1e-9, np.pi / 4 + 1e-9,
          np.pi / 4 - 1e-6, np.pi / 4 + 1e-6, np.pi / 4 - 1e-3, np.pi / 4 + 1e-3, np.pi / 2, 0.0, 3 * np.pi / 4)
_S2, _S3 = 2 ** 0.5, 3 ** 0.5
GRIDS = {
    "int2": (0, 1, -1, 2, -2),
    "surd5": (0, 1, -1, 2, -2, _S2, -_S2, _S3, -_S3),
    "surd": (0, 1, -1, 2, -2, 3, -3, _S2, -_S2, _S3, -_S3),
}


def _sort(*a):
    from cij.misc.evec_sort import evec_sort
    return evec_sort(*a)


def _items(n):
    return ["x%d" % j for j in range(n)]


def _pack(t, b, cont):
    """Present the two bases (rows = vectors) the way a caller would."""
    t, b = np.asarray(t), np.asarray(b)
    if np.iscomplexobj(t) and not np.any(t.imag):
        t = t.real
    if np.iscomplexobj(b) and not np.any(b.imag):
        b = b.real
    if cont == "list":
        return t.tolist(), b.tolist()
    if cont == "ndarray":
        return t.copy(), b.copy()
    if cont == "testlike":                 # tests/test_cij_misc_evec_sort.py: tuple of rows + ndarray
        return tuple(np.array(r) for r in t), b.copy()
    raise HarnessError(f"container {cont}")


def _perm_defect(res, items):
    """None if `res` is a permutation of `items`, else a short class name."""
    if not isinstance(res, (list, tuple)) or len(res) != len(items):
        return "length"
    if any(r is None for r in res):
        return "none-slot"
    if Counter(res) != Counter(items):
        return "duplicate"
    return None


class _Tally:
    """Collects violations of one case: at most 2 messages per sig, with a count."""

    def __init__(self):
        self.by_sig = OrderedDict()
        self.calls = 0

    def add(self, sig, msg):
        e = self.by_sig.setdefault(sig, [0, []])
        e[0] += 1
        if len(e[1]) < 2:
            e[1].append(msg)

    def viol(self):
        return [V(sig, f"[{n} call(s) in this case] " + " || ".join(msgs)) for sig, (n, msgs) in self.by_sig.items()]


def _fmt(a):
    a = np.asarray(a)
    if a.size > 36:
        return f"<{a.shape} array>"
    return np.array2string(a, precision=6, suppress_small=True, max_line_width=200).replace("\n", " ")


def _one_sort(tally, clause, items, t, b, cont, expect, what):
    tally.calls += 1
    tt, bb = _pack(t, b, cont)
    try:
        res = _sort(list(items), tt, bb)
    except Exception as e:                                      # cij raised on valid input
        tally.add(f"c20:sort:{clause}:raised:{type(e).__name__}", f"{what} cont={cont}: {e!r}")
        return
    d = _perm_defect(res, items)
    if d:
        tally.add(f"c20:sort:{clause}:not-a-permutation:{d}",
                  f"{what} cont={cont}: items={items} -> {res}; base={_fmt(b)} target={_fmt(t)} "
                  f"|<base_i|target_j>|={_fmt(R.overlaps(b, t))}")
    elif expect is not None and list(res) != expect:
        tally.add(f"c20:sort:{clause}:wrong-position",
                  f"{what} cont={cont}: got {list(res)} expected {expect}")


def _need_margin(n, base, pert):
    if not R.margin_ok(n, base, pert):
        raise HarnessError(f"reference: perturbation {pert} of {base} n={n} is not unambiguous: {R.margin(n, base, pert)}")


# ----------------------------------------------------------------------------------- sort cases

def _case_sort_match_small(case):
    n, base, pert, perm = case["n"], case["base"], case["pert"], case["perm"]
    _need_margin(n, base, pert)
    b, bp = R.basis(n, base), R.perturbed(n, base, pert)
    items = _items(n)
    expect = R.expected_sorted(items, perm)
    rows = bp[perm]
    tally = _Tally()
    phases = R.all_phase_vectors(n)
    if "phase_index" in case:                     # replay of a single phase vector
        phases = phases[[case["phase_index"]]]
    for cont in case["conts"]:
        for ph in phases:
            _one_sort(tally, "match", items, ph[:, None] * rows, b, cont, expect,
                      f"n={n} base={base} pert={pert} perm={perm} phases={ph.tolist()}")
    return {"viol": tally.viol(), "calls": tally.calls, "outcome": "sorted:match" if not tally.by_sig else "violation"}


def _big_perms(n, fam, a):
    if fam == "shift":
        return [R.cyclic_shift(n, s) for s in range(n)]
    if fam == "transp":
        return [R.transposition(n, a, c) for c in range(a + 1, n)]
    raise HarnessError(fam)


def _case_sort_match_big(case):
    n, base, pert = case["n"], case["base"], case["pert"]
    _need_margin(n, base, pert)
    b, bp = R.basis(n, base), R.perturbed(n, base, pert)
    items = _items(n)
    tally = _Tally()
    for perm in _big_perms(n, case["fam"], case.get("a", 0)):
        expect = R.expected_sorted(items, perm)
        for pat in ("cyc", "gold"):
            t = R.make_target(bp, perm, R.phase_pattern(n, pat))
            for cont in case["conts"]:
                _one_sort(tally, "match", items, t, b, cont, expect,
                          f"n={n} base={base} pert={pert} perm={case['fam']}:{[j for j in range(n) if perm[j] != j][:4]} phases={pat}")
    return {"viol": tally.viol(), "calls": tally.calls, "outcome": "sorted:match" if not tally.by_sig else "violation"}


def _case_sort_any(case):
    """Orthonormal inputs that are NOT related by a small perturbation: only 'is a permutation' is asserted."""
    fam, n = case["fam"], case["n"]
    items = _items(n)
    tally = _Tally()
    if fam == "pair":                      # two unrelated bases, all row orders and phase vectors of the target
        b, tb = R.basis(n, case["base"]), R.basis(n, case["tbase"])
        rows = tb[case["perm"]]
        for ph in R.all_phase_vectors(n):
            _one_sort(tally, "anybasis", items, ph[:, None] * rows, b, "list", None,
                      f"pair n={n} base={case['base']} target={case['tbase']} perm={case['perm']} phases={ph.tolist()}")
    elif fam == "pair-big":
        b, tb = R.basis(n, case["base"]), R.basis(n, case["tbase"])
        for s in range(n):
            for pat in ("one", "cyc", "gold"):
                t = R.make_target(tb, R.cyclic_shift(n, s), R.phase_pattern(n, pat))
                _one_sort(tally, "anybasis", items, t, b, "list", None,
                          f"pair n={n} base={case['base']} target={case['tbase']} shift={s} phases={pat}")
    elif fam == "blocks":                  # exact zeros, exact ties (pi/4) and near ties
        b = R.basis(n, case["base"])
        theta = THETAS[case["theta"]]
        tb = R.block_rotation(n, theta) @ b
        if R.unitarity_defect(tb) > 1e-12:
            raise HarnessError("block rotation not unitary")
        for s in range(n):
            for pat in ("one", "cyc"):
                t = R.make_target(tb, R.cyclic_shift(n, s), R.phase_pattern(n, pat))
                for cont in ("list", "ndarray"):
                    _one_sort(tally, "anybasis", items, t, b, cont, None,
                              f"blocks n={n} base={case['base']} theta=pi/4{theta - np.pi / 4:+.3g} shift={s} phases={pat}")
    elif fam == "hhgrid":                  # every Householder reflection with components from a small grid
        grid = GRIDS[case["grid"]]
        eye = np.eye(n)
        for rest in itertools.product(grid, repeat=n - 1):
            v = (grid[case["v0"]],) + rest
            if not any(v):
                continue
            m = R.householder(np.array(v, dtype=float))
            if R.unitarity_defect(m) > 1e-12:
                raise HarnessError(f"householder({v}) not unitary")
            what = f"hhgrid n={n} H=I-2vv^T/v^Tv v={[round(float(x), 6) for x in v]}"
            _one_sort(tally, "anybasis", items, m, eye, "list", None, what + " (base=I, target=H)")
            _one_sort(tally, "anybasis", items, eye, m, "list", None, what + " (base=H, target=I)")
    elif fam == "zeroblock":               # v = (1,..,1,-sqrt(n-1)): H[n-1,n-1] = 0 exactly, diagonal dominates
        m = R.basis(n, "zeroblock")
        eye = np.eye(n)
        for s in range(n):
            for pat in ("one", "cyc", "gold"):
                t = R.make_target(m, R.cyclic_shift(n, s), R.phase_pattern(n, pat))
                for cont in CONTAINERS:
                    _one_sort(tally, "anybasis", items, t, eye, cont, None,
                              f"zeroblock n={n} base=I target=rows of H(v=(1,..,1,-sqrt(n-1))) shift={s} phases={pat}")
                    _one_sort(tally, "anybasis", items, R.make_target(eye, R.cyclic_shift(n, s), R.phase_pattern(n, pat)),
                              m, cont, None, f"zeroblock n={n} base=H target=I shift={s} phases={pat}")
    else:
        raise HarnessError(fam)
    return {"viol": tally.viol(), "calls": tally.calls,
            "outcome": "sorted:permutation" if not tally.by_sig else "violation"}


def _case_sort_mismatch(case):
    n, base, cont = case["n"], case["base"], case["cont"]
    devs = [case[k] for k in ("items", "trows", "tcols", "brows", "bcols")]
    big = R.basis(n + 1, base)
    t = big[:n + case["trows"], :n + case["tcols"]]
    b = big[:n + case["brows"], :n + case["bcols"]]
    items = _items(n + case["items"])
    consistent = len(set(devs)) == 1
    tt, bb = _pack(t, b, cont)
    viol = []
    try:
        res = _sort(list(items), tt, bb)
        raised = None
    except Exception as e:
        res, raised = None, e
    what = f"n={n} base={base} cont={cont} sizes: items={len(items)} target={t.shape} base={b.shape}"
    if not consistent:
        if raised is None:
            viol.append(V("c20:sort:mismatch-accepted", f"{what}: returned {res} instead of raising"))
        return {"viol": viol, "outcome": f"rejected:{type(raised).__name__}" if raised else "accepted"}
    if devs[0] < 0:      # a consistent smaller problem whose cropped rows are not orthonormal: outside the statement
        return {"viol": [], "nontrivial": False, "outcome": "consistent-smaller:not-asserted"}
    if raised is not None:
        viol.append(V(f"c20:sort:match:raised:{type(raised).__name__}", f"{what}: consistent sizes rejected: {raised!r}"))
    elif list(res) != items:
        viol.append(V("c20:sort:match:wrong-position", f"{what}: target == base but got {res}"))
    return {"viol": viol, "nontrivial": False, "outcome": "sorted:match"}


def _case_sort_ragged(case):
    n, base = case["n"], case["base"]
    big = R.basis(n + 1, base)
    t = big[:n, :n].tolist()
    b = big[:n, :n].tolist()
    tgt = t if case["which"] == "target" else b
    r = case["row"]
    tgt[r] = big[r, :n + case["d"]].tolist()
    try:
        res = _sort(_items(n), t, b)
    except Exception as e:
        return {"viol": [], "outcome": f"rejected:{type(e).__name__}"}
    return {"viol": [V("c20:sort:mismatch-accepted:ragged",
                       f"n={n} base={base}: row {r} of {case['which']} has {n + case['d']} entries, returned {res}")],
            "outcome": "accepted"}


# ----------------------------------------------------------------------------------- disp2eig

def _d2e(a, mass):
    from cij.misc.evec_disp2eig import evec_disp2eig
    return evec_disp2eig(a, mass)


def _mass_container(mass, mcont):
    if mcont == "list":
        return list(mass)
    if mcont == "ndarray":
        return np.array(mass, dtype=float)
    if mcont == "column":          # docstring: "N x 1 atom mass vector"
        return [[m] for m in mass]
    raise HarnessError(mcont)


PRESENTATIONS = ("c128", "f64", "list", "view", "tview", "c64")
EPS32 = float(np.finfo(np.float32).eps)


def _present(block, pres, holder_rows=None, sqm=None):
    """One way a caller can hand the M x 3N block `block` (complex128 values) to evec_disp2eig.
    Returns (argument, holder, snapshot) or None when this presentation does not apply.  `holder` is the
    object that owns the caller's data (the array a view looks into, or the nested list), `snapshot` an
    independent copy of it taken before the call."""
    block = np.asarray(block)
    real = not np.any(block.imag)
    if pres == "c128":
        a = np.array(block, dtype=np.complex128)
        return a, a, a.copy()
    if pres == "f64":
        if not real:
            return None
        a = np.array(block.real, dtype=np.float64)
        return a, a, a.copy()
    if pres == "list":
        a = (block.real if real else block).tolist()
        return a, a, copy.deepcopy(a)
    if pres == "view":              # rows lo:hi of a LARGER array the caller keeps using
        if holder_rows is None:
            return None
        full, lo, hi = holder_rows
        holder = np.array(full, dtype=np.complex128)
        a = holder[lo:hi]
        if a.base is not holder:
            raise HarnessError("row view is not a view")
        return a, holder, holder.copy()
    if pres == "tview":             # transposed view of a 3N x M array: same numbers, non-contiguous
        holder = np.ascontiguousarray(np.array(block, dtype=np.complex128).T)
        a = holder.T
        if a.flags["C_CONTIGUOUS"] and min(a.shape) > 1:
            raise HarnessError("transposed view is contiguous")
        return a, holder, holder.copy()
    if pres == "c64":               # single precision, only where the squares of the displacements AND of the
        if sqm is None:             # mass-weighted displacements stay inside the float32 range (1e-38..3e38)
            raise HarnessError("c64 presentation needs the masses")
        mags = np.abs(np.concatenate([block[block != 0], (block * sqm)[block != 0]]))
        if mags.size == 0 or mags.min() < 1e-15 or mags.max() > 1e15:
            return None
        a = np.array(block, dtype=np.complex64)
        return a, a, a.copy()
    raise HarnessError(pres)


def _unchanged(holder, snapshot):
    if isinstance(holder, np.ndarray):
        return holder.dtype == snapshot.dtype and holder.shape == snapshot.shape and np.array_equal(holder, snapshot)
    return holder == snapshot


def _check_disp(tally, what, out, a_shape, want, tol, sig="c20:disp", extra=None, basis=True):
    """Oracle on the RETURN VALUE of one conversion: want = (s/|s|) e rows (basis=True: rows of a unitary)."""
    out = np.asarray(out)
    if out.shape != tuple(a_shape) or not np.all(np.isfinite(out)):
        tally.add(f"{sig}:shape-or-nonfinite", f"{what}: shape {out.shape} for input {tuple(a_shape)}")
        return
    norms = np.sqrt(np.sum(np.abs(out.astype(complex)) ** 2, axis=1))
    if np.max(np.abs(norms - 1)) > tol:
        kbad = int(np.argmax(np.abs(norms - 1)))
        tally.add(f"{sig}:norm", f"{what}: row norms deviate from 1 by {np.max(np.abs(norms - 1)):.3g} "
                  f"(row {kbad}: returned norm {norms[kbad]:.3g}{extra(kbad) if extra else ''})")
    o = out.astype(complex)
    g = o @ np.conj(o).T
    if basis and np.max(np.abs(g - np.eye(len(o)))) > tol:
        tally.add(f"{sig}:orthonormal", f"{what}: |G - I| max {np.max(np.abs(g - np.eye(len(o)))):.3g}")
    dv = np.max(np.abs(o - want))
    if dv > tol:
        tally.add(f"{sig}:vector", f"{what}: differs from (s/|s|) e by {dv:.3g}")


def _case_disp(case):
    natoms, base, mkind, skind, shape, mcont = (case[k] for k in ("N", "base", "mass", "scal", "shape", "mcont"))
    mode = case.get("mode", "mw")
    n = 3 * natoms
    e = R.basis(n, base)
    mass = R.masses(natoms, mkind)
    s = R.row_scaling(n, skind)
    u = R.displacements(e, mass, s, mode).astype(complex)
    want = (s / np.abs(s))[:, None] * e
    sqm = np.sqrt(np.repeat(np.asarray(mass, dtype=float), 3))
    if shape == "full":
        subsets = [list(range(n))]
    elif shape == "rows1":
        subsets = [[k] for k in range(n)]
    elif shape == "subsets":       # M x 3N, 2 <= M < 3N: leading rows and every other row
        sizes = range(2, n) if case.get("msub", "all") == "all" else sorted({2, 3, n // 2, n - 1} & set(range(2, n)))
        subsets = [list(range(m)) for m in sizes] + ([list(range(0, n, 2))] if n > 3 else [])
    else:
        raise HarnessError(shape)
    tally = _Tally()
    for rows in subsets:
        block = u[rows]
        contiguous = rows == list(range(rows[0], rows[-1] + 1))
        for pres in case.get("pres", ["c128", "f64"]):
            p = _present(block, pres, (u, rows[0], rows[-1] + 1) if contiguous else None, sqm)
            if p is None:
                continue
            a, holder, snap = p
            tally.calls += 1
            what = (f"N={natoms} base={base} mass={mkind} scal={skind} norm={mode} rows={rows if len(rows) < 7 else len(rows)} "
                    f"input={pres} mcont={mcont}")
            try:
                out = _d2e(a, _mass_container(mass, mcont))
                raised = None
            except Exception as ex:
                out, raised = None, ex
            if not _unchanged(holder, snap):
                tally.add("c20:disp:input-mutated",
                          f"{what}: the call overwrote the caller's displacement data (the statement says the conversion MAPS "
                          f"displacements to eigenvectors: the result is the return value, the argument must stay what the caller "
                          f"put there); max change {_maxdiff(holder, snap):.3g}")
            if raised is not None:
                tally.add(f"c20:disp:raised:{type(raised).__name__}", f"{what}: {raised!r}")
                continue
            tol = TOL if pres != "c64" else (n + 8) * EPS32      # single precision input: n+8 roundings of 1.2e-7
            _check_disp(tally, what, out, block.shape, want[rows], tol,
                        extra=lambda k: f", displacement norm {np.linalg.norm(block[k]):.3g}, mass-weighted norm {np.linalg.norm(block[k] * sqm):.3g}")
    return {"viol": tally.viol(), "calls": tally.calls, "outcome": "converted" if not tally.by_sig else "violation"}


def _maxdiff(holder, snap):
    try:
        return float(np.max(np.abs(np.asarray(holder, dtype=complex) - np.asarray(snap, dtype=complex))))
    except Exception:
        return float("nan")


INT_PRESENTATIONS = ("int64", "int32", "intlist", "f64", "c128")


def _case_disp_int(case):
    """Integer-VALUED displacements (e.g. a unit displacement pattern typed in by hand)."""
    natoms, mkind, pres = case["N"], case["mass"], case["pres"]
    n = 3 * natoms
    i, j = np.arange(n)[:, None], np.arange(n)[None, :]
    vals = ((3 * i + 5 * j + i * j) % 7) - 3
    if np.any(np.all(vals == 0, axis=1)):
        raise HarnessError("integer displacement pattern has a null row")
    mass = R.masses(natoms, mkind)
    w = vals * np.sqrt(np.repeat(np.asarray(mass, dtype=float), 3))[None, :]
    want = w / np.linalg.norm(w, axis=1)[:, None]
    tally = _Tally()
    for rows in [list(range(n)), [0], [n - 1], list(range(0, n, 2))]:
        block = vals[rows]
        if pres == "int64":
            a = np.array(block, dtype=np.int64)
        elif pres == "int32":
            a = np.array(block, dtype=np.int32)
        elif pres == "intlist":
            a = [[int(x) for x in r] for r in block]
        elif pres == "f64":
            a = np.array(block, dtype=np.float64)
        elif pres == "c128":
            a = np.array(block, dtype=np.complex128)
        else:
            raise HarnessError(pres)
        snap = copy.deepcopy(a)
        tally.calls += 1
        what = f"integer-valued displacements N={natoms} mass={mkind} rows={rows if len(rows) < 7 else len(rows)} input={pres}"
        try:
            out = _d2e(a, list(mass))
            raised = None
        except Exception as ex:
            out, raised = None, ex
        if not _unchanged(a, snap):
            tally.add("c20:disp:input-mutated", f"{what}: the call overwrote the caller's displacement data (MAPS: the result "
                      f"is the return value); max change {_maxdiff(a, snap):.3g}")
        if raised is not None:
            if pres in ("int64", "int32", "intlist"):
                # an integer dtype is refused by numpy's in-place casting rule; whether integer TYPED input must be
                # accepted is not part of the statement (matdyn data are floats): recorded, not asserted
                return {"viol": tally.viol(), "calls": tally.calls, "nontrivial": True,
                        "outcome": f"refused:integer-dtype:{type(raised).__name__}"}
            tally.add(f"c20:disp:raised:{type(raised).__name__}", f"{what}: {raised!r}")
            continue
        _check_disp(tally, what, out, block.shape, want[rows], TOL, basis=False)   # rows are not eigenvectors of one matrix
    return {"viol": tally.viol(), "calls": tally.calls, "outcome": "converted" if not tally.by_sig else "violation"}


# mode B: histories of conversions on ONE array object
DISP_OPS = ("F", "V0", "V1", "C")       # full matrix D | row view D[0:1] | row view D[n-1:n] | a copy of D
DISP_HIST_PRES = ("c128", "f64", "c64", "tview", "list")


def _case_disp_history(case):
    natoms, base, mkind, skind, pres = (case[k] for k in ("N", "base", "mass", "scal", "pres"))
    n = 3 * natoms
    e = R.basis(n, base)
    mass = R.masses(natoms, mkind)
    if len(set(mass)) < 2:
        raise HarnessError("history cases need at least two different masses")
    s = R.row_scaling(n, skind)
    u = R.displacements(e, mass, s, "mw").astype(complex)
    want = (s / np.abs(s))[:, None] * e
    tol = TOL if pres != "c64" else (n + 8) * EPS32
    tally = _Tally()
    nseq = nops = 0
    from mc.explore import sequences
    for seq in sequences(DISP_OPS, case["depth"], 1):
        p = _present(u, pres, None, np.sqrt(np.repeat(np.asarray(mass, dtype=float), 3)))
        if p is None:
            return {"viol": [], "nontrivial": False, "outcome": "presentation-not-applicable", "calls": 0, "seqs": 0}
        d, holder, snap = p
        nseq += 1
        for k, op in enumerate(seq):
            nops += 1
            tally.calls += 1
            if op == "F":
                arg, rows = d, slice(0, n)
            elif op in ("V0", "V1"):
                r = 0 if op == "V0" else n - 1
                rows = slice(r, r + 1)
                arg = d[rows]                     # ndarray: a view into D; nested list: a one-row list holding D's row object
            else:
                arg, rows = copy.deepcopy(d), slice(0, n)
            what = f"history {'.'.join(seq)} step {k + 1} ({op}) on one {pres} array, N={natoms} base={base} mass={mkind} scal={skind}"
            try:
                out = _d2e(arg, list(mass))
            except Exception as ex:
                tally.add(f"c20:disp:history:raised:{type(ex).__name__}", f"{what}: {ex!r}")
                break
            _check_disp(tally, what + " [result must be the conversion of the ORIGINAL data]", out,
                        (rows.stop - rows.start, n), want[rows], tol, sig="c20:disp:history")
            if not _unchanged(holder, snap):
                tally.add("c20:disp:history:input-mutated",
                          f"{what}: after this step the caller's array D no longer holds the original displacements "
                          f"(max change {_maxdiff(holder, snap):.3g}); a conversion MAPS its argument, it must not overwrite it")
                # no break: the history goes on, the following results are still held to the ORIGINAL data
    return {"viol": tally.viol(), "calls": tally.calls, "seqs": nseq, "ops": nops,
            "outcome": "histories-consistent" if not tally.by_sig else "violation"}


def _case_disp_mismatch(case):
    natoms, form = case["N"], case["form"]
    n = 3 * natoms
    dm, dc = case.get("dm", 0), case.get("dc", 0)
    mass = R.masses(natoms + 1, "elements")[:natoms + dm]
    e = R.basis(n + 1, case["base"]).astype(complex)
    nrows = 1 if case.get("rows") == "one" else n
    if form == "2d":
        a = e[:nrows, :n + dc]
        ok = (dm, dc) == (0, 0)
    elif form == "1d":                 # a bare vector instead of a 1 x 3N matrix
        a = e[0, :n]
        ok = False
    elif form == "transposed":         # 3N x M instead of M x 3N
        a = e[:n - 1, :n].T
        ok = False
    else:
        raise HarnessError(form)
    what = f"N={natoms} a{a.shape} len(mass)={len(mass)} form={form}"
    try:
        out = _d2e(a.copy(), list(mass))
    except Exception as ex:
        if ok:
            return {"viol": [V(f"c20:disp:raised:{type(ex).__name__}", f"{what}: consistent sizes rejected: {ex!r}")]}
        return {"viol": [], "outcome": f"rejected:{type(ex).__name__}"}
    if ok:
        return {"viol": [], "nontrivial": False, "outcome": "converted"}
    return {"viol": [V(f"c20:disp:mismatch-accepted:{form}", f"{what}: returned an array of shape {np.shape(out)}")],
            "outcome": "accepted"}


# ----------------------------------------------------------------------------------- load

def _case_load(case):
    nq, nmodes, variant = case["nq"], case["np"], case["variant"]
    from cij.misc.evec_load import evec_load
    qspecial, qpos = case.get("qspecial", "none"), case.get("qpos", "first")
    qp = R.synthetic_qpoints(nq, nmodes, variant, qspecial, qpos)
    if any(z.real == 0 or z.imag == 0 for _, ms in qp for m in ms for z in m[3]):
        raise HarnessError("reference: a vector component has a vanishing real or imaginary part")
    text = R.format_file(qp)
    back = R.parse_file(text)
    if qspecial != "none":
        zero_blocks = [iq for iq, (q, _) in enumerate(back) if not any(q)]
        want_blocks = R.special_blocks(nq, qpos) if qspecial not in ("onezero", "twozero") else []
        if zero_blocks != want_blocks:
            raise HarnessError(f"reference: blocks printed as the origin {zero_blocks}, intended {want_blocks}")
    if [(R.printed_q(q), [(i, f, c, list(v)) for i, f, c, v in ms]) for q, ms in qp] != \
            [(tuple(q), [(i, f, c, list(v)) for i, f, c, v in ms]) for q, ms in back]:
        raise HarnessError("reference writer/parser do not round-trip")
    nums = [abs(x) for x in R.all_numbers(qp)]
    read_nq = 1 if case.get("prefix") else nq
    d = tempfile.mkdtemp(prefix="c20-", dir="/dev/shm")
    try:
        path = os.path.join(d, "matdyn.eig")
        with open(path, "w") as fp:
            fp.write(text)
        try:
            got = evec_load(path, read_nq, nmodes)
        except Exception as ex:
            return {"viol": [V(f"c20:load:raised:{type(ex).__name__}", f"nq={nq} np={nmodes} variant={variant}: {ex!r}")]}
    finally:
        shutil.rmtree(d, ignore_errors=True)
    tally = _Tally()
    tag = f"nq={nq} np={nmodes} variant={variant} read_nq={read_nq}" + (
        f" q-points {R.special_blocks(nq, qpos)} printed as {' '.join('%.4f' % x for x in qp[R.special_blocks(nq, qpos)[0]][0])}"
        if qspecial != "none" else "")
    try:
        if len(got) != read_nq:
            tally.add("c20:load:structure", f"{tag}: {len(got)} q-points returned")
        for iq, ((q, modes), (gq, gmodes)) in enumerate(zip(back, got)):
            if tuple(gq) != tuple(q):
                tally.add("c20:load:q-coords", f"{tag}: q-point {iq}: got {tuple(gq)} printed {tuple(q)}")
            if len(gmodes) != nmodes:
                tally.add("c20:load:structure", f"{tag}: q-point {iq}: {len(gmodes)} modes")
            for im, ((mode_id, thz, cm1, vec), (ghead, gvec)) in enumerate(zip(modes, gmodes)):
                gid, gthz, gcm = ghead
                if gid != mode_id or isinstance(gid, float):
                    tally.add("c20:load:mode-index", f"{tag}: q {iq} mode {im}: index {gid!r} printed {mode_id}")
                if gthz != thz:
                    tally.add("c20:load:thz", f"{tag}: q {iq} mode {im}: THz {gthz!r} printed {thz!r} (cm-1 printed {cm1!r})")
                if gcm != cm1:
                    tally.add("c20:load:cm1", f"{tag}: q {iq} mode {im}: cm-1 {gcm!r} printed {cm1!r}")
                if len(gvec) != nmodes:
                    tally.add("c20:load:structure", f"{tag}: q {iq} mode {im}: {len(gvec)} components")
                for ic, (z, gz) in enumerate(zip(vec, gvec)):
                    if complex(gz) != z:
                        tally.add("c20:load:component", f"{tag}: q {iq} mode {im} component {ic}: got {gz!r} printed {z!r}")
    except (TypeError, ValueError) as ex:
        tally.add("c20:load:structure", f"{tag}: result does not have the (q, ((id, THz, cm-1), vec)...) shape: {ex!r}")
    return {"viol": tally.viol(), "calls": 1, "distinct_numbers": len(set(nums)) == len(nums),
            "outcome": "loaded" if not tally.by_sig else "violation"}


# mode B: process histories of the loader.  A loader is a function of the bytes at the path at the time of
# the call; the history (earlier loads of the same path string, rewrites, chdir) must not matter.
LOAD_CONTENTS = {"X": (2, 3, "matdyn"), "Y": (2, 3, "shifted"), "Z": (1, 6, "large")}   # Y: same nq/np as X, other numbers
LOAD_OPS = ("wXp", "wYp", "wZp", "wYq", "Lp", "Lq", "cd1", "cd2", "Lr", "M")
# initial state: p absent, q holds X, dir1/<name> holds X, dir2/<name> holds Y, cwd = dir1
#   wCp / wYq  write content C to the absolute path p / Y to q        Lp / Lq  load the absolute path
#   cd1 / cd2  chdir                                                   Lr       load the RELATIVE name in the cwd
#   M          mutate the structure returned by the latest load
LOAD_HIST_DEPTH = {"quick": 4, "thorough": 5}


def load_histories(depth):
    """All valid sequences of length <= depth that end in a load.  Valid: Lp after a write to p; M after a load;
    cdK only when the cwd is the other directory."""
    out = []

    def rec(seq, has_p, loaded, cwd):
        if seq and seq[-1] in ("Lp", "Lq", "Lr"):
            out.append(list(seq))
        if len(seq) >= depth:
            return
        for op in LOAD_OPS:
            if op == "Lp" and not has_p:
                continue
            if op == "M" and not loaded:
                continue
            if op in ("cd1", "cd2") and cwd == op[2]:
                continue
            rec(seq + [op], has_p or op[0] == "w" and op[2] == "p", loaded or op[0] == "L",
                op[2] if op in ("cd1", "cd2") else cwd)

    rec([], False, False, "1")
    return out


@functools.lru_cache(maxsize=None)
def _content(name):
    nq, nmodes, variant = LOAD_CONTENTS[name]
    text = R.format_file(R.synthetic_qpoints(nq, nmodes, variant))
    return text, _norm_loaded(R.parse_file(text), flat=True)


def _norm_loaded(x, flat=False):
    """Comparable form of a loader result / of evec_ref.parse_file's result."""
    try:
        if flat:
            return [(tuple(q), [(i, f, c, [complex(z) for z in v]) for i, f, c, v in ms]) for q, ms in x]
        return [(tuple(q), [(h[0], h[1], h[2], [complex(z) for z in v]) for h, v in ms]) for q, ms in x]
    except Exception as ex:
        return f"<malformed: {ex!r}>"


def _case_load_history(case):
    from cij.misc.evec_load import evec_load
    ops = case["ops"]
    name = "m%s.eig" % case["id"]              # unique relative name per history: histories stay independent
    root = tempfile.mkdtemp(prefix="c20h-", dir="/dev/shm")
    old_cwd = os.getcwd()
    viol = []
    nloads = 0
    try:
        d1, d2 = os.path.join(root, "dir1"), os.path.join(root, "dir2")
        os.mkdir(d1), os.mkdir(d2)
        paths = {"p": os.path.join(root, "p.eig"), "q": os.path.join(root, "q.eig")}
        holds = {}                                   # real path -> content name

        def write(path, c):
            with open(path, "w") as fp:
                fp.write(_content(c)[0])
            holds[path] = c

        write(paths["q"], "X"), write(os.path.join(d1, name), "X"), write(os.path.join(d2, name), "Y")
        os.chdir(d1)
        last = None
        seen = {}                                    # path string as given -> contents it was loaded with before
        for k, op in enumerate(ops):
            if op[0] == "w":
                write(paths[op[2]], op[1])
            elif op in ("cd1", "cd2"):
                os.chdir(d1 if op == "cd1" else d2)
            elif op == "M":
                for mutate in (lambda r: r[0][1][0][1].__setitem__(0, 1e9),     # tuples inside: normally a TypeError
                               lambda r: r[0][0].__setitem__(0, 1e9),
                               lambda r: r.__setitem__(0, ("mutated",)),
                               lambda r: r.append("mutated")):
                    try:
                        mutate(last)
                    except Exception:
                        pass
            else:
                given = name if op == "Lr" else paths[op[1]]
                real = os.path.realpath(given)
                c = holds[real]
                nq, nmodes, _ = LOAD_CONTENTS[c]
                with open(real) as fp:
                    now = _norm_loaded(R.parse_file(fp.read()), flat=True)   # the bytes currently at that path
                if now != _content(c)[1]:
                    raise HarnessError("bookkeeping of file contents is off")
                nloads += 1
                try:
                    got = evec_load(given, nq, nmodes)
                except Exception as ex:
                    viol.append(V(f"c20:load:history:raised:{type(ex).__name__}", f"history {ops}: step {k + 1} ({op}) raised {ex!r}"))
                    break
                last = got
                g = _norm_loaded(got)
                if g != now:
                    stale = [o for o in seen.get(given, []) if o != c and g == _content(o)[1]]
                    cause = "stale-earlier-content-of-same-path-string" if stale else "other"
                    where = f"relative name in {os.path.basename(os.getcwd())}" if op == "Lr" else f"path {op[1]}"
                    viol.append(V(f"c20:load:history:differs-from-file:{cause}",
                                  f"history {ops}: the load at step {k + 1} ({where}, which now holds content {c} = "
                                  f"{LOAD_CONTENTS[c]}) did not return the numbers printed in the file"
                                  + (f" but those of content {stale[0]}, loaded earlier under the same path string" if stale else "")))
                    break
                seen.setdefault(given, []).append(c)
    finally:
        os.chdir(old_cwd)
        shutil.rmtree(root, ignore_errors=True)
    return {"viol": viol, "calls": nloads, "outcome": f"history/loads{nloads}" if not viol else "violation",
            "key": "lh:" + ".".join(ops)}


_KINDS = {
    "sm": _case_sort_match_small, "sb": _case_sort_match_big, "sa": _case_sort_any,
    "smm": _case_sort_mismatch, "smr": _case_sort_ragged,
    "d": _case_disp, "dm": _case_disp_mismatch, "l": _case_load,
    "di": _case_disp_int, "dh": _case_disp_history, "lh": _case_load_history,
}


def run_case(case):
    f = _KINDS.get(case.get("kind"))
    if f is None:
        raise HarnessError(f"unknown case kind {case.get('kind')}")
    return f(case)


# ----------------------------------------------------------------------------------- enumeration

def _run(ctx, cases, part, parallel=True, chunksize=None):
    t0 = time.time()
    res = ctx.run(MOD, "run_case", cases, part=part, parallel=parallel, chunksize=chunksize)
    ctx.notes.setdefault("wall_s_per_part", OrderedDict())[part] = round(time.time() - t0, 2)
    calls = sum(int(r.get("calls", 1)) for r in res)
    extra = calls - len(cases)
    ctx.states += extra            # one state = one distinct input handed to the real function
    ctx.transitions += extra
    ctx.notes.setdefault("calls_of_real_function", OrderedDict())[part] = calls
    return res


def explore(ctx):
    q = ctx.quick
    small_n = (2, 3, 4) if q else (2, 3, 4, 5)
    big_n = (12, 60)
    ctx.rule = (
        "sort/match: n in %s: ALL n! permutations x ALL 4^n phase vectors over {1,-1,i,-i} x 5 bases x 7 perturbations "
        "x 3 argument containers; n in (12,60): all cyclic shifts and all transpositions x 2 phase patterns "
        "(quick tier only: n=60 with bases dft,crot x perturbations 0,uc5,ad5 as ndarrays; n=4 with the two extra containers "
        "for perturbations 0,uc5,ad5 only; thorough: full product). "
        "sort/anybasis: all ordered pairs of distinct bases (all row orders and phase vectors for small n), block "
        "rotations through exact ties and near ties, every Householder reflection with components from a finite grid, "
        "and the reflection with an exactly zero diagonal entry; only 'output is a permutation' is asserted there. "
        "sort/mismatch: full 3^5 off-by-one lattice over (items, target rows, target cols, base rows, base cols) + ragged rows. "
        "disp2eig: N x base x 5 mass sets (incl. 1e-10 amu-like and kg) x 14 row scalings (every decade 1e-12..1e12, per-row phases, "
        "neighbouring rows 1e-9|1e3, all decades side by side) x {scaling = mass-weighted norm, scaling = raw displacement norm} "
        "x shape x mass container (full product in thorough; in quick the container varies for two scalings only) + off-by-one lattice. "
"disp2eig inputs are presented as complex128 / float64 / nested list / row view of a larger array / transposed "
        "non-contiguous view / complex64 (and integer-valued data as int64, int32, nested int list); after EVERY call the caller's "
        "data must be unchanged. mode B (disp2eig): all sequences of <= 3 operations {convert D, convert row view D[0:1], "
        "D[n-1:n], convert a copy of D} on ONE array object, every result = conversion of the ORIGINAL data. "
        "load: nq x np x 3 value patterns x q-point coordinates {generic, exactly the origin, |q_i| < 5e-5 printing as 0.0000, "
        "negative zeros, mixed zeros, one or two zero coordinates} at the {first, middle, last, every} block, every other slot a "
        "distinct number with non-zero real AND imaginary part in every block. mode B (load): all valid operation sequences "
        "(write X|Y|Z to p, write Y to q, load p, load q, chdir, load a relative name, mutate the returned structure) up to "
        "depth 4 (quick) / 5 (thorough) ending in a load; every load = evec_ref's parse of the bytes then at that path. "
        "One case batches many calls; every case is "
        "non-trivial except the size-consistent points of the mismatch lattices." % (small_n,))
    ctx.assumptions = [
        "numpy/LAPACK trusted; the reference bases are unitary to 1e-12 (selftest)",
        "'small perturbation up to 5 %': every vector moves by at most 5 % of its norm (unitary rotation exp(i eps H) "
        "with ||H||=1, real rotation exp(eps K), or additive eps*d without renormalisation); the reference verifies "
        "own overlap >= 0.94 and every foreign overlap <= 0.06 before a case is used, so the matching is unambiguous",
        "arguments are presented as list-of-lists, as ndarrays, or as tuple-of-rows + ndarray (the repo's own test); "
        "mixing a tuple with a list (TypeError in evec_sort's size check) is a container question outside the statement and is not asserted",
        "'reject' = any exception",
        "matdyn layout as in tests/data/pwscf.eig (reproduced byte for byte by the reference writer, selftest); vector "
        "components within (-10, 100) so that the f10.6 fields keep a blank separator (matdyn normalises its vectors to 1)",
        "evec_sort's optional filter/threshold arguments are left at their defaults",
        "complex64 displacements: used only where all squares stay inside the float32 range; tolerance (3N+8)*eps32 "
        "(the precision of the caller's own data), 1e-9 everywhere else",
        "integer-TYPED displacement arrays (int64/int32/nested int lists) are refused by numpy's in-place casting rule "
        "(UFuncTypeError); the statement does not say that integer dtypes must be accepted, so the refusal is recorded as an "
        "outcome and only 'the input is left unchanged' is asserted for them; the same VALUES as float64/complex128 must convert",
    ]
    pool_conts = list(CONTAINERS)

    # ---- sort, matching clause, small n: complete
    cases = []
    for n in reversed(small_n):            # most expensive first: better balance over the pool
        for perm in itertools.permutations(range(n)):
            for base in R.BASES:
                for pert in R.PERTS:
                    # quick, n = 4: the two extra argument containers only for no / the two strongest perturbations
                    conts = pool_conts if not (q and n == 4 and pert not in ("0", "uc5", "ad5")) else ["list"]
                    cases.append({"kind": "sm", "n": n, "base": base, "pert": pert, "perm": list(perm), "conts": conts})
    _run(ctx, cases, "sort-match-small", chunksize=8)

    # ---- sort, matching clause, n = 12, 60
    cases = []
    for n in reversed(big_n):
        if q and n == 60:                  # quick: the two dense complex bases, strongest perturbations
            bases, perts, conts = ("dft", "crot"), ("0", "uc5", "ad5"), ["ndarray"]
        else:
            bases, perts, conts = R.BASES, R.PERTS, pool_conts
        for base in bases:
            for pert in perts:
                cases.append({"kind": "sb", "n": n, "base": base, "pert": pert, "fam": "shift", "conts": conts})
                for a in range(n - 1):
                    cases.append({"kind": "sb", "n": n, "base": base, "pert": pert, "fam": "transp", "a": a, "conts": conts})
    _run(ctx, cases, "sort-match-big", chunksize=4)

    # ---- sort, 'always a permutation' for any orthonormal inputs
    cases = []
    pairs = [(a, b) for a in R.BASES for b in R.BASES if a != b]
    for n in reversed(small_n):
        for perm in itertools.permutations(range(n)):
            for a, b in pairs:
                cases.append({"kind": "sa", "fam": "pair", "n": n, "base": a, "tbase": b, "perm": list(perm)})
    for n in big_n:
        for a, b in pairs:
            cases.append({"kind": "sa", "fam": "pair-big", "n": n, "base": a, "tbase": b})
    for n in small_n + big_n:
        for base in ("identity", "rotation", "crot"):
            for k in range(len(THETAS)):
                cases.append({"kind": "sa", "fam": "blocks", "n": n, "base": base, "theta": k})
    grids = {2: "surd", 3: "surd", 4: "surd", 5: "int2" if q else "surd5"}
    for n, g in grids.items():
        for v0 in range(len(GRIDS[g])):
            cases.append({"kind": "sa", "fam": "hhgrid", "n": n, "grid": g, "v0": v0})
    for n in (2, 3, 4, 5, 6, 12, 60):
        cases.append({"kind": "sa", "fam": "zeroblock", "n": n})
    _run(ctx, cases, "sort-anybasis", chunksize=4)

    # ---- sort, dimension mismatches: full off-by-one lattice
    dims = OrderedDict((k, [0, -1, 1]) for k in ("items", "trows", "tcols", "brows", "bcols"))
    for n in (2, 3, 4, 5, 12, 60):
        for base in ("identity", "crot"):
            for cont in ("list", "ndarray"):
                ctx.run_lattice(MOD, "run_case", dims, None, part="sort-mismatch",
                                extra={"kind": "smm", "n": n, "base": base, "cont": cont})
    ragged = [{"kind": "smr", "n": n, "base": base, "which": w, "row": r, "d": d}
              for n in (2, 3, 4, 5, 12, 60) for base in ("identity", "crot") for w in ("target", "base")
              for r in sorted({0, n - 1}) for d in (-1, 1)]
    _run(ctx, ragged, "sort-mismatch-ragged", parallel=False)

    # ---- disp2eig
    natoms = (1, 2, 4, 20)
    # thorough: full product.  quick: the mass container (numerically irrelevant) is varied only for the
    # scalings "1" and "ladder", and for N = 20 the M x 3N subsets are M in {2, 3, 30, 59} + every other row
    # instead of every M, and the four extra input presentations (nested list, row view of a larger array,
    # transposed non-contiguous view, complex64) are used for the scalings "1", "ladder", "alt" only;
    # everything else is the full product in both tiers.
    cases = [{"kind": "d", "N": N, "base": base, "mass": m, "scal": s, "mode": mode, "shape": sh, "mcont": mc,
              "msub": "few" if (q and N == 20) else "all",
              "pres": list(PRESENTATIONS) if (not q or s in ("1", "ladder", "alt")) else ["c128", "f64"]}
             for N in reversed(natoms) for base in R.BASES for m in R.MASS_KINDS for s in R.SCALINGS
             for mode in R.NORM_MODES for sh in ("full", "rows1", "subsets")
             for mc in (("list", "ndarray", "column") if (not q or s in ("1", "ladder")) else ("list",))
             if not (sh == "subsets" and N == 1)]
    _run(ctx, cases, "disp2eig", chunksize=8)
    span = {}
    for m in R.MASS_KINDS:
        for mode in R.NORM_MODES:
            lo, hi = np.inf, 0.0
            for s in R.SCALINGS:
                u = R.displacements(R.basis(12, "crot"), R.masses(4, m), R.row_scaling(12, s), mode)
                w = np.linalg.norm(u * np.sqrt(np.repeat(np.asarray(R.masses(4, m), dtype=float), 3)), axis=1)
                lo, hi = min(lo, float(w.min())), max(hi, float(w.max()))
            span[f"{m}:{mode}"] = [float("%.3g" % lo), float("%.3g" % hi)]
    ctx.notes["disp_mass_weighted_norm_span"] = span
    _run(ctx, [{"kind": "di", "N": N, "mass": m, "pres": pr} for N in (1, 2, 4) for m in R.MASS_KINDS for pr in INT_PRESENTATIONS],
         "disp2eig-integer-valued", parallel=False)
    # mode B: every sequence of <= 3 conversions on ONE array object
    hist = [{"kind": "dh", "N": N, "base": base, "mass": m, "scal": s, "pres": pr, "depth": 3}
            for N in (4, 2) for base in ("rotation", "dft", "crot") for m in ("elements", "extreme", "light", "kg")
            for s in ("1", "ladder", "alt") for pr in DISP_HIST_PRES if not (pr == "f64" and base != "rotation")]
    res = ctx.run(MOD, "run_case", hist, part="disp2eig-history", chunksize=2,
                  states=0, transitions=0)
    ctx.states += sum(int(r.get("seqs", 0)) for r in res)
    ctx.transitions += sum(int(r.get("ops", 0)) for r in res)
    ctx.notes.setdefault("calls_of_real_function", OrderedDict())["disp2eig-history"] = sum(int(r.get("calls", 0)) for r in res)
    ddims = OrderedDict((("dm", [0, -1, 1]), ("dc", [0, -1, 1])))
    for N in natoms:
        for rows in ("one", "full"):
            ctx.run_lattice(MOD, "run_case", ddims, None, part="disp2eig-mismatch", parallel=False,
                            extra={"kind": "dm", "N": N, "form": "2d", "rows": rows, "base": "crot"})
    _run(ctx, [{"kind": "dm", "N": N, "form": f, "base": "crot"} for N in natoms for f in ("1d", "transposed")],
         "disp2eig-mismatch-shape", parallel=False)

    # ---- load
    cases, seen = [], set()
    for nq in (1, 2, 3, 6):
        for npm in (3, 6, 60):
            for v in R.LOAD_VARIANTS:
                for qs in R.Q_SPECIALS:
                    for qpos in (R.Q_POSITIONS if qs != "none" else ("first",)):
                        for p in (False, True):
                            blocks = tuple(R.special_blocks(nq, qpos)) if qs != "none" else ()
                            k = (nq, npm, v, qs, blocks, p)
                            if (p and nq == 1) or k in seen:      # positions coincide for small nq
                                continue
                            seen.add(k)
                            cases.append({"kind": "l", "nq": nq, "np": npm, "variant": v, "prefix": p, "qspecial": qs, "qpos": qpos})
    res = _run(ctx, cases, "load")
    if not all(r.get("distinct_numbers", True) for r in res):
        raise HarnessError("reference: synthetic file content is not distinct in every slot")
    depth = LOAD_HIST_DEPTH[ctx.tier]
    seqs = load_histories(depth)
    lh = [{"kind": "lh", "ops": ops, "id": k} for k, ops in enumerate(seqs)]
    ctx.run(MOD, "run_case", lh, part="load-history", states=len(lh), transitions=sum(len(c["ops"]) for c in lh))
    ctx.notes["load_history"] = {"ops": list(LOAD_OPS), "contents": {k: list(v) for k, v in LOAD_CONTENTS.items()},
                                 "depth": depth, "sequences": len(seqs)}
    ctx.notes["disp_history"] = {"ops": list(DISP_OPS), "depth": 3, "sequences_per_configuration": 4 + 16 + 64,
                                 "configurations": len(hist), "presentations": list(DISP_HIST_PRES)}

    ctx.notes["alphabets"] = {
        "sort_small_n": list(small_n), "permutations": {n: len(list(itertools.permutations(range(n)))) for n in small_n},
        "phase_vectors": {n: 4 ** n for n in small_n}, "bases": list(R.BASES), "perturbations": list(R.PERTS),
        "containers": list(CONTAINERS), "sort_big_n": list(big_n),
        "big_permutations": {n: n + n * (n - 1) // 2 for n in big_n}, "big_phase_patterns": ["cyc", "gold"],
        "anybasis_pairs": len(pairs), "block_angles": len(THETAS),
        "householder_grid": {n: f"{g}:{len(GRIDS[g])}^{n}" for n, g in grids.items()},
        "zeroblock_n": [2, 3, 4, 5, 6, 12, 60],
        "mismatch_lattice": "3^5 per (n in 2,3,4,5,12,60) x (identity, crot) x (list, ndarray)",
        "disp_natoms": list(natoms), "masses": list(R.MASS_KINDS), "scalings": list(R.SCALINGS), "norm_modes": list(R.NORM_MODES),
        "disp_shapes": ["full", "rows1", "subsets"], "disp_input_presentations": list(PRESENTATIONS),
        "disp_integer_presentations": list(INT_PRESENTATIONS), "mass_containers": ["list", "ndarray", "column"],
        "load_nq": [1, 2, 3, 6], "load_np": [3, 6, 60], "load_variants": list(R.LOAD_VARIANTS),
        "load_q_specials": {k: (list(v) if v else None) for k, v in R.Q_SPECIALS.items()}, "load_q_positions": list(R.Q_POSITIONS),
    }
    ctx.notes["margins_5pct"] = {f"{n}:{b}:{p}": [round(x, 4) for x in R.margin(n, b, p)]
                                 for n in (2, 5, 60) for b in ("identity", "crot") for p in ("uc5", "ur5", "ad5")}
    ctx.notes["tolerance"] = "1e-9 absolute on unit vectors (disp2eig); exact equality of parsed decimals (load); exact positions (sort)"


# ----------------------------------------------------------------------------------- selftest

def selftest():
    ok = True

    def need(cond, what):
        nonlocal ok
        if not cond:
            ok = False
            print("selftest FAILED:", what)

    for n in (2, 3, 4, 5, 6, 12, 13, 60, 61):
        for b in R.BASES + ("zeroblock",):
            need(R.unitarity_defect(R.basis(n, b)) < 1e-12, f"basis {b} n={n} unitary")
        z = R.basis(n, "zeroblock")
        need(z[-1, -1] == 0.0 and abs(abs(z[0, -1]) - (n - 1) ** -0.5) < 1e-12, f"zeroblock n={n} entries")
        for b in R.BASES:
            for p in R.PERTS:
                need(R.margin_ok(n, b, p), f"margin {b} {p} n={n}: {R.margin(n, b, p)}")
            for p in R.PERTS[1:]:
                disp = R.margin(n, b, p)[0]
                need(disp >= 0.2 * R.EPS[p[2:]], f"perturbation {p} of {b} n={n} is not trivial ({disp})")
                if p[:2] in ("uc", "ur"):
                    need(R.unitarity_defect(R.perturbed(n, b, p)) < 1e-12, f"perturbed {b} {p} n={n} unitary")
            for p in R.REAL_PERTS:
                if b in R.REAL_BASES:
                    need(not np.iscomplexobj(R.perturbed(n, b, p)), f"{b} {p} stays real")
        for th in THETAS:
            need(R.unitarity_defect(R.block_rotation(n, th)) < 1e-12, "block rotation unitary")
    need(np.iscomplexobj(R.basis(4, "dft")) and np.iscomplexobj(R.basis(4, "crot")), "complex bases are complex")
    need(np.max(np.abs(R.basis(5, "rotation") - R.basis(5, "rotation").T)) > 0.1, "rotation is not symmetric")
    need(np.max(np.abs(R.basis(5, "crot") - R.basis(5, "crot").T)) > 0.1, "crot is not symmetric")
    # oracle bookkeeping: applying the expected placement to the permuted rows gives back the base
    for n in (3, 5):
        b = R.basis(n, "crot")
        for perm in itertools.permutations(range(n)):
            t = R.make_target(b, perm, np.ones(n))
            placed = R.expected_sorted(list(range(n)), perm)
            need(all(np.allclose(t[placed[i]], b[i]) for i in range(n)), f"expected_sorted perm={perm}")
            g = R.overlaps(b, t)
            need(all(int(np.argmax(g[i])) == placed[i] for i in range(n)), f"overlap argmax perm={perm}")
    need(len(set(map(tuple, R.all_phase_vectors(3).tolist()))) == 64, "phase vectors distinct")
    # displacement model: M^(1/2) u, renormalised, is the eigenvector (independent of cij), for every
    # mass set, scaling and norm mode; the alphabets really span the decades they claim
    e = R.basis(12, "crot")
    sq = lambda m: np.sqrt(np.repeat(np.array(m, dtype=float), 3))[None, :]
    for kind in R.MASS_KINDS:
        m = R.masses(4, kind)
        need(all(x > 0 for x in m), f"masses {kind} positive")
        for mode in R.NORM_MODES:
            for sk in R.SCALINGS:
                s = R.row_scaling(12, sk)
                u = R.displacements(e, m, s, mode)
                w = u * sq(m)
                wn = np.linalg.norm(w, axis=1)
                need(np.max(np.abs(w / wn[:, None] - (s / np.abs(s))[:, None] * e)) < 1e-12, f"displacement model {kind} {sk} {mode}")
                if mode == "mw":
                    need(np.allclose(wn, np.abs(s), rtol=1e-12), f"mass-weighted norm is |s| ({kind} {sk})")
                else:
                    need(np.allclose(np.linalg.norm(u, axis=1), np.abs(s), rtol=1e-12), f"raw norm is |s| ({kind} {sk})")
        u = R.displacements(e, m, R.row_scaling(12, "1"), "mw")
        if kind != "unit":
            g = u @ np.conj(u).T
            need(np.max(np.abs(g - np.diag(np.diag(g)))) > 1e-6 * np.max(np.abs(g)), "displacements are not orthogonal before conversion")
    lad = np.abs(R.row_scaling(12, "ladder"))
    need(np.isclose(lad.min(), 1e-12, rtol=1e-12, atol=0) and np.isclose(lad.max(), 1e12, rtol=1e-12, atol=0) and
         np.allclose(sorted(lad[:10]), sorted(float(x) for x in R.DECADES), rtol=1e-12, atol=0),
         "ladder spans 1e-12..1e12 within one matrix")
    a = np.abs(R.row_scaling(12, "alt"))
    need(np.allclose(a[::2], 1e-9, rtol=1e-12, atol=0) and np.allclose(a[1::2], 1e3, rtol=1e-12, atol=0),
         "alt: neighbouring rows 1e-9 and 1e3")
    wn = np.linalg.norm(R.displacements(e, R.masses(4, "kg"), R.row_scaling(12, "1"), "raw") * sq(R.masses(4, "kg")), axis=1)
    need(np.all(wn < 1e-12), "raw unit displacements with kg masses have a tiny mass-weighted norm")
    # histories: validity rules and the presentations really are what they claim
    for dpt in (1, 2, 3, 4):
        hs = load_histories(dpt)
        need(len({tuple(h) for h in hs}) == len(hs) and all(h[-1] in ("Lp", "Lq", "Lr") and len(h) <= dpt for h in hs), "load histories end in a load")
        need(all(("Lp" not in h) or any(o in ("wXp", "wYp", "wZp") for o in h[:h.index("Lp")]) for h in hs), "Lp only after a write to p")
    need(["wXp", "Lp", "wYp", "Lp"] in load_histories(4) and ["Lr", "cd2", "Lr"] in load_histories(3), "key histories enumerated")
    need(_content("X")[1] != _content("Y")[1] and LOAD_CONTENTS["X"][:2] == LOAD_CONTENTS["Y"][:2], "X and Y: same sizes, other numbers")
    blk = R.displacements(R.basis(6, "crot"), R.masses(2, "elements"), R.row_scaling(6, "1")).astype(complex)
    a, holder, snap = _present(blk[1:3], "view", (blk, 1, 3))
    need(a.base is holder and np.array_equal(a, blk[1:3]) and _unchanged(holder, snap), "row view presentation")
    a[0, 0] += 1
    need(not _unchanged(holder, snap), "a write through the view is noticed")
    a, holder, snap = _present(blk, "tview")
    need(not a.flags["C_CONTIGUOUS"] and np.array_equal(a, blk) and np.shares_memory(a, holder), "transposed view presentation")
    a, holder, snap = _present(blk, "list")
    a[0][0] = 5
    need(not _unchanged(holder, snap), "a write into the nested list is noticed")
    one = np.ones(6)
    need(_present(blk * 1e-20, "c64", None, one) is None and _present(blk, "c64", None, one * 1e-20) is None and
         _present(blk, "c64", None, one)[0].dtype == np.complex64, "complex64 range rule")
    # file layout: reproduce the shipped matdyn files byte for byte; writer/parser round trip
    from mc.explore import repo_root
    for name in ("pwscf.eig", "pwscf.vec"):
        p = os.path.join(repo_root(), "tests", "data", name)
        if os.path.exists(p):
            with open(p) as fp:
                txt = fp.read()
            qp = R.parse_file(txt)
            need(len(qp) == 2 and all(len(m) == 60 and all(len(x[3]) == 60 for x in m) for _, m in qp), f"{name} structure")
            need(R.format_file(qp) == txt.rstrip(" "), f"{name} not reproduced byte for byte")
        else:
            print("selftest note: shipped file missing:", p)
    for v in R.LOAD_VARIANTS:
        qp = R.synthetic_qpoints(6, 60, v)
        nums = [abs(x) for x in R.all_numbers(qp)]
        need(len(set(nums)) == len(nums), f"synthetic {v}: numbers distinct")
        back = R.parse_file(R.format_file(qp))
        need([(q, [(i, f, c, list(vv)) for i, f, c, vv in ms]) for q, ms in qp] ==
             [(q, [(i, f, c, list(vv)) for i, f, c, vv in ms]) for q, ms in back], f"synthetic {v}: round trip")
    need(any(x[1] < 0 for _, ms in R.synthetic_qpoints(2, 6, "matdyn") for x in ms), "negative frequencies present")
    for qs, spec in R.Q_SPECIALS.items():
        if spec is None:
            continue
        for qpos in R.Q_POSITIONS:
            qp = R.synthetic_qpoints(6, 6, "matdyn", qs, qpos)
            txt = R.format_file(qp)
            back = R.parse_file(txt)
            zero = [iq for iq, (qq, _) in enumerate(back) if not any(qq)]
            need(zero == (R.special_blocks(6, qpos) if qs not in ("onezero", "twozero") else []), f"q special {qs}/{qpos}: origin blocks {zero}")
            need(all(z.imag != 0 and z.real != 0 for _, ms in back for m in ms for z in m[3]), f"q special {qs}/{qpos}: complex everywhere")
            need([R.printed_q(qq) for qq, _ in qp] == [qq for qq, _ in back], f"q special {qs}/{qpos}: q round trip")
            nums = [abs(x) for x in R.all_numbers(qp)]
            need(len(set(nums)) == len(nums), f"q special {qs}/{qpos}: other numbers distinct")
    need(" q =       0.0000     -0.0000      0.0000" in R.format_file(R.synthetic_qpoints(1, 3, "matdyn", "tiny")), "tiny q prints as zeros")
    need(" q =      -0.0000     -0.0000     -0.0000" in R.format_file(R.synthetic_qpoints(1, 3, "matdyn", "negzero")), "negative zero q line")
    need(" q =       0.0000      0.0000      0.0000" in R.format_file(R.synthetic_qpoints(1, 3, "matdyn", "origin")), "origin q line as in pwscf.eig")
    for v in R.LOAD_VARIANTS:      # both signs occur in each of the six number columns of the vector lines
        for npm in (3, 6, 60):
            cols = [set() for _ in range(6)]
            for _, ms in R.synthetic_qpoints(1, npm, v):
                for x in ms:
                    for a in range(0, npm, 3):
                        for c in range(3):
                            cols[2 * c].add(x[3][a + c].real < 0)
                            cols[2 * c + 1].add(x[3][a + c].imag < 0)
            need(all(len(c) == 2 for c in cols), f"synthetic {v} np={npm}: a column has one sign only")
    return ok
