"""C07 — VRH averages, bounds and velocities are those of the full tensor in SI units (mode A)."""
from collections import OrderedDict
import os
from types import SimpleNamespace

import numpy
from scipy import constants as sc

from mc import synth, calc as K
from mc.explore import V, HarnessError, repo_root
from mc.ref import tensor_ref as R

def seam_guard(ex):
    """an AttributeError raised BY THE DUCK (an attribute the duck-typed calculator does not carry) is a drift of the
    harness seam, not a property violation (DESIGN §12)"""
    if isinstance(ex, AttributeError) and "SimpleNamespace" in str(ex):
        raise HarnessError(f"duck-typed seam no longer matches the code: {ex}")


ID = "C07"
MOD = "mc.props.c07"
TOL = 1e-9
VTOL = 1e-7
_RY_J = sc.physical_constants["Rydberg constant times hc in J"][0]
_A0 = sc.physical_constants["Bohr radius"][0]
NAMES = {"KV": "bulk_modulus_voigt", "KR": "bulk_modulus_reuss", "KH": "bulk_modulus_voigt_reuss_hill",
         "GV": "shear_modulus_voigt", "GR": "shear_modulus_reuss", "GH": "shear_modulus_voigt_reuss_hill"}
GRIDS = {"1x1": ([300.0], [300.0]), "3x4": ([0.0, 300.0, 2000.0], [330.0, 300.0, 270.0, 241.0])}
MAGS = {"gpa": 1.0 / 14710.5, "soft": 0.05 / 14710.5, "stiff": 9.0 / 14710.5}


def stiffness_field(system, mag, t, v, extras):
    """{pair: (nt,nv) array} positive definite at every grid point; zero-valued extras optionally present"""
    nt, nv = len(t), len(v)
    base = {p: numpy.float64(synth.BASE_C[p]) for p in synth.PAIRS21}
    fields = {}
    for n, p in enumerate(synth.PAIRS21):
        g = 1.0 + 0.04 * numpy.arange(nt)[:, None] * (1 + 0.1 * (n % 3)) + 0.07 * numpy.arange(nv)[None, :] * (1 + 0.05 * (n % 4))
        if p[0] != p[1]:
            g = 1.0 + 0.5 * (g - 1.0)          # keep diagonal dominance
        fields[p] = base[p] * mag * g
    full = synth.system_tensor(system, fields)
    out = {p: numpy.broadcast_to(a, (nt, nv)).copy() for p, a in full.items() if numpy.any(a != 0)}
    if extras:
        for p in synth.PAIRS21:
            if p not in out:
                out[p] = numpy.zeros((nt, nv))
    return out


EXTRA12 = [p for p in synth.PAIRS21 if p not in synth.INDEPENDENT["orthorhombic"]]


def subset_field(mask, mag, t, v):
    """the nine orthotropic components plus the subset `mask` of the other twelve (all others absent)"""
    full = stiffness_field("triclinic", mag, t, v, False)
    keep = set(synth.INDEPENDENT["orthorhombic"]) | {p for i, p in enumerate(EXTRA12) if mask >> i & 1}
    return {p: a for p, a in full.items() if p in keep}


def check_point_set(viol, vb, cfield, t, v, cellmass, ctx_msg):
    """compare every reported average / compliance / velocity with tensor_ref at every grid point"""
    nt, nv = len(t), len(v)
    got = {}
    try:
        for k, nm in NAMES.items():
            got[k] = numpy.asarray(getattr(vb, nm), float)
        got["vp"] = numpy.asarray(vb.primary_velocities, float)
        got["vs"] = numpy.asarray(vb.secondary_velocities, float)
        for k, a in got.items():
            if a.shape != (nt, nv):
                viol.append(V("c07:average-shape", f"{ctx_msg}: {k} has shape {a.shape}, the (T,V) grid is {(nt, nv)}"))
                return 0
    except Exception as ex:
        seam_guard(ex)
        viol.append(V(f"c07:raises:{type(ex).__name__}", f"{ctx_msg}: {K.fmt_exc(ex)}"))
        return 0
    s_rep = numpy.zeros((nt, nv, 6, 6))
    for a in range(1, 7):
        for b in range(a, 7):
            try:
                s = numpy.asarray(getattr(vb, f"s{a}{b}"), float)
            except AttributeError:
                continue
            if s.shape != (nt, nv):
                viol.append(V("c07:compliance-shape", f"{ctx_msg}: s{a}{b} has shape {s.shape}, the (T,V) grid is {(nt, nv)}"))
                return 0
            s_rep[:, :, a - 1, b - 1] = s
            s_rep[:, :, b - 1, a - 1] = s
    npd = 0
    for i in range(nt):
        for j in range(nv):
            c6 = R.c6_from_dict({p: a[i, j] for p, a in cfield.items()})
            if numpy.linalg.eigvalsh(c6).min() <= 0:
                continue
            npd += 1
            ref = R.vrh(R.full_from_voigt(c6))
            for k in NAMES:
                o, r = got[k][i, j], ref[k]
                if not abs(o - r) <= TOL * abs(r):
                    viol.append(V(f"c07:mismatch:{NAMES[k]}", f"{ctx_msg} at ({i},{j}): {NAMES[k]} = {o!r}, full-tensor value {r!r}"))
            if not (got["KR"][i, j] <= got["KH"][i, j] * (1 + 1e-12) and got["KH"][i, j] <= got["KV"][i, j] * (1 + 1e-12)
                    and got["GR"][i, j] <= got["GH"][i, j] * (1 + 1e-12) and got["GH"][i, j] <= got["GV"][i, j] * (1 + 1e-12)):
                viol.append(V("c07:bounds", f"{ctx_msg} at ({i},{j}): Reuss <= Hill <= Voigt violated"))
            if not numpy.all(numpy.abs(s_rep[i, j] @ c6 - numpy.eye(6)) <= 1e-8):
                viol.append(V("c07:compliance-not-inverse", f"{ctx_msg} at ({i},{j}): reported s_ij times reported c_ij is not the identity (max dev {float(numpy.abs(s_rep[i, j] @ c6 - numpy.eye(6)).max()):.2e})"))
            # velocities in SI: rho = (cellmass g/mol)/(N_A V)
            rho = cellmass * 1e-3 / sc.N_A / (v[j] * _A0 ** 3)
            to_pa = _RY_J / _A0 ** 3
            vs = numpy.sqrt(ref["GH"] * to_pa / rho) / 1000.0
            vp = numpy.sqrt((ref["KH"] + 4.0 / 3.0 * ref["GH"]) * to_pa / rho) / 1000.0
            for nm, o, r in (("secondary_velocities", got["vs"][i, j], vs), ("primary_velocities", got["vp"][i, j], vp)):
                if not abs(o - r) <= VTOL * r:
                    viol.append(V(f"c07:mismatch:{nm}", f"{ctx_msg} at ({i},{j}): {nm} = {o!r} km/s, SI value {r!r} km/s"))
            if len(viol) > 6:
                return npd
    return npd


def make_duck(cf, t, v, mass, c_, order="given"):
    """a REAL Calculator object that has not gone through __init__ (no files): its public state is set directly, so
    helper methods of the class remain available to _calculate_compliances; modulus_keys is derived by the class itself
    from the static table's first row, as in a real run"""
    from collections import OrderedDict as OD
    from cij.core.calculator import Calculator
    keys = [c_(*p) for p in cf]
    if order == "reversed":
        keys = keys[::-1]
    obj = Calculator.__new__(Calculator)
    obj.qha_calculator = SimpleNamespace(volume_base=SimpleNamespace(v_array=v, t_array=t), v_array=v, t_array=t)
    obj.elast_data = SimpleNamespace(cellmass=mass, vref=float(v[0]), nv=1, lattice_parmeters=[],
                                     volumes=[SimpleNamespace(volume=float(v[0]), static_elastic_modulus=OD((k, 0.0) for k in keys))])
    obj.modulus_adiabatic = {c_(*p): a for p, a in cf.items()}
    obj.modulus_isothermal = {c_(*p): a * (0.97 - 0.01 * (p[0] == p[1])) for p, a in cf.items()}
    if [tuple(k.voigt) for k in obj.modulus_keys] != [tuple(k.voigt) for k in keys] or tuple(obj.dims) != (len(t), len(v)):
        raise HarnessError("the file-less Calculator object does not expose the keys / grid it was given")
    return obj


READ_ALPHABET = ["c11t", "c12t", "c_44t", "c11", "c1122s", "s11", "s44", "s2323", "s1113", "s_66", "bulk_modulus_voigt", "shear_modulus_reuss",
                 "bulk_modulus_voigt_reuss_hill", "primary_velocities", "secondary_velocities"]


def run_reads(case):
    """mode B: a sequence of attribute reads on ONE volume-base object; every read must return what a fresh object returns
    (no read may change what a later read sees), and the averages must still be those of the adiabatic tensor"""
    from cij.core.calculator import Calculator, CijVolumeBaseInterface
    from cij.util import c_
    t, v = (numpy.array(x) for x in GRIDS["3x4"])
    cf = stiffness_field(case["system"], MAGS["gpa"], t, v, False)
    viol = []

    def fresh():
        duck = make_duck(cf, t, v, 40.3044, c_)
        duck._calculate_compliances()
        return CijVolumeBaseInterface(duck)
    try:
        vb = fresh()
        for n, name in enumerate(case["ops"]):
            got = numpy.array(getattr(vb, name), float)
            want = numpy.array(getattr(fresh(), name), float)
            if not numpy.array_equal(got, want):
                viol.append(V(f"c07:read-order-dependence:{name}", f"after reads {case['ops'][:n]}, {name} differs from a fresh object's by {float(numpy.abs(got - want).max()):.3e}"))
                break
        if not viol:
            check_point_set(viol, vb, cf, t, v, 40.3044, f"after reads {case['ops']}")
    except Exception as ex:
        seam_guard(ex)
        viol.append(V(f"c07:raises:{type(ex).__name__}", K.fmt_exc(ex)))
    return {"viol": viol, "nontrivial": len(case["ops"]) > 1, "outcome": "reads-ok" if not viol else viol[0]["sig"]}


def run_calcs(case):
    """process history: several real Calculators constructed one after the other and all kept alive; afterwards each one's
    averages/compliances/velocities must still be those of ITS OWN adiabatic tensor"""
    from cij.core.calculator import Calculator
    from mc.props import c06
    viol = []
    with K.scratch() as d:
        calcs = []
        try:
            for n, (data, system) in enumerate(case["seq"]):
                spec = dict(c06.DATASETS[data])
                spec["system"], spec["compset"] = system, "minimal"
                spec["qha"] = dict(T_MIN=0, NT=2, DT=900, DT_SAMPLE=900, NTV=21, DELTA_P=2.0, DELTA_P_SAMPLE=2.0)
                sub = os.path.join(d, str(n))
                os.makedirs(sub)
                ds, st = synth.write(sub, spec)
                calcs.append((Calculator(os.path.join(sub, "settings.yaml")), ds))
        except Exception as ex:
            seam_guard(ex)
            return {"viol": [V(f"c07:raises:{type(ex).__name__}", K.fmt_exc(ex))], "outcome": "raises"}
        npd = 0
        for n, (c, ds) in enumerate(calcs):
            cf = {tuple(k.voigt): numpy.asarray(a, float) for k, a in c.modulus_adiabatic.items()}
            before = len(viol)
            npd += check_point_set(viol, c.volume_base, cf, numpy.asarray(c.t_array, float), numpy.asarray(c.v_array, float), ds["cellmass"],
                                   f"Calculator #{n} of sequence {case['seq']} (checked after all were built)")
            for v in viol[before:]:
                v["sig"] = v["sig"].replace("c07:", "c07:process-history:", 1)
    return {"viol": viol, "nontrivial": npd > 0, "outcome": "calcs-ok" if not viol else viol[0]["sig"], "points": npd}


def run_case(case):
    if case.get("interp"):
        # the same case in an interpreter started with other flags (-O strips assert statements)
        from mc.explore import run_in_interpreter
        inner = {k: v for k, v in case.items() if k != "interp"}
        rec = run_in_interpreter(ID, MOD, "run_case", inner, tuple(case["interp"]))
        for v in rec["viol"]:
            v["sig"] = v["sig"].replace("c07:", "c07:python" + "".join(case["interp"]) + ":", 1)
        return {"viol": rec["viol"], "nontrivial": True, "outcome": "interp-ok" if not rec["viol"] else rec["viol"][0]["sig"]}
    from cij.core.calculator import Calculator, CijVolumeBaseInterface
    from cij.util import c_
    viol = []
    if case["kind"] == "reads":
        return run_reads(case)
    if case["kind"] in ("duck", "subset"):
        t, v = (numpy.array(x) for x in GRIDS[case["grid"]])
        if case["kind"] == "subset":
            npd_total, masks = 0, case["masks"]
            for mask in masks:
                cf = subset_field(mask, MAGS["gpa"], t, v)
                duck = make_duck(cf, t, v, case["mass"], c_)
                try:
                    duck._calculate_compliances()
                    vb = CijVolumeBaseInterface(duck)
                except Exception as ex:
                    seam_guard(ex)
                    viol.append(V(f"c07:raises:{type(ex).__name__}", f"subset mask {mask}: {K.fmt_exc(ex)}"))
                    continue
                extra = [EXTRA12[i] for i in range(12) if mask >> i & 1]
                npd_total += check_point_set(viol, vb, cf, t, v, case["mass"], f"orthotropic 9 + {['c%d%d' % p for p in extra]}")
                if len(viol) > 6:
                    break
            return {"viol": viol, "nontrivial": npd_total > 0, "outcome": f"subsets-ok/{len(masks)}" if not viol else viol[0]["sig"], "points": npd_total}
        cf = stiffness_field(case["system"], MAGS[case["mag"]], t, v, case["extras"])
        if case.get("soften"):
            # a lattice just before an elastic instability: one shear constant almost vanishes at ONE grid point
            # (still positive definite; condition number 1/soften times larger)
            cf[(4, 4)][0, 0] *= case["soften"]
            if len(t) > 1:
                cf[(6, 6)][-1, -1] *= case["soften"]
        duck = make_duck(cf, t, v, case["mass"], c_, case.get("order", "given"))
        try:
            duck._calculate_compliances()
            vb = CijVolumeBaseInterface(duck)
        except Exception as ex:
            seam_guard(ex)
            return {"viol": [V(f"c07:raises:{type(ex).__name__}", K.fmt_exc(ex))], "outcome": "raises"}
        npd = check_point_set(viol, vb, cf, t, v, case["mass"], f"{case['system']}/{case['mag']}")
        return {"viol": viol, "nontrivial": npd > 0, "outcome": f"ok/{len(cf)}keys" if not viol else viol[0]["sig"], "points": npd}
    if case["kind"] == "calcs":
        return run_calcs(case)
    # real Calculator
    from mc.props import c06
    spec = dict(c06.DATASETS[case["data"]])
    spec["system"], spec["compset"] = case["system"], "minimal"
    spec["qha"] = dict(T_MIN=0, NT=3, DT=700, DT_SAMPLE=700, NTV=31, DELTA_P=1.0, DELTA_P_SAMPLE=1.0)
    spec["cellmass"] = case["mass"]
    with K.scratch() as d:
        ds0 = synth.make(spec)
        if case.get("mass_text"):
            ds0["cellmass_text"] = {"exp": "%.6e" % ds0["cellmass"], "EXP": ("%.4E" % ds0["cellmass"]), "int": str(int(round(ds0["cellmass"]))), "plus": "+%.3f" % ds0["cellmass"]}[case["mass_text"]]
            ds0["cellmass"] = float(ds0["cellmass_text"])
        ds, st = synth.write(d, spec, ds=ds0)
        try:
            c = Calculator(os.path.join(d, "settings.yaml"))
        except Exception as ex:
            seam_guard(ex)
            return {"viol": [V(f"c07:raises:{type(ex).__name__}", K.fmt_exc(ex))], "outcome": "raises"}
        cf = {tuple(k.voigt): numpy.asarray(a, float) for k, a in c.modulus_adiabatic.items()}
        t, v = numpy.asarray(c.t_array, float), numpy.asarray(c.v_array, float)
        npd = check_point_set(viol, c.volume_base, cf, t, v, ds["cellmass"], f"Calculator {case['data']}/{case['system']}")
    return {"viol": viol, "nontrivial": npd > 0, "outcome": f"calc-ok/{len(cf)}keys" if not viol else viol[0]["sig"], "points": npd}


def explore(ctx):
    ctx.rule = ("complete product: 9 crystal-system tensor shapes x 3 magnitudes x {non-zero components only, + zero-valued extras} x "
                "2 grid shapes x 3 cell masses x 2 key orders (+ 32 nearly singular positive-definite tensors, one shear constant reduced by 1e-3 ... 1e-9 at one grid point) on a file-less calculator object driving the real _calculate_compliances and "
                "CijVolumeBaseInterface, all 4096 subsets of the twelve non-orthotropic components added to the nine orthotropic ones, all "
                "ordered sequences of <=2 (<=3 thorough) attribute reads on one interface object (each read equal to a fresh object's), "
                "plus real Calculators (3 data sets x 4 systems x 4 cell masses from 1 to 24000 g/mol; three of them and three duck cases also in an interpreter started with -O; cell mass written in plain, exponent, integer and signed notation) and all ordered pairs (triples thorough) of real Calculators kept "
                "alive together in one process; every positive-definite grid point: "
                "K/G Voigt, Reuss, Hill vs C_iijj, C_ijij, S_iijj, S_ijij of the full tensor, bounds, s*c = 1, rho v^2 identities in SI; "
                "non-trivial = at least one positive-definite grid point")
    ctx.assumptions = ["tensor_ref (validated by rotational invariants in selftest)", "CODATA N_A, Rydberg, Bohr radius from scipy.constants"]
    cases = []
    for system in synth.SYSTEMS:
        for mag in MAGS:
            for extras in (False, True):
                for grid in GRIDS:
                    for mass in (1.0, 40.3044, 803.1):
                        for order in ("given", "reversed"):
                            cases.append({"kind": "duck", "system": system, "mag": mag, "extras": extras, "grid": grid, "mass": mass, "order": order})
    # nearly singular but positive-definite tensors (condition numbers up to ~1e11)
    cases += [{"kind": "duck", "system": system, "mag": "gpa", "extras": False, "grid": grid, "mass": 40.3044, "order": "given", "soften": f}
              for system in ("orthorhombic", "cubic", "monoclinic", "triclinic") for grid in GRIDS for f in (1e-3, 1e-5, 1e-7, 1e-9)]
    res = ctx.run(MOD, "run_case", cases, part="duck-product")
    # every subset of the 12 non-orthotropic components added to the nine orthotropic ones (2^12), in chunks
    chunks = [list(range(m, min(m + 64, 4096))) for m in range(0, 4096, 64)]
    res += ctx.run(MOD, "run_case", [{"kind": "subset", "masks": ch, "grid": "3x4", "mass": 40.3044} for ch in chunks],
                   part="component-subsets", states=4096, transitions=4096)
    # read histories on one interface object: all ordered sequences of length <= 2 (3 in thorough) over 15 attribute reads
    import itertools
    seqs = [list(s) for L in ((1, 2) if ctx.quick else (1, 2, 3)) for s in itertools.product(READ_ALPHABET, repeat=L)]
    res += ctx.run(MOD, "run_case", [{"kind": "reads", "system": "monoclinic", "ops": sq} for sq in seqs], part="read-histories",
                   transitions=sum(len(sq) for sq in seqs))
    real = [{"kind": "calc", "data": dname, "system": s, "mass": m} for dname in ("A", "B", "C")
            for s in ("orthorhombic", "monoclinic", "cubic", "trigonal7") for m in (100.3887, 7.25, 1.00794, 24000.0)]
    # interpreter mode: the same runs under `python -O` (assert statements stripped), duck and real
    real += [{"kind": "calc", "data": dname, "system": s, "mass": 100.3887, "interp": ["-O"]} for dname, s in (("A", "monoclinic"), ("B", "orthorhombic"), ("C", "cubic"))]
    real += [{"kind": "duck", "system": s, "mag": "gpa", "extras": False, "grid": "3x4", "mass": 40.3044, "order": "given", "interp": ["-O"]} for s in ("triclinic", "cubic", "hexagonal")]
    real += [{"kind": "calc", "data": "A", "system": "orthorhombic", "mass": m, "mass_text": mt} for m in (100.3887, 7.25, 1234.5) for mt in ("exp", "EXP", "int", "plus")]
    res += ctx.run(MOD, "run_case", real, part="real-calculators", chunksize=1)
    variants = [("A", "trigonal7"), ("A", "orthorhombic"), ("B", "monoclinic"), ("C", "cubic")]
    import itertools as _it
    seqs = [list(p) for p in _it.permutations(variants, 2)] + ([list(p) for p in _it.permutations(variants, 3)] if not ctx.quick else [variants, variants[::-1]])
    res += ctx.run(MOD, "run_case", [{"kind": "calcs", "seq": [list(x) for x in sq]} for sq in seqs], part="calculator-sequences", chunksize=1,
                   transitions=sum(len(sq) for sq in seqs))
    ctx.notes["positive_definite_points_checked"] = sum(r.get("points", 0) for r in res)


def selftest():
    ok = R.selftest()
    for s in synth.SYSTEMS:
        cf = stiffness_field(s, MAGS["gpa"], numpy.array([0.0, 300.0, 2000.0]), numpy.array([330.0, 300.0, 270.0, 241.0]), False)
        for i in range(3):
            for j in range(4):
                ok &= numpy.linalg.eigvalsh(R.c6_from_dict({p: a[i, j] for p, a in cf.items()})).min() > 0
    return bool(ok)
