"""C04 — assembly is complete, request-independent, dependency-ordered, isotropic in the limit, covariant
under axis relabelling (mode B: states are ordered request lists, a step appends a key)."""
import itertools

import numpy

from mc import duck as D
from mc.explore import V, HarnessError, case_key

def seam_guard(ex):
    """an AttributeError raised BY THE DUCK (an attribute the duck-typed calculator does not carry) is a drift of the
    harness seam, not a property violation (DESIGN §12)"""
    if isinstance(ex, AttributeError) and "SimpleNamespace" in str(ex):
        raise HarnessError(f"duck-typed seam no longer matches the code: {ex}")


ID = "C04"
MOD = "mc.props.c04"
PAIRS = [(a, b) for a in range(1, 7) for b in range(a, 7)]
SHEAR = [p for p in PAIRS if p[1] >= 4]
NONSHEAR = [p for p in PAIRS if p[1] <= 3]
STRAINS = ["const", "thirds", "field", "near", "near13", "two-equal", "midpoint", "ones", "raw"]   # the last two are positive but not normalised to sum 1
PERMS = list(itertools.permutations(range(3)))
SPEC = dict(nq=2, na=2, wset="mid", gset="distinct", bset="distinct", weights="increasing",
            tgrid=[0.0, 300.0], vgrid=[280.0, 320.0], pkind="positive", cv="field", gamma_fill="zeros")
DIFF_TOL = 1e-9     # unit-free: same quantity computed through two request histories
REF_RTOL = 1e-7     # against sam_ref (unit-bearing, DESIGN §5)


def permute_pair(pair, perm):
    """pair in the relabelled frame -> pair in the original frame; new axis a = old axis perm[a]"""
    from mc.ref.sam_ref import V2S, vp
    (i, j), (k, l) = V2S[pair[0]], V2S[pair[1]]
    return vp(perm[i], perm[j], perm[k], perm[l])


def run_request(duck, strain, pairs):
    from cij.core.tasks import PhononContributionTaskList
    from cij.util import c_
    keys = [c_(a, b) for a, b in pairs]
    tl = PhononContributionTaskList(duck)
    tl.resolve(strain, keys)
    tl.calculate()
    return tl, keys, tl.get_isothermal_results(), tl.get_adiabatic_results()


def run_case(case):
    from mc.ref import sam_ref as S
    spec = dict(SPEC)
    spec.update(case.get("spec", {}))
    duck, laws, w, t, v = D.build(spec)
    strain = D.strain_field(case["strain"], v)
    perm = case.get("perm")
    if perm is not None:
        strain = strain[:, list(perm)]
    pairs = [tuple(p) for p in case["keys"]]
    viol = []
    try:
        tl, keys, iso, adi = run_request(duck, strain, pairs)
    except Exception as ex:
        seam_guard(ex)
        import traceback
        return {"viol": [V(f"c04:raises:{type(ex).__name__}", f"request {pairs} strain {case['strain']}: {ex!r} at {traceback.format_exc(limit=-2).splitlines()[-2].strip()}")],
                "outcome": "raises"}
    # (i) completeness
    vals = {}
    for p, k in zip(pairs, keys):
        if k not in iso or k not in adi:
            viol.append(V("c04:missing-value", f"requested c{p[0]}{p[1]} has no value"))
            continue
        a, b = numpy.asarray(iso[k]), numpy.asarray(adi[k])
        if numpy.iscomplexobj(a) or numpy.iscomplexobj(b):
            if max(numpy.abs(a.imag).max(), numpy.abs(b.imag).max()) > 0:
                viol.append(V("c04:complex-value", f"c{p[0]}{p[1]} has a non-zero imaginary part"))
            a, b = a.real, b.real
        if a.shape != (len(t), len(v)) or not numpy.all(numpy.isfinite(a)) or not numpy.all(numpy.isfinite(b)):
            viol.append(V("c04:bad-value", f"c{p[0]}{p[1]}: shape {a.shape} or non-finite entries"))
            continue
        vals[p] = (a, b)
    # (iii) dependency order in the task list
    try:
        data = list(tl.data)
        ntasks = len(data)
        for pos, task in enumerate(data):
            for dstrain, dkey in task.get_dependencies():
                from cij.core.tasks import PhononContributionTaskParams as TP
                want = TP.create(dstrain, dkey)
                where = [i for i, tk in enumerate(data) if tk.task_params == want]
                if not where:
                    viol.append(V("c04:dependency-missing", f"task {task.key!r} depends on {dkey!r} which is not in the task list"))
                elif min(where) >= pos:
                    viol.append(V("c04:dependency-order", f"task {task.key!r} at {pos} is evaluated before its dependency {dkey!r} at {min(where)}"))
        g = getattr(tl, "_graph", None)
        if g is not None:
            import networkx as nx
            if not nx.is_directed_acyclic_graph(g):
                viol.append(V("c04:cycle", "dependency graph has a cycle"))
    except Exception as ex:
        seam_guard(ex)
        raise HarnessError(f"cannot inspect the task list: {ex!r}")
    # (ii) reference value from sam_ref with the implementation's (validated) frames
    frames = {}
    for task in data:
        if task.key.is_shear:
            frames[tuple(task.key.voigt)] = numpy.real(numpy.asarray(task.calculator.transformation_matrix))
    vb = duck.qha_calculator.volume_base
    sp = S.Spectrum(duck.freq_array, duck.mode_gamma[1], duck.mode_gamma[0], w, t, v, duck.na,
                    vb.pressures - duck.static_p_array[None, :], vb.heat_capacity)
    ref = S.Tensor(sp, frame=lambda pr: frames[pr] if pr in frames else numpy.linalg.eigh(S.fictitious_strain(pr))[1])
    nstrain = numpy.asarray(strain, float) / numpy.asarray(strain, float).sum(axis=1, keepdims=True)   # fractions e_i/sum(e)
    scale = float(numpy.abs(ref.value((1, 1), nstrain)).max())
    for p, (a, b) in vals.items():
        try:
            ra, rb = ref.value(p, nstrain, False), ref.value(p, nstrain, True)
        except ValueError as ex:
            viol.append(V("c04:frame-invalid", f"c{p[0]}{p[1]}: {ex}"))
            continue
        for name, o, r in (("isothermal", a, ra), ("adiabatic", b, rb)):
            if not numpy.all(numpy.abs(o - r) <= REF_RTOL * (numpy.abs(r) + scale)):
                idx = numpy.unravel_index(numpy.argmax(numpy.abs(o - r)), o.shape)
                viol.append(V(f"c04:value-vs-reference:{name}:{'shear' if p[1] >= 4 else 'nonshear'}",
                              f"c{p[0]}{p[1]} {name} (strain {case['strain']}, request {pairs[:6]}...): {float(o[idx])!r} vs reference {float(r[idx])!r}"))
    # (iv) isotropy with equal axial strains
    if case.get("isotropy") and len(vals) == 21:
        c = {p: vals[p][0] for p in vals}
        tol = DIFF_TOL * scale * 10
        eq = [((1, 1), (2, 2)), ((1, 1), (3, 3)), ((1, 2), (1, 3)), ((1, 2), (2, 3)), ((4, 4), (5, 5)), ((4, 4), (6, 6))]
        for x, y in eq:
            if not numpy.all(numpy.abs(c[x] - c[y]) <= tol):
                viol.append(V("c04:isotropy:equalities", f"c{x[0]}{x[1]} != c{y[0]}{y[1]} with equal axial strains: {float(c[x].ravel()[0])!r} vs {float(c[y].ravel()[0])!r}"))
        if not numpy.all(numpy.abs(c[(4, 4)] - (c[(1, 1)] - c[(1, 2)]) / 2) <= tol):
            viol.append(V("c04:isotropy:c44", f"c44 != (c11-c12)/2: {float(c[(4, 4)].ravel()[0])!r} vs {float(((c[(1, 1)] - c[(1, 2)]) / 2).ravel()[0])!r}"))
        for p in PAIRS:
            if p not in [(1, 1), (2, 2), (3, 3), (1, 2), (1, 3), (2, 3), (4, 4), (5, 5), (6, 6)]:
                if not numpy.all(numpy.abs(c[p]) <= tol):
                    viol.append(V("c04:isotropy:nonzero", f"c{p[0]}{p[1]} = {float(numpy.abs(c[p]).max())!r} should vanish for an isotropic tensor"))
    out_vals = {f"{p[0]}{p[1]}": [vals[p][0].ravel().tolist(), vals[p][1].ravel().tolist()] for p in vals}
    nshear = sum(1 for p in pairs if p[1] >= 4)
    return {"viol": viol, "nontrivial": nshear > 0 and ntasks > len(pairs),
            "outcome": f"tasks{ntasks}" if not viol else viol[0]["sig"], "vals": out_vals, "scale": scale, "ntasks": ntasks,
            "ref_calls": ref.calls}


def run_reuse(case):
    """one PhononContributionTaskList object: resolve+calculate several times; each result must equal a fresh list's"""
    from cij.core.tasks import PhononContributionTaskList
    from cij.util import c_
    duck, laws, w, t, v = D.build(dict(SPEC))
    viol = []
    try:
        tl = PhononContributionTaskList(duck)
        for n, (skind, pairs) in enumerate(case["steps"]):
            strain = D.strain_field(skind, v)
            keys = [c_(a, b) for a, b in pairs]
            tl.resolve(strain, keys)
            tl.calculate()
            iso, adi = tl.get_isothermal_results(), tl.get_adiabatic_results()
            f_tl, f_keys, f_iso, f_adi = run_request(duck, strain, [tuple(p) for p in pairs])
            scale = float(numpy.abs(numpy.asarray(f_iso[f_keys[0]])).max()) + 1e-300
            for k, fk in zip(keys, f_keys):
                for name, got, want in (("isothermal", iso.get(k), f_iso[fk]), ("adiabatic", adi.get(k), f_adi[fk])):
                    if got is None or not numpy.all(numpy.abs(numpy.asarray(got) - numpy.asarray(want)) <= DIFF_TOL * scale):
                        viol.append(V(f"c04:list-reuse:{name}:{'shear' if k.is_shear else 'nonshear'}",
                                      f"step {n} of {case['steps']}: c{k.voigt[0]}{k.voigt[1]} {name} on a re-used task list differs from a fresh list's"))
                        return {"viol": viol, "outcome": viol[0]["sig"]}
    except Exception as ex:
        seam_guard(ex)
        viol.append(V(f"c04:list-reuse:raises:{type(ex).__name__}", f"{case['steps']}: {ex!r}"))
    return {"viol": viol, "nontrivial": len(case["steps"]) > 1, "outcome": "reuse-ok" if not viol else viol[0]["sig"]}


def requests(tier):
    full = list(PAIRS)
    reqs = []
    for L in (1, 2):
        reqs += [list(s) for s in itertools.permutations(full, L)]
    reqs += [[p for p in full if p != q] for q in full]                      # 21 complements
    orders = [full, full[::-1]] + [full[i:] + full[:i] for i in range(1, 21)]
    reqs += orders
    if tier == "thorough":
        for i, j in itertools.combinations(range(21), 2):                      # all 210 transpositions of the full order
            o = list(full)
            o[i], o[j] = o[j], o[i]
            reqs.append(o)
    return reqs


def explore(ctx):
    ctx.rule = ("mode B: a state is an ordered request list over the 21 keys (a step appends a key); enumerated: every ordered "
                "sequence of length <=2 (<=3 thorough), the 21 complements, the full set in 22 orders (+210 transpositions "
                "thorough), x 9 axial-strain fields, + volume grids of 1 / 3 / 5 points (3 makes the strain array square) x 6 fields incl. integer dtype and equal strains of varying magnitude (incl. two positive fields that are not normalised to sum 1, two nearly-equal ones at 1e-9 and 1e-13 sitting on the task de-duplication edge, two equal fractions, e1=(e2+e3)/2), the full set under all 6 axis relabellings x 7 fields; ONE task-list object resolved and calculated twice or three times with different strain fields / key sets (every result equal to a fresh list's); thorough adds "
                "all 2^15 subsets of the shear keys with and without the 6 non-shear keys; every request is resolved and "
                "calculated on the real task list; oracles: completeness, dependency order, sam_ref value, equality of each "
                "key's value across ALL explored requests of the same strain field (merging histories only after the "
                "values were compared), isotropy, covariance; non-trivial = request contains a shear key with dependencies")
    ctx.assumptions = ["duck-typed calculator exposes the attributes named in the property", "LAPACK eigenvectors: frames are taken from the implementation after validation",
                       "request orders beyond those enumerated are covered only through the cone-independence premise checked on every execution"]
    cases = []
    for s in STRAINS:
        for r in requests(ctx.tier):
            cases.append({"keys": [list(p) for p in r], "strain": s, "isotropy": s in ("thirds", "ones") and len(r) == 21})
        for perm in PERMS[1:]:
            cases.append({"keys": [list(p) for p in PAIRS], "strain": s, "perm": list(perm)})
    # volume-grid lengths (3 makes the (ntv,3) strain array square) x strain fields incl. integer dtype and equal strains of
    # varying magnitude; full request, two sub-requests, two axis relabellings
    for vg in ([280.0, 320.0, 301.0], [280.0, 320.0, 301.0, 264.0, 250.0], [300.0]):
        for s in ("field", "raw", "int", "int-equal", "equal-varying", "mixed-rows"):
            iso_flag = s in ("int-equal", "equal-varying")
            cases.append({"keys": [list(p) for p in PAIRS], "strain": s, "spec": {"vgrid": vg}, "isotropy": iso_flag})
            cases.append({"keys": [[1, 1], [1, 2], [4, 4]], "strain": s, "spec": {"vgrid": vg}})
            cases.append({"keys": [[4, 6], [1, 1], [2, 2]], "strain": s, "spec": {"vgrid": vg}})
            for perm in (PERMS[1], PERMS[4]):
                cases.append({"keys": [list(p) for p in PAIRS], "strain": s, "spec": {"vgrid": vg}, "perm": list(perm)})
    if not ctx.quick:
        for s in ("field",):
            for L in (3,):
                for r in itertools.permutations(PAIRS, L):
                    cases.append({"keys": [list(p) for p in r], "strain": s})
        for mask in range(1, 2 ** 15):
            sub = [SHEAR[i] for i in range(15) if mask >> i & 1]
            cases.append({"keys": [list(p) for p in sub], "strain": "field"})
            cases.append({"keys": [list(p) for p in NONSHEAR + sub], "strain": "field"})
    results = ctx.run(MOD, "run_case", cases, part="requests", chunksize=8,
                      transitions=sum(len(c["keys"]) for c in cases))
    ctx.run_under(MOD, "run_case", [c for c in cases if len(c["keys"]) == 21][:3], ("-O",))
    keysets = [PAIRS, [(4, 4), (5, 6), (1, 1)], [(1, 5), (6, 6)], NONSHEAR]
    steps = [(s, [list(p) for p in ks]) for s in ("const", "thirds", "field", "two-equal") for ks in keysets]
    reuse = [{"steps": [a, b]} for a in steps for b in steps]
    if not ctx.quick:
        reuse += [{"steps": [a, b, a]} for a in steps[:8] for b in steps[:8]]
    ctx.run(MOD, "run_reuse", reuse, part="task-list-reuse", chunksize=4, transitions=sum(len(c["steps"]) for c in reuse))
    # request independence across all explored histories (differential oracle), per strain field
    first = {}
    merged = set()
    ndiff = 0
    for c, r in zip(cases, results):
        if "vals" not in r:
            continue
        if c.get("perm") is None:
            merged.add((c["strain"], repr(sorted(c.get("spec", {}).items())), frozenset(tuple(p) for p in c["keys"])))
        for k, (iso, adi) in r["vals"].items():
            pair = (int(k[0]), int(k[1]))
            if c.get("perm") is not None:
                pair0 = permute_pair(pair, c["perm"])     # component of the un-relabelled tensor
                sig = "c04:axis-relabelling"
            else:
                pair0 = pair
                sig = "c04:request-dependence"
            slot = (c["strain"], repr(sorted(c.get("spec", {}).items())), pair0)
            arr = numpy.array([iso, adi])
            if slot not in first:
                first[slot] = (arr, c)
                continue
            ref, c0 = first[slot]
            if not numpy.all(numpy.abs(arr - ref) <= DIFF_TOL * r["scale"]):
                ndiff += 1
                if ndiff <= 50:
                    kind = "shear" if pair0[1] >= 4 else "nonshear"
                    ctx.violations.append((
                        {"pair": [c0, c], "kind": "differential"},
                        V(f"{sig}:{kind}:{c['strain']}", f"c{pair0[0]}{pair0[1]} differs by {float(numpy.abs(arr - ref).max() / r['scale']):.2e} of scale between request {c0['keys'][:4]}..(perm {c0.get('perm')}) and {c['keys'][:4]}..(perm {c.get('perm')}), strain {c['strain']}"),
                        MOD, "run_pair"))
    ctx.states = len(merged) + sum(1 for c in cases if c.get("perm") is not None)
    ctx.notes["histories"] = len(cases)
    ctx.notes["states_after_merging_orders"] = len(merged)
    ctx.notes["max_tasks"] = max([r.get("ntasks", 0) for r in results] or [0])


def run_pair(case):
    """Replay of a differential violation: both requests, compare the shared keys."""
    c0, c1 = case["pair"]
    r0, r1 = run_case(c0), run_case(c1)
    viol = list(r0["viol"]) + list(r1["viol"])
    for k, (iso, adi) in r1.get("vals", {}).items():
        pair = (int(k[0]), int(k[1]))
        p0 = permute_pair(pair, c1["perm"]) if c1.get("perm") is not None else pair
        q0 = None
        for k0 in r0.get("vals", {}):
            pk = (int(k0[0]), int(k0[1]))
            pk0 = permute_pair(pk, c0["perm"]) if c0.get("perm") is not None else pk
            if pk0 == p0:
                q0 = k0
        if q0 is None:
            continue
        a = numpy.array(r0["vals"][q0])
        b = numpy.array([iso, adi])
        if not numpy.all(numpy.abs(a - b) <= DIFF_TOL * r1["scale"]):
            sig = "c04:axis-relabelling" if (c1.get("perm") is not None or c0.get("perm") is not None) else "c04:request-dependence"
            kind = "shear" if p0[1] >= 4 else "nonshear"
            viol.append(V(f"{sig}:{kind}:{c1['strain']}", f"c{p0[0]}{p0[1]} differs by {float(numpy.abs(a - b).max() / r1['scale']):.2e} of scale"))
    return {"viol": viol}


def selftest():
    from mc.ref import sam_ref
    return sam_ref.selftest()
