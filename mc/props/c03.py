"""C03 — the shear solver is exact tensor algebra (mode A, complete over a basis of the 21-dim tensor space)."""
import itertools

import numpy

from mc import duck as D
from mc.explore import V, HarnessError
from mc.ref import tensor_ref as R

ID = "C03"
MOD = "mc.props.c03"
TOL = 1e-9   # unit-free identity (DESIGN §5)

SHEAR_PAIRS = [(a, b) for a in range(1, 7) for b in range(a, 7) if b >= 4]
STRAINS = ["thirds", "const", "extreme", "field", "mixed-rows", "two-equal", "ones", "raw", "int"]
NTV = [2, 3, 1, 4, 0]      # number of strain rows (3 makes the (ntv,3) array square; 0 = a bare (3,) triple)
SCALES = [1.0, 1e-12, 1e-7, 1e9]      # the map is homogeneous: the same tensors on other numeric scales (Ry/bohr^3 values are ~1e-2..1e-12)
GENERIC = None


def generic_tensor():
    c6 = numpy.zeros((6, 6))
    for n, (a, b) in enumerate(R.PAIRS21):
        c6[a - 1, b - 1] = c6[b - 1, a - 1] = 10.0 + 7.0 * D._frac((n + 1) * D.GOLD) * (1 if n % 3 else -1)
    return c6


def own_fictitious_strain(std):
    i, j, k, l = [x - 1 for x in std]
    e = numpy.zeros((3, 3))
    e[i, j] = e[j, i] = 1.0
    e[k, l] = e[l, k] = 1.0
    return e


def comp(C, key):
    i, j, k, l = [x - 1 for x in key.standard]
    return C[i, j, k, l]


class CallerDataModified(Exception):
    pass


def soft_target_tensor(key):
    """generic tensor whose target component is small (0.43) next to longitudinal constants of ~300: the solver's result
    is a small difference of large numbers"""
    m = generic_tensor() * 300.0 / numpy.abs(generic_tensor()).max()
    i, j = key.voigt
    m[i - 1, j - 1] = m[j - 1, i - 1] = 0.43
    return m


def run_case(case):
    from cij.core.phonon_contribution.shear import ShearElasticModulusPhononContribution as Shear
    from cij.util import c_
    a, b = case["key"]
    spelling = case.get("keyspell", "c_")
    if spelling == "c_":
        key = c_(a, b)
    else:
        # the target key as a caller holding index arrays would build it: public classmethods with numpy integers
        from cij.util import C_
        from mc.ref import voigt_ref as VR
        std = [x for pair in (VR.V2S[a], VR.V2S[b]) for x in pair]
        key = {"from_voigt:np": lambda: C_.from_voigt(numpy.int64(a), numpy.int64(b)),
               "from_standard:np": lambda: C_.from_standard(*[numpy.int64(x) for x in std]),
               "create4:np": lambda: C_.create(*[numpy.int32(x) for x in std])}[spelling]()
    one_d = case.get("ntv", 2) == 0        # a bare (3,) triple instead of an (ntv,3) array
    v = numpy.array([280.0, 320.0, 301.0, 264.0][:max(case.get("ntv", 2), 1)])
    strain = D.strain_field(case["strain"], v)
    if one_d:
        strain = numpy.array(strain[0])
    viol = []
    try:
        obj = Shear(strain, key)
        T = numpy.asarray(obj.transformation_matrix)
        Drot = numpy.asarray(obj.fictitious_strain_rotated)
        keys = list(obj.get_modulus_keys())
        keys_rot = list(obj.get_modulus_keys_rotated())
        srot = numpy.asarray(obj.strain_rotated)
    except Exception as ex:
        return {"viol": [V(f"c03:raises:{type(ex).__name__}", f"c{a}{b}: setting up the solver raised {ex!r}")], "outcome": "raises"}
    complex_dtype = bool(numpy.iscomplexobj(T) or numpy.iscomplexobj(Drot) or numpy.iscomplexobj(srot))
    if complex_dtype:
        # a complex dtype with zero imaginary parts is not by itself a violation of C03 (C12 demands real results)
        if any(numpy.abs(numpy.imag(x)).max() > 0 for x in (T, Drot, srot)):
            return {"viol": [V("c03:frame:complex", f"c{a}{b}: rotated frame / strains have non-zero imaginary parts")], "outcome": "complex"}
        T, Drot, srot = numpy.real(T), numpy.real(Drot), numpy.real(srot)
    eps = own_fictitious_strain(key.standard)
    if not numpy.allclose(T.T @ T, numpy.eye(3), atol=1e-12):
        viol.append(V("c03:frame:not-orthonormal", f"c{a}{b}: T^T T != 1"))
    Dm = T.T @ eps @ T
    if not numpy.allclose(Dm, numpy.diag(numpy.diag(Dm)), atol=1e-12):
        viol.append(V("c03:frame:not-diagonalising", f"c{a}{b}: T^T eps T is not diagonal"))
    if not numpy.allclose(Drot, numpy.diag(numpy.diag(Dm)), atol=1e-12):
        viol.append(V("c03:frame:eigenvalues-mismatch", f"c{a}{b}: reported rotated strain {numpy.diag(Drot)} vs T^T eps T {numpy.diag(Dm)}"))
    if viol:
        return {"viol": viol, "outcome": "bad-frame"}
    if any(k == key for k in keys):
        viol.append(V("c03:keys:target-requested", f"c{a}{b}: the target is among the requested components"))
    if any(k.is_shear for k in keys_rot):
        viol.append(V("c03:keys:rotated-shear", f"c{a}{b}: a shear-type component is requested in the diagonalising frame: {keys_rot}"))
    # rotated strains = diag(T^T diag(e) T), trace preserved
    exp = numpy.stack([numpy.diag(T.T @ numpy.diag(e) @ T) for e in numpy.atleast_2d(strain)])
    if one_d:
        exp = exp[0]
    if srot.shape != exp.shape or not numpy.allclose(srot, exp, rtol=0, atol=1e-12):
        viol.append(V("c03:strain-rotated", f"c{a}{b}: rotated axial strains {srot.tolist()} expected {exp.tolist()}"))
    elif not numpy.allclose(srot.sum(axis=-1), numpy.asarray(strain).sum(axis=-1), atol=1e-12):
        viol.append(V("c03:strain-trace", f"c{a}{b}: trace of axial strains not preserved"))

    from cij.util import c_ as _cc
    ALL21 = [_cc(a2, b2) for a2, b2 in R.PAIRS21]

    def solve(o, C6, Tm, present="asked"):
        """present: how the caller's dictionaries are laid out - the asked keys in the asked order, reversed, sorted by Voigt
        pair, or all 21 components (a caller may hand over the whole tensor; only the asked keys may be used)"""
        C = R.full_from_voigt(C6)
        Cr = R.rotate(C, Tm)
        k1, k2 = list(o.get_modulus_keys()), list(o.get_modulus_keys_rotated())
        if present == "reversed":
            k1, k2 = k1[::-1], k2[::-1]
        elif present == "sorted":
            k1, k2 = sorted(set(k1), key=lambda k: tuple(k.voigt)), sorted(set(k2), key=lambda k: tuple(k.voigt))
        elif present == "all21":
            k1, k2 = [k for k in ALL21 if k != key], list(ALL21)
        elif present == "all21-reversed":
            k1, k2 = [k for k in ALL21[::-1] if k != key], ALL21[::-1]
        o.modulus = {k: numpy.array([comp(C, k)]) for k in k1}
        o.modulus_rotated = {k: numpy.array([comp(Cr, k)]) for k in k2}
        got = numpy.asarray(o.get_target_elastic_modulus()).ravel()[0]
        if numpy.iscomplexobj(got) and abs(got.imag) > 0:
            raise ValueError(f"complex result {got!r}")
        return float(numpy.real(got)), comp(C, key)

    worst = 0.0
    n_eval = 0
    basis = [R.unit_tensor(p) for p in R.PAIRS21]
    tensors = [(f"E{p}", m) for p, m in zip(R.PAIRS21, basis)]
    tensors += [(f"E{R.PAIRS21[i]}+E{R.PAIRS21[j]}", basis[i] + basis[j]) for i, j in itertools.combinations(range(21), 2)]
    tensors.append(("generic", generic_tensor()))
    for sc in SCALES[1:]:
        tensors += [(f"{sc:g}*E{p}", sc * m) for p, m in zip(R.PAIRS21, basis)] + [(f"{sc:g}*generic", sc * generic_tensor())]
    for name, C6 in tensors:
        try:
            got, want = solve(obj, C6, T)
        except CallerDataModified as ex:
            viol.append(V("c03:caller-dictionary-modified", f"c{a}{b} on {name}: {ex}"))
            break
        except Exception as ex:
            viol.append(V(f"c03:solve-raises:{type(ex).__name__}", f"c{a}{b} on {name}: {ex!r}"))
            break
        n_eval += 1
        err = abs(got - want)
        worst = max(worst, err)
        if not err <= TOL * numpy.abs(C6).max():
            viol.append(V("c03:inexact", f"c{a}{b} on tensor {name}: solver returned {got!r}, exact component {want!r}"))
            if len(viol) > 4:
                break
    # the result must not depend on how the caller lays out the dictionaries of known components
    for present in ("reversed", "sorted", "all21", "all21-reversed"):
        for name, C6 in tensors[:21] + tensors[231:232]:
            try:
                got, want = solve(obj, C6, T, present)
            except Exception as ex:
                viol.append(V(f"c03:dict-layout:raises:{type(ex).__name__}", f"c{a}{b} on {name}, dictionaries laid out '{present}': {ex!r}"))
                break
            n_eval += 1
            if not abs(got - want) <= TOL * numpy.abs(C6).max():
                viol.append(V(f"c03:dict-layout:{present}", f"c{a}{b} on tensor {name} with the known components supplied '{present}': solver returned {got!r}, exact component {want!r}"))
                break
    # ONE dictionary holding the whole tensor serves several solver objects one after the other (a caller that keeps the
    # crystal-frame components in a single mapping): each solver must still return its exact component
    Cg = R.full_from_voigt(generic_tensor())
    for first in SHEAR_PAIRS:
        if tuple(first) == (a, b):
            continue
        shared = {k: numpy.array([comp(Cg, k)]) for k in ALL21}
        try:
            results = []
            for kk in (c_(*first), key):
                o = Shear(strain, kk)
                Tm = numpy.real(numpy.asarray(o.transformation_matrix))
                Crot = R.rotate(Cg, Tm)
                o.modulus = shared
                o.modulus_rotated = {k: numpy.array([comp(Crot, k)]) for k in ALL21}
                results.append((kk, float(numpy.real(numpy.asarray(o.get_target_elastic_modulus()).ravel()[0]))))
        except Exception as ex:
            viol.append(V(f"c03:shared-dictionary:raises:{type(ex).__name__}", f"c{first[0]}{first[1]} then c{a}{b} on one dictionary of the whole tensor: {ex!r}"))
            break
        n_eval += 2
        bad = [(kk, g) for kk, g in results if not abs(g - comp(Cg, kk)) <= TOL * numpy.abs(generic_tensor()).max()]
        if bad:
            kk, g = bad[0]
            viol.append(V("c03:shared-dictionary", f"solvers for c{first[0]}{first[1]} then c{a}{b} fed from ONE dictionary of the whole tensor: {kk!r} came out as {g!r}, exact component {comp(Cg, kk)!r}"))
            break
    # storage precision of the supplied components: the same VALUES handed over as float32 / float16 arrays must give
    # the result of the float64 arrays holding those values (the solver works in double precision whatever the storage)
    def solve_stored(o, C6, Tm, dt):
        C = R.full_from_voigt(C6)
        Cr = R.rotate(C, Tm)
        k1, k2 = list(o.get_modulus_keys()), list(o.get_modulus_keys_rotated())
        m1 = {k: numpy.array([comp(C, k)]).astype(dt) for k in k1}
        m2 = {k: numpy.array([comp(Cr, k)]).astype(dt) for k in k2}
        out = []
        for cast in (lambda x: x, lambda x: x.astype(numpy.float64)):
            o.modulus = {k: cast(x) for k, x in m1.items()}
            o.modulus_rotated = {k: cast(x) for k, x in m2.items()}
            out.append(float(numpy.real(numpy.asarray(o.get_target_elastic_modulus()).ravel()[0])))
        return out
    for dt in (numpy.float32, numpy.float16):
        for name, C6 in tensors[:21] + [("generic", generic_tensor()), ("soft-target", soft_target_tensor(key))]:
            try:
                g_stored, g_f64 = solve_stored(obj, C6, T, dt)
            except Exception as ex:
                viol.append(V(f"c03:storage-dtype:raises:{type(ex).__name__}", f"c{a}{b} on {name} stored as {numpy.dtype(dt).name}: {ex!r}"))
                break
            n_eval += 1
            if not abs(g_stored - g_f64) <= 1e-12 * numpy.abs(C6).max():
                viol.append(V(f"c03:storage-dtype:{numpy.dtype(dt).name}", f"c{a}{b} on tensor {name}: components stored as {numpy.dtype(dt).name} give {g_stored!r}, the same values stored as float64 give {g_f64!r}"))
                break
    # every sign pattern and column order of the frame: same pairing (eigenvalue <-> fraction), same result
    subst = 0
    exp2 = numpy.atleast_2d(exp)
    base_pairs = sorted((round(float(Dm[i, i]), 9), tuple(numpy.round(exp2[:, i], 10))) for i in range(3))
    for perm in itertools.permutations(range(3)):
        for signs in itertools.product((1.0, -1.0), repeat=3):
            T2 = T[:, list(perm)] * numpy.array(signs)[None, :]
            o2 = Shear(strain, key)
            o2._transformation_matrix = T2
            o2._fictitious_strain_rotated = numpy.diag(numpy.diag(Dm)[list(perm)])
            if not (numpy.array_equal(numpy.asarray(o2.transformation_matrix), T2)):
                continue   # substitution seam not available (cache naming changed): skip, do not alarm
            subst += 1
            s2 = numpy.atleast_2d(numpy.asarray(o2.strain_rotated))
            pairs = sorted((round(float(numpy.diag(Dm)[perm[i]]), 9), tuple(numpy.round(s2[:, i], 10))) for i in range(3))
            if pairs != base_pairs:
                viol.append(V("c03:frame-convention:pairing", f"c{a}{b}: with column order {perm} signs {signs} the (eigenvalue, fraction) pairs change"))
                break
            got, want = solve(o2, generic_tensor(), T2)
            if not abs(got - want) <= TOL * 20:
                viol.append(V("c03:frame-convention:result", f"c{a}{b}: with column order {perm} signs {signs} result {got!r} != {want!r}"))
                break
    return {"viol": viol, "nontrivial": n_eval > 0, "outcome": f"ok/nkeys{len(set(keys))}+{len(set(keys_rot))}" if not viol else viol[0]["sig"],
            "worst": worst, "evals": n_eval, "subst": subst}


def explore(ctx):
    ctx.rule = ("15 shear-type keys x 9 axial-strain fields x 1-4 strain rows (3 rows make the array square; 0 rows = a bare (3,) triple; one field has integer dtype), target key also built through the public classmethods from numpy integers (incl. a hydrostatic row among anisotropic rows, two equal fractions, un-normalised triples (1,1,1), (0.9,1,1.2), (2,3,7)); all ordered pairs of solver objects fed from ONE dictionary holding the whole tensor (each must still be exact); known components handed over in 5 dictionary layouts and in float32 / float16 storage (same values as float64: same result) (asked order, reversed, sorted, all 21 components in two orders); each case "
                "runs the solver on the 21 unit tensors, all 210 pairwise sums (linearity is tested, not assumed) and one generic tensor, the "
                "unit and generic tensors also on the numeric scales 1e-12, 1e-7, 1e9 (homogeneity), with exact components supplied "
                "from an independent einsum rotation; plus all 48 sign/column-order variants of the frame; complete in "
                "both tiers; non-trivial = solver evaluated at least once")
    ctx.assumptions = ["numpy einsum/LAPACK", "frame taken from the implementation only after checking it is a real orthonormal eigenbasis of the key's fictitious strain"]
    cases = [{"key": list(k), "strain": s, "ntv": 2} for k in SHEAR_PAIRS for s in STRAINS]
    cases += [{"key": list(k), "strain": s, "ntv": n} for k in SHEAR_PAIRS for s in ("field", "raw", "int", "mixed-rows") for n in NTV[1:]]
    cases += [{"key": list(k), "strain": "field", "ntv": 2, "keyspell": sp} for k in SHEAR_PAIRS for sp in ("from_voigt:np", "from_standard:np", "create4:np")]
    res = ctx.run(MOD, "run_case", cases, part="basis-exactness", transitions=len(cases) * (232 + 66))
    ctx.notes["solver_evaluations"] = sum(r.get("evals", 0) for r in res)
    ctx.notes["frame_substitutions"] = sum(r.get("subst", 0) for r in res)
    ctx.notes["worst_abs_error"] = max([r.get("worst", 0.0) for r in res] or [0.0])


def selftest():
    return R.selftest()
