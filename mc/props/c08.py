"""C08 — packaged symmetry relations = Laue-class invariants; fill returns the invariant tensor (mode A, exact).

Part 1 (subspaces, exact, complete in both tiers).  For each of the nine systems the relation file of the tree
under test ($VERIF_REPO/cij/data/constraints/<system>) is parsed by the reference's own parser
(mc.ref.laue_ref.parse_relations) into exact linear equations A x = 0 and compared with the subspace of
tensors invariant under the rotation group of the Laue class (closed by BFS from its generators, exact
matrices over Q(sqrt 3)):
  (subset)   every basis vector n of null(A) satisfies M(g) n = n for EVERY group element g;
  (superset) the Reynolds average of EVERY one of the 21 unit tensors satisfies EVERY packaged relation;
  (dim)      nullity(A) = rank(Reynolds projector) = 21/13/9/7/6/7/6/5/3.

Part 2 (fill).  For each system, every SUFFICIENT subset S of its non-vanishing components (sufficiency
decided by laue_ref.rank_table: rank of the coordinate projection of the invariant subspace, never by
fill_cij) x n_V in {1,2,5}: the real `fill_cij(table, system)` on the table [V, S-columns of an invariant
tensor generated from independent parameters] must return that invariant tensor.

Every table is presented with three kinds of ROW LABELS (the oracle is positional: row k of the result is the
invariant tensor at the k-th volume of the table as passed; V untouched): the default RangeIndex; labels n-1..0
(what `table.sort_values("V")` leaves behind); offset, non-contiguous labels (a row selection `big.iloc[[1,3,4,..]]`).

Part 3.  `apply_symetry_on_elast_data(data, symmetry)` on ElastData objects: minimal sufficient sets and full
non-vanishing sets of all systems, symmetry = {"system": s} and the full default key set.

Part 4 (mode B).  Histories (depth <= 3, thorough 4) over {apply(dictA, table1), apply(dictA, table2),
apply(dictB, table1), fill_cij(table1)} where dictA = {"system": s} and dictB = the full default key set are dict
OBJECTS shared by all operations of a history (as one settings object applied to several tables in a session); after
EVERY operation the result must be the invariant tensor.  A changed settings dict is not a violation by itself (C08
does not state it); it is mentioned in the message of the wrong result it causes.

Tolerance (DESIGN §5, unit-free identity): |got - want| <= 1e-9*scale + 1e-12*scale, scale = largest |component|
of the expected tensor.  The non-modulus column V must come back bit-identical.
"""
from __future__ import annotations

import contextlib
import os
import shutil
import tempfile

import numpy

from mc.explore import V, HarnessError, repo_root
from mc.ref import laue_ref as L

ID = "C08"
MOD = "mc.props.c08"
RTOL = 1e-9
ATOL_REL = 1e-12
NVS = (1, 2, 5)
SMALL_SYSTEMS = ("cubic", "hexagonal", "tetragonal6", "orthorhombic")
DEFAULT_SYMMETRY = {"ignore_residuals": False, "ignore_rank": False, "drop_atol": 1.0e-8, "residual_atol": 0.1}


# --------------------------------------------------------------------------- shared helpers (also used by C09)

@contextlib.contextmanager
def scratch_cwd(prefix="c08-"):
    """an empty scratch directory under /dev/shm as the working directory; removed afterwards"""
    old = os.getcwd()
    d = tempfile.mkdtemp(prefix=prefix, dir="/dev/shm")
    os.chdir(d)
    try:
        yield d
    finally:
        os.chdir(old)
        shutil.rmtree(d, ignore_errors=True)


def relations_path(system):
    return os.path.join(repo_root(), "cij", "data", "constraints", system)


def packaged_relations(system):
    """own parse of the relation file of the tree under test -> list of (row of 21 Fractions, source line)"""
    p = relations_path(system)
    try:
        with open(p) as fp:
            text = fp.read()
    except OSError as e:
        raise HarnessError(f"cannot read the packaged relation file {p}: {e}")
    try:
        return L.parse_relations(text, where=p)
    except L.LaueRefError as e:
        raise HarnessError(f"the reference parser does not understand {p}: {e}")


SHAPES = ("smooth", "dip")
DROPS = (1e-8, 0.1, 1.0)
DIP = 0.04        # |value| at the dip volume: <= drop_atol/2 for drop_atol in {0.1, 1.0}, >> 1e-8


def dip_row(nv):
    return min(1, nv - 1)


WHOLE = (426, 97, 112, 181, 468, 124, 159, 393, 271, 128, 123, 205, 134, 187, 236, 199, 275, 344, 283, 306, 267)


def param_values(system, nv, ints=False, small=False, shape="smooth"):
    """nv lists of d independent parameters (values of the pivot components of laue_ref.invariant_basis).
    floats: distinct non-integer values, all different, varying with volume at parameter-specific rates;
    ints: even integers (so that (c11-c12)/2 is an integer too); ints == "whole": generic whole numbers (see WHOLE);
    small: the LAST parameter lies in [0.31, 0.47] at every volume (used by C09 with drop_atol = 1.0);
    shape "dip": components that are RETAINED but pass within drop_atol of zero at exactly one volume (dip_row):
      the last independent parameter (a diagonal shear constant, with its dependents c55/c66 where the class has
      them) runs 3.0 ... 0.04 ... -2.7 (crosses zero), and c12 = c11 - 0.08 at that volume, so that the GENERATED
      c66 = (c11 - c12)/2 of the hexagonal/trigonal classes is 0.04 there and O(10) elsewhere.  (ints: 4, 0, -4 and
      c12 = c11.)  With one volume only, these components are below drop_atol at ALL volumes and must be omitted."""
    if shape not in SHAPES:
        raise HarnessError(f"unknown value shape {shape}")
    d = L.dimension(system)
    out = []
    for i in range(nv):
        row = []
        for k in range(d):
            if ints == "whole":
                # whole-number tables as printed by a DFT post-processing script (odd and even values such as 271, 468,
                # 123): a least-squares solve returns many of them one ulp below/above the integer
                row.append(float(WHOLE[k] + i * (11 + 3 * k) + (i * i * (k + 2)) % 7))
            elif ints:
                row.append(float(2 * (150 - 6 * k + (k * k) % 5) + 2 * i * (k + 2)))
            else:
                row.append(310.37 - 12.83 * k + 0.3713 * ((k * k) % 7) + (3.17 + 0.77 * k) * i + 0.0531 * i * i)
        if ints == "whole" and (row[0] - row[1]) % 2:
            row[1] += 1.0         # c66 = (c11 - c12)/2 is then a whole number too (it may be a supplied integer column)
        if small and not ints:
            row[-1] = 0.31 + 0.04 * i
        if shape == "dip":
            k = dip_row(nv)
            if ints:
                row[-1] = float(4 * (k - i))
            else:
                row[-1] = 3.0 if i < k else (DIP if i == k else -2.7 - 0.1 * i)
            if i == k:
                row[1] = row[0] - (0.0 if ints else 2 * DIP)
        out.append(row)
    return out


def expected_tensor(system, nv, ints=False, small=False, shape="smooth"):
    """(21, nv) float array: the invariant tensor at every volume"""
    cols = [L.tensor_from_params(system, p) for p in param_values(system, nv, ints, small, shape)]
    return numpy.array(cols, dtype=float).T


def expected_presence(E, drop):
    """a component is omitted iff it is below drop_atol at ALL volumes.  The generated values stay a factor 2 away
    from the threshold (otherwise the harness is wrong, not the tree)."""
    mx = numpy.abs(E).max(axis=1)
    for j in range(21):
        if mx[j] != 0 and drop / 2 < mx[j] < 2 * drop:
            raise HarnessError(f"component {L.NAMES[j]} has max |value| {mx[j]} within a factor 2 of drop_atol {drop}")
    return mx > drop


def volumes(nv, ints=False):
    if ints:
        return numpy.array([100 - 7 * i for i in range(nv)], dtype=numpy.int64)
    return numpy.array([100.25 - 7.5 * i for i in range(nv)], dtype=float)


def fold_columns(df):
    """{lower-cased column name: column values}, list of names that collide after lower-casing"""
    out, dup = {}, []
    for name in df.columns:
        key = str(name).lower()
        if key in out:
            dup.append(key)
            continue
        col = df[name]
        if hasattr(col, "columns"):      # duplicate labels give a frame
            dup.append(key)
            col = col.iloc[:, 0]
        out[key] = col.to_numpy()
    return out, dup


def is_modulus_name(name):
    return str(name).lower() in L.INDEX


def check_invariant_result(system, S, E, vin, res, viol, tag, note="", drop=1e-8):
    """`res` (DataFrame returned by the real code) against the invariant tensor E (21, nv).
    S: supplied component indices; vin: the V column passed in."""
    import pandas
    nv = E.shape[1]
    scale = float(numpy.abs(E).max())
    tol = RTOL * scale + ATOL_REL * scale
    if not isinstance(res, pandas.DataFrame):
        viol.append(V(f"{tag}:{system}:not-a-table", f"{system} S={names(S)}: result is {type(res).__name__}"))
        return
    if len(res) != nv:
        viol.append(V(f"{tag}:{system}:row-count", f"{system} S={names(S)}: {len(res)} rows returned for {nv} volumes"))
        return
    cols, dup = fold_columns(res)
    if dup:
        viol.append(V(f"{tag}:{system}:duplicate-columns", f"{system} S={names(S)}: columns {dup} occur more than once in {list(res.columns)}"))
    if "v" not in cols:
        viol.append(V(f"{tag}:{system}:V-missing", f"{system} S={names(S)}: column V is missing from {list(res.columns)}"))
    elif not (cols["v"].dtype == vin.dtype and numpy.array_equal(cols["v"], vin)):
        viol.append(V(f"{tag}:{system}:V-changed", f"{system} S={names(S)}: V came back as {cols['v'].tolist()} (was {vin.tolist()})"))
    nvn = set(L.nonvanishing(system))
    keep = expected_presence(E, drop)
    for name in cols:
        if name != "v" and name not in L.INDEX:
            viol.append(V(f"{tag}:{system}:unexpected-column", f"{system} S={names(S)}: unexpected column {name!r}"))
    for j, name in enumerate(L.NAMES):
        if j in nvn and not keep[j] and (name not in cols or L.dimension(system) < 21):
            # omission by drop_atol.  Not asserted for a system WITHOUT relations (triclinic): there the tree returns the
            # table before its drop step, which is C09's recorded finding F10 (c09:*below-drop-atol-present:no-relations);
            # C09 asserts and reports it, C08 does not report the same defect a second time.  Values are still checked.
            if name in cols:
                viol.append(V(f"{tag}:{system}:below-drop-atol-present",
                              f"{system} S={names(S)} nV={nv}{note}: {name} = {E[j].tolist()} is below drop_atol={drop} at all volumes "
                              f"but present with values {numpy.asarray(cols[name]).tolist()}"))
        elif j in nvn:
            if name not in cols:
                viol.append(V(f"{tag}:{system}:missing-component",
                              f"{system} S={names(S)} nV={nv}{note}: non-vanishing component {name} is absent from {list(res.columns)}"))
                continue
            got = numpy.asarray(cols[name], dtype=float)
            err = numpy.abs(got - E[j])
            if not numpy.all(err <= tol):
                i = int(numpy.argmax(err))
                kind = "supplied-changed" if j in S else "dependent-wrong"
                ratio = got[i] / E[j, i] if E[j, i] else float("nan")
                viol.append(V(f"{tag}:{system}:{kind}",
                              f"{system} S={names(S)} nV={nv}{note}: {name} at volume {i} is {float(got[i])!r}, invariant tensor has {float(E[j, i])!r} "
                              f"(ratio {ratio:.6g}, tolerance {tol:.3g})"))
        elif name in cols:
            viol.append(V(f"{tag}:{system}:vanishing-present",
                          f"{system} S={names(S)} nV={nv}{note}: component {name} vanishes in this class but column is present "
                          f"with values {numpy.asarray(cols[name]).tolist()}"))


def names(S):
    return [L.NAMES[j] for j in S]


def dedupe(viol, per_sig=2):
    seen, out = {}, []
    for v in viol:
        seen[v["sig"]] = seen.get(v["sig"], 0) + 1
        if seen[v["sig"]] <= per_sig:
            out.append(v)
    return out


# --------------------------------------------------------------------------- part 1

def run_subspace(case):
    import sympy
    s = case["system"]
    viol = []
    eqs = packaged_relations(s)
    A = L.relations_matrix(eqs)
    ns = L.relations_nullspace(eqs)
    els, _ = L.group(s)
    acts = L.actions(s)
    P = L.reynolds(s)
    d = L.dimension(s)
    if d != L.EXPECTED_DIM[s] or len(els) != L.EXPECTED_ORDER[s]:
        raise HarnessError(f"reference group of {s}: order {len(els)}, dimension {d}")
    checks = 0
    # (subset): relations-subspace inside the invariant subspace, every element x every basis vector
    bad = 0
    for gi, M in enumerate(acts):
        for n in ns:
            checks += 1
            img = (M * n).applyfunc(sympy.expand)
            if img != n:
                bad += 1
                if bad <= 2:
                    comp = {L.NAMES[k]: str(n[k]) for k in range(21) if n[k] != 0}
                    moved = {L.NAMES[k]: f"{n[k]} -> {img[k]}" for k in range(21) if img[k] != n[k]}
                    viol.append(V(f"c08:relations:{s}:not-invariant",
                                  f"{s}: the tensor {comp} satisfies every packaged relation but is changed by the rotation "
                                  f"{[[str(x) for x in els[gi].row(r)] for r in range(3)]} of the Laue class: {moved}"))
    # (superset): Reynolds average of every unit tensor satisfies every relation
    bad = 0
    for q in range(21):
        avg = P[:, q]
        for r in range(A.rows):
            checks += 1
            val = sympy.expand((A[r, :] * avg)[0, 0])
            if val != 0:
                bad += 1
                if bad <= 2:
                    comp = {L.NAMES[k]: str(avg[k]) for k in range(21) if avg[k] != 0}
                    viol.append(V(f"c08:relations:{s}:invariant-tensor-violates-relation",
                                  f"{s}: the invariant tensor {comp} (group average of unit tensor {L.NAMES[q]}) violates the packaged "
                                  f"relation `{eqs[r][1]}` (equation {r}: residual {val})"))
    if len(ns) != d:
        viol.append(V(f"c08:relations:{s}:dimension",
                      f"{s}: the packaged relations leave {len(ns)} free components, the Laue class has {d}"))
    return {"viol": viol, "outcome": f"subspace:{s}:order{len(els)}:dim{len(ns)}", "key": f"subspace:{s}",
            "checks": checks, "order": len(els), "dim": d, "nrel": A.rows, "nullity": len(ns)}


# --------------------------------------------------------------------------- part 2

ROWS = ("default", "reversed", "offset")


def relabel_rows(table, mode):
    """The same table by POSITION (same rows, same order, same dtypes) with other row labels, produced by the
    pandas operations that give such labels in practice:
      reversed  rows stored in ascending V, then sort_values("V", ascending=False): labels n-1..0
      offset    two filler rows at positions 0 and 2 of a larger table, then a row selection .iloc[[1,3,4,..]]:
                labels 1,3,4,..,n+1 (offset and non-contiguous)"""
    import pandas
    n = len(table)
    if mode == "default":
        out = table
    elif mode == "reversed":
        v = table["V"].to_numpy()
        if n > 1 and not numpy.all(numpy.diff(v) < 0):
            raise HarnessError("relabel_rows: V must be strictly descending")
        big = table.iloc[::-1].reset_index(drop=True)
        out = big.sort_values("V", ascending=False)
    elif mode == "offset":
        sel = [1] + list(range(3, n + 2))
        src = [0, 0, 0] + list(range(1, n))          # position -> source row of `table`; 0 and 2 are fillers
        big = table.iloc[src].reset_index(drop=True)
        for col in big.columns:                       # fillers carry other numbers (same dtype)
            arr = big[col].to_numpy().copy()
            arr[0] = arr[0] + 1000
            arr[2] = arr[2] + 2000
            big[col] = arr
        out = big.iloc[sel]
    else:
        raise HarnessError(f"unknown row label mode {mode}")
    if len(out) != n or list(out.columns) != list(table.columns):
        raise HarnessError("relabel_rows changed the shape")
    for col in table.columns:
        a, b = out[col].to_numpy(), table[col].to_numpy()
        if a.dtype != b.dtype or not numpy.array_equal(a, b):
            raise HarnessError(f"relabel_rows changed the content of {col}")
    if mode != "default" and n > 1 and list(out.index) == list(range(n)):
        raise HarnessError("relabel_rows left the default labels")
    return out


CASES = ("lower", "upper", "mixed")     # column spelling: c11 / C11 / only the VANISHING components in upper case


COLORDERS = ("o0", "o1", "o2")           # order of the component columns: as listed / reversed / rotated by half


def column_order(S, order):
    S = list(S)
    if order == "o0":
        return S
    if order == "o1":
        return S[::-1]
    if order == "o2":
        k = max(1, len(S) // 2)
        return S[k:] + S[:k]
    raise HarnessError(f"unknown column order {order}")


def build_table(system, S, E, nv, ints=False, case="lower", order="o0"):
    import pandas
    if case not in CASES:
        raise HarnessError(f"unknown letter case {case}")
    nvn = set(L.nonvanishing(system))
    data = {"V": volumes(nv, ints)}
    for j in column_order(S, order):
        name = L.NAMES[j]
        if case == "upper" or (case == "mixed" and j not in nvn):
            name = name.upper()
        data[name] = E[j].astype(numpy.int64) if ints else E[j].copy()
    return pandas.DataFrame(data)


def vanishing(system):
    nvn = set(L.nonvanishing(system))
    return [j for j in range(21) if j not in nvn]


def with_vanishing(system, S, z):
    """supplied components + vanishing ones supplied AS ZEROS (consistent data; they add no information):
    z = none | zeros (all of them) | zero-one (the first one only)"""
    van = vanishing(system)
    if z == "none" or not van:
        return list(S)
    if z == "zeros":
        return sorted(list(S) + van)
    if z == "zero-one":
        return sorted(list(S) + van[:1])
    raise HarnessError(f"unknown z {z}")


def fill_variants(system, extras):
    """(nV, row labels, value shape, drop_atol, supplied vanishing zeros, letter case[, working directory]) for one subset.
    Working directory: empty scratch directory (default), or "dir": it contains a DIRECTORY named like the system (a
    project laid out with one folder per phase).  A directory is not a relations file: the packaged relations apply.
    (A regular FILE of that name legitimately is a user relations file; that alphabet belongs to C09.)"""
    out = [(nv, rows, "smooth", DROPS[0], "none", "lower") for nv in NVS for rows in ROWS if not (rows == "reversed" and nv == 1)]
    if extras:
        out += [(2, "default", "smooth", DROPS[0], "none", "lower", "dir")]
        # integer-versus-float column type: whole-number tables in int64 columns (5 and 2 volumes), every system
        out += [(5, "default", "smooth", DROPS[0], "none", "lower", "empty", "int64"),
                (2, "reversed", "smooth", DROPS[0], "none", "upper", "empty", "int64")]
    if extras:
        out += [(2, "default", "dip", drop, "none", "lower") for drop in DROPS]
        out += [(nv, "default", "dip", 0.1, "none", "lower") for nv in (1, 5)]
        out += [(2, "default", "smooth", drop, "none", "lower") for drop in DROPS[1:]]
        out += [(2, "default", "smooth", DROPS[0], "none", "upper")]
        if vanishing(system):
            out += [(2, "default", "smooth", DROPS[0], z, "lower") for z in ("zeros", "zero-one")]
            # listed-as-zero vanishing components x letter case
            out += [(2, "default", "smooth", DROPS[0], "zeros", "upper"), (2, "default", "smooth", DROPS[0], "zeros", "mixed"),
                    (2, "default", "smooth", DROPS[0], "zero-one", "mixed")]
    return out


def run_fill(case):
    from cij.util.fill import fill_cij
    s, mask = case["system"], case["mask"]
    S0 = L.mask_to_subset(s, mask)
    if not L.is_sufficient(s, S0):
        raise HarnessError(f"{s}: mask {mask} is not sufficient")
    viol = []
    nfill = 0
    outcomes = set()
    with scratch_cwd():
        for nv, rows, shape, drop, z, lcase, *rest in fill_variants(s, case.get("extras", False)):
            cwd = rest[0] if rest else "empty"
            ints = len(rest) > 1 and rest[1] == "int64"
            E = expected_tensor(s, nv, shape=shape, ints="whole" if ints else False)
            S = with_vanishing(s, S0, z)
            table = relabel_rows(build_table(s, S, E, nv, case=lcase, ints=ints), rows)
            if ints and not all(str(table[c].dtype) == "int64" for c in table.columns):
                raise HarnessError("integer table was not built with int64 columns")
            vin = table["V"].to_numpy().copy()
            nfill += 1
            dev = ([f"rows-{rows}"] if rows != "default" else []) + ([shape] if shape != "smooth" else []) + \
                  ([f"drop{drop:g}"] if drop != DROPS[0] else []) + ([f"z-{z}"] if z != "none" else []) + \
                  ([f"case-{lcase}"] if lcase != "lower" else []) + ([f"cwd-{cwd}"] if cwd != "empty" else []) + \
                  (["int64"] if ints else [])
            tag = ":".join(["c08:fill"] + dev)
            kw = {} if drop == DROPS[0] else {"drop_atol": drop}
            note = f" row labels {list(table.index)}" + (f" value shape {shape}" if shape != "smooth" else "") + \
                   (f" drop_atol={drop}" if kw else "") + (f" with vanishing components supplied as 0 ({z})" if z != "none" else "") + \
                   (f" columns {list(table.columns)}" if lcase != "lower" else "") + \
                   (f" in a working directory that contains the directory ./{s}/" if cwd == "dir" else "") + \
                   (f" whole-number table in int64 columns, e.g. {names(S)[0]} = {table.iloc[:, 1].tolist()}" if ints else "")
            if cwd == "dir":
                os.mkdir(s)
            try:
                res = fill_cij(table.copy(), s, **kw)
            except BaseException as ex:
                if isinstance(ex, (KeyboardInterrupt, SystemExit)):
                    raise
                viol.append(V(f"{tag}:{s}:raises:{type(ex).__name__}",
                              f"fill_cij(table[V,{','.join(names(S))}], {s!r}{', drop_atol=%g' % drop if kw else ''}) with nV={nv},{note} raised "
                              f"{type(ex).__name__}: {str(ex)[:160]} although the supplied components determine the tensor"))
                outcomes.add("raises")
                continue
            finally:
                if cwd == "dir":
                    os.rmdir(s)
            n0 = len(viol)
            check_invariant_result(s, S, E, vin, res, viol, tag, note=note, drop=drop)
            outcomes.add("ok" if len(viol) == n0 else "wrong")
    return {"viol": dedupe(viol, 1), "outcome": f"fill:{s}:" + "+".join(sorted(outcomes)),
            "key": f"fill:{s}:{mask}", "nfill": nfill}


# --------------------------------------------------------------------------- part 3

def run_elastdata(case):
    from cij.io.traditional.elast_dat import ElastData, ElastVolumeData, apply_symetry_on_elast_data
    from cij.util import c_
    from collections import OrderedDict
    s, nv, mask = case["system"], case["nv"], case["mask"]
    z, shape, drop = case.get("z", "none"), case.get("shape", "smooth"), case.get("drop", DROPS[0])
    keyorder = case.get("keyorder", "same")
    cwd = case.get("cwd", "empty")
    ints = bool(case.get("ints"))
    S = L.mask_to_subset(s, mask)
    if not L.is_sufficient(s, S):
        raise HarnessError(f"{s}: mask {mask} is not sufficient")
    S = with_vanishing(s, S, z)
    E = expected_tensor(s, nv, shape=shape, ints="whole" if ints else False)
    vol = volumes(nv)
    symmetry = {"system": s}
    if case["full_keys"]:
        symmetry.update(DEFAULT_SYMMETRY)
    if drop != DROPS[0]:
        symmetry["drop_atol"] = drop
    data = make_elastdata(S, E, vol, keyorder, ints=ints)
    viol = []
    tag = (f"apply_symetry_on_elast_data(ElastData[{','.join(names(S))}] x {nv} volumes, {symmetry})"
           + (f" per-volume key order {keyorder}: {[names(key_order(S, i, keyorder))[:3] for i in range(nv)]}..." if keyorder != "same" else "")
           + (f" value shape {shape}" if shape != "smooth" else "") + (f" vanishing components listed as 0 ({z})" if z != "none" else "")
           + (" whole-number table of Python ints" if ints else ""))
    with scratch_cwd():
        if cwd == "dir":
            os.mkdir(s)
            tag += f" in a working directory that contains the directory ./{s}/"
        try:
            ret = apply_symetry_on_elast_data(data, dict(symmetry))
        except BaseException as ex:
            if isinstance(ex, (KeyboardInterrupt, SystemExit)):
                raise
            return {"viol": [V(f"c08:elastdata:{s}:raises:{type(ex).__name__}", f"{tag} raised {type(ex).__name__}: {str(ex)[:160]}")],
                    "outcome": "elastdata:raises"}
    if ret is not None and ret is not data:
        data = ret       # tolerate a functional variant
    check_elastdata(data, s, S, E, vol, tag, viol, "c08:elastdata", drop=drop)
    return {"viol": dedupe(viol), "outcome": f"elastdata:{s}:{'ok' if not viol else 'wrong'}",
            "key": f"elastdata:{s}:{mask}:{nv}:{case['full_keys']}:{z}:{shape}:{drop}:{keyorder}:{cwd}:{ints}"}


KEYORDERS = ("same", "alt-reversed", "rotated")


def key_order(S, i, keyorder):
    """insertion order of the component keys in the dict of volume i (same key SET at every volume)"""
    S = list(S)
    if keyorder == "same" or not S:
        return S
    if keyorder == "alt-reversed":
        return S[::-1] if i % 2 else S
    if keyorder == "rotated":
        k = i % len(S)
        return S[k:] + S[:k]
    raise HarnessError(f"unknown key order {keyorder}")


def make_elastdata(S, E, vol, keyorder="same", ints=False):
    from cij.io.traditional.elast_dat import ElastData, ElastVolumeData
    from cij.util import c_
    from collections import OrderedDict
    nv = len(vol)
    data = ElastData(float(vol[0]), nv, 120.5, [], [])
    for i in range(nv):
        data.volumes.append(ElastVolumeData(float(vol[i]), OrderedDict(
            (c_(*L.PAIRS21[j]), int(E[j, i]) if ints else float(E[j, i])) for j in key_order(S, i, keyorder))))
    return data


def check_elastdata(data, s, S, E, vol, tag, viol, sig, drop=1e-8):
    """an ElastData object after symmetry was applied, against the invariant tensor E (21, nv): every volume's table
    holds exactly the components that are not below drop_atol at all volumes (so never a vanishing one, even when
    the input listed it as 0), with the invariant tensor's values"""
    nv = len(vol)
    keep = expected_presence(E, drop)
    scale = float(numpy.abs(E).max())
    tol = RTOL * scale + ATOL_REL * scale
    nvn = set(L.nonvanishing(s))
    if len(data.volumes) != nv:
        viol.append(V(f"{sig}:{s}:row-count", f"{tag}: {len(data.volumes)} volumes afterwards"))
    for i, v in enumerate(data.volumes[:nv]):
        if v.volume != float(vol[i]):
            viol.append(V(f"{sig}:{s}:V-changed", f"{tag}: volume {i} is {v.volume!r}, was {float(vol[i])!r}"))
        got = {}
        for key, val in v.static_elastic_modulus.items():
            try:
                a, b = key.v
                got[L.PAIRS21.index((min(a, b), max(a, b)))] = float(val)
            except Exception:
                viol.append(V(f"{sig}:{s}:unexpected-key", f"{tag}: key {key!r} in the filled table of volume {i}"))
        for j, name in enumerate(L.NAMES):
            if j in nvn and not keep[j] and (j not in got or L.dimension(s) < 21):     # see check_invariant_result
                if j in got:
                    viol.append(V(f"{sig}:{s}:below-drop-atol-present", f"{tag}: {name} = {E[j].tolist()} is below drop_atol={drop} at all volumes but present ({got[j]!r}) at volume {i}"))
            elif j in nvn:
                if j not in got:
                    viol.append(V(f"{sig}:{s}:missing-component", f"{tag}: {name} absent at volume {i}"))
                elif not abs(got[j] - E[j, i]) <= tol:
                    kind = "supplied-changed" if j in S else "dependent-wrong"
                    viol.append(V(f"{sig}:{s}:{kind}",
                                  f"{tag}: {name} at volume {i} is {got[j]!r}, invariant tensor has {float(E[j, i])!r}"))
            elif j in got:
                viol.append(V(f"{sig}:{s}:vanishing-present" + (":listed-as-zero" if j in S else ""),
                              f"{tag}: vanishing component {name} present ({got[j]!r}) at volume {i}"))


# --------------------------------------------------------------------------- part 4 (mode B)

HISTORY_OPS = ("A1", "A2", "B1", "F")     # apply(dictA, table1), apply(dictA, table2), apply(dictB, table1), fill_cij(table1)


def run_history(case):
    """One history of applications sharing the settings dict objects dictA and dictB.  table1 = the minimal
    sufficient set + the first vanishing component listed as 0 (2 volumes, float parameters), table2 = all 21
    components, the vanishing ones as 0 (3 volumes, the integer-valued parameter set); the per-volume dicts of table1
    list their keys reversed at odd volumes, those of table2 rotated by k at volume k: fresh data objects for every operation, only the settings objects are shared."""
    from cij.io.traditional.elast_dat import apply_symetry_on_elast_data
    from cij.util.fill import fill_cij
    s, hist = case["system"], case["history"]
    n = len(L.nonvanishing(s))
    # table1 also lists the first vanishing component as 0, table2 all of them (consistent; they must not survive)
    S1 = with_vanishing(s, L.mask_to_subset(s, minimal_mask(s)), "zero-one")
    S2 = with_vanishing(s, L.mask_to_subset(s, (1 << n) - 1), "zeros")
    E1, vol1 = expected_tensor(s, 2), volumes(2)
    E2, vol2 = expected_tensor(s, 3, ints=True), volumes(3)
    dictA = {"system": s}
    dictB = dict({"system": s}, **DEFAULT_SYMMETRY)
    snapA, snapB = dict(dictA), dict(dictB)
    viol = []
    digests = []
    with scratch_cwd():
        for step, op in enumerate(hist, 1):
            tag = f"{s} history={'>'.join(hist[:step])} (A=apply with shared dict {snapA}, B=apply with shared full-key dict, 1/2 = table, F=fill_cij)"
            n0 = len(viol)
            try:
                if op == "F":
                    table = build_table(s, S1, E1, 2)
                    vin = table["V"].to_numpy().copy()
                    res = fill_cij(table.copy(), s)
                    check_invariant_result(s, S1, E1, vin, res, viol, "c08:history:fill", note=f" after {'>'.join(hist[:step - 1]) or 'nothing'}")
                else:
                    S, E, vol = (S2, E2, vol2) if op == "A2" else (S1, E1, vol1)
                    settings = dictB if op == "B1" else dictA
                    data = make_elastdata(S, E, vol, "rotated" if op == "A2" else "alt-reversed")
                    ret = apply_symetry_on_elast_data(data, settings)      # the shared object itself
                    if ret is not None and ret is not data:
                        data = ret
                    check_elastdata(data, s, S, E, vol, tag + f": ElastData[{','.join(names(S))}]", viol, "c08:history")
            except BaseException as ex:
                if isinstance(ex, (KeyboardInterrupt, SystemExit, HarnessError)):
                    raise
                viol.append(V(f"c08:history:{s}:raises:{type(ex).__name__}", f"{tag}: operation {op} raised {type(ex).__name__}: {str(ex)[:160]}"))
            if len(viol) > n0:
                changed = [f"{nm} is now {cur}, was {snap}" for nm, cur, snap in (("dictA", dictA, snapA), ("dictB", dictB, snapB)) if cur != snap]
                if changed:
                    viol[n0]["msg"] += " [the shared settings object was changed by an earlier operation: " + "; ".join(changed) + "]"
                break
            digests.append(f"{op}:{sorted(dictA)}:{sorted(dictB)}")
    return {"viol": dedupe(viol, 1), "outcome": "history:" + ("ok" if not viol else "wrong-result"),
            "key": f"history:{s}:{''.join(hist)}", "steps": len(hist)}


# --------------------------------------------------------------------------- part 5 (mode B): process histories of fill_cij

def order_history_ops(system):
    """alphabet: (subset label, column order).  a = minimal sufficient set, b = full non-vanishing set (for the systems
    without dependent components a = b: then only the orders differ)"""
    n = len(L.nonvanishing(system))
    subs = {"a": minimal_mask(system), "b": (1 << n) - 1}
    ops = [("a", o) for o in COLORDERS]
    if subs["b"] != subs["a"]:
        ops += [("b", "o0"), ("b", "o1")]
    return subs, ops


def run_order_history(case):
    """fill_cij called several times IN ONE PROCESS on fresh tables of the same system: same component set in different
    column orders, and different sets.  Every result must be the invariant tensor (nothing may be remembered from an
    earlier call).  Each call uses its own value set (volume count differs with the position in the history)."""
    from cij.util.fill import fill_cij
    s, hist = case["system"], case["history"]
    subs, _ = order_history_ops(s)
    viol = []
    with scratch_cwd():
        for step, (lab, order) in enumerate(hist, 1):
            nv = 1 + step % 3
            S = L.mask_to_subset(s, subs[lab])
            E = expected_tensor(s, nv, ints=(step % 2 == 0))
            table = build_table(s, S, E, nv, order=order)
            vin = table["V"].to_numpy().copy()
            done = " then ".join(f"[{','.join(names(column_order(L.mask_to_subset(s, subs[l]), o)))}]" for l, o in hist[:step])
            try:
                res = fill_cij(table.copy(), s)
            except BaseException as ex:
                if isinstance(ex, (KeyboardInterrupt, SystemExit)):
                    raise
                viol.append(V(f"c08:order-history:{s}:raises:{type(ex).__name__}",
                              f"{s}: fill_cij calls in one process on tables with columns {done}: call {step} raised {type(ex).__name__}: {str(ex)[:160]}"))
                break
            check_invariant_result(s, S, E, vin, res, viol, "c08:order-history",
                                   note=f" call {step} of one process, tables so far: {done}")
            if viol:
                break
    return {"viol": dedupe(viol, 1), "outcome": "order-history:" + ("ok" if not viol else "wrong-result"),
            "key": f"order-history:{s}:{hist}", "steps": len(hist)}


def run_case(case):
    kind = case["kind"]
    if kind == "subspace":
        return run_subspace(case)
    if kind == "fill":
        return run_fill(case)
    if kind == "elastdata":
        return run_elastdata(case)
    if kind == "history":
        return run_history(case)
    if kind == "order-history":
        return run_order_history(case)
    raise HarnessError(f"unknown case kind {kind}")


# --------------------------------------------------------------------------- enumeration

def popcount(m):
    return bin(m).count("1")


def sufficient_masks(system):
    """all sufficient subsets of the non-vanishing components, as masks (triclinic: only the full set)"""
    n = len(L.nonvanishing(system))
    d = L.dimension(system)
    if n == d:      # no dependent component: only the full set determines the tensor (monoclinic, orthorhombic, triclinic)
        return [(1 << n) - 1]
    t = L.rank_table(system)
    return [m for m in range(1 << n) if t[m] == d]


def boundary_sufficient_masks(system):
    """sufficient subsets whose size is within 1 of the minimal sufficient size, plus the full non-vanishing set"""
    n = len(L.nonvanishing(system))
    d = L.dimension(system)
    full = (1 << n) - 1
    out = [m for m in sufficient_masks(system) if popcount(m) <= d + 1]
    if full not in out:
        out.append(full)
    return out


def minimal_mask(system):
    """the pivot components of the invariant basis: a minimal sufficient set"""
    return L.subset_to_mask(system, L.invariant_basis(system)[1])


def chunks(seq, n):
    return [seq[i:i + n] for i in range(0, len(seq), n)]


def explore(ctx):
    ctx.rule = ("part 1: nine systems; group closed by BFS (states = group elements, transitions = generator products); every "
                "group element x every basis vector of the null space of the packaged relations (own parser), every unit tensor's "
                "Reynolds average x every packaged relation, dimensions; exact arithmetic over Q(sqrt3); complete in both tiers. "
                "part 2: every sufficient subset (laue_ref rank oracle) of the non-vanishing components x n_V in {1,2,5} through the "
                "real fill_cij; quick: cubic, hexagonal, tetragonal6, orthorhombic complete, for the other systems sufficient subsets "
                "with |S| <= minimal+1 plus the full non-vanishing set; thorough: all sufficient subsets of all systems. "
                "each table with 3 kinds of row labels (default, reversed n-1..0, offset non-contiguous; oracle positional). "
                "part 3: apply_symetry_on_elast_data on minimal and full sets x {system only, full default key set} x n_V in {1,2}. "
                "part 4 (mode B): all histories up to depth 3 (thorough 4) over {apply(dictA,table1), apply(dictA,table2), "
                "apply(dictB,table1), fill_cij} with the settings dict objects shared within a history; result checked after every step. "
                "non-trivial = every case (each executes the real code / the real relation files on a distinct input)")
    ctx.assumptions = ["sympy exact arithmetic (rational + sqrt(3)), fractions.Fraction",
                       "the relation files use the grammar of laue_ref.parse_relations (anything else is a HARNESS-ERROR, not a pass)",
                       "inversion acts trivially on a 4th-rank tensor, so the rotation subgroup of each Laue class is used "
                       "(hexagonal: 622 of order 12; 6/m gives the same subspace, checked in selftest)",
                       "numpy/pandas"]
    # ---- part 1
    cases = [{"kind": "subspace", "system": s} for s in L.SYSTEMS]
    res = ctx.run(MOD, "run_case", cases, part="subspaces", states=0, transitions=0)
    gstates = sum(L.EXPECTED_ORDER[s] for s in L.SYSTEMS)
    gtrans = sum(L.EXPECTED_ORDER[s] * len(L.GENERATORS[s]) for s in L.SYSTEMS)
    ctx.states += gstates
    ctx.transitions += gtrans + sum(r.get("checks", 0) for r in res)
    ctx.notes["group_orders"] = {s: L.EXPECTED_ORDER[s] for s in L.SYSTEMS}
    ctx.notes["invariant_dimensions"] = {s: L.dimension(s) for s in L.SYSTEMS}
    ctx.notes["nonvanishing_components"] = {s: len(L.nonvanishing(s)) for s in L.SYSTEMS}
    ctx.notes["packaged_relations"] = {r.get("key", "?").split(":")[-1]: {"equations": r.get("nrel"), "nullity": r.get("nullity")}
                                       for r in res if not r.get("harness_error")}
    ctx.notes["subspace_exact_checks"] = sum(r.get("checks", 0) for r in res)
    # ---- part 2
    cases = []
    counts = {}
    complete = True
    for s in L.SYSTEMS:
        allm = sufficient_masks(s)
        if ctx.quick and s not in SMALL_SYSTEMS:
            masks = boundary_sufficient_masks(s)
        else:
            masks = allm
        if len(masks) < len(allm):
            complete = False
        counts[s] = {"subsets_of_nonvanishing": 2 ** len(L.nonvanishing(s)), "sufficient": len(allm), "explored": len(masks)}
        d, full = L.dimension(s), (1 << len(L.nonvanishing(s))) - 1
        nx = 0
        for m in sorted(masks, key=lambda m: (popcount(m), m)):
            c = {"kind": "fill", "system": s, "mask": m}
            # value shape x drop_atol x supplied vanishing zeros: thorough on every subset, quick on the minimal
            # sufficient sets (|S| = d) and the full set of every system
            if not ctx.quick or popcount(m) == d or m == full:
                c["extras"] = True
                nx += 1
            cases.append(c)
        counts[s]["with_shape_drop_zero_variants"] = nx
    nf = sum(len(fill_variants(c["system"], c.get("extras", False))) for c in cases)
    res = ctx.run(MOD, "run_case", cases, part="fill", states=nf, transitions=nf, chunksize=4)
    ctx.notes["fill_subsets"] = counts
    ctx.notes["fill_calls"] = sum(r.get("nfill", 0) for r in res)
    ctx.notes["n_V_alphabet"] = list(NVS)
    ctx.notes["not_asserted"] = ("omission by drop_atol of a non-vanishing component for triclinic (no relations): recorded C09 finding "
                                 "F10, asserted and reported by C09 only")
    ctx.notes["value_shape_alphabet"] = list(SHAPES)
    ctx.notes["drop_atol_alphabet"] = list(DROPS)
    ctx.notes["fill_variants_per_subset"] = {"base": len(fill_variants("cubic", False)), "with_extras": len(fill_variants("cubic", True))}
    if not complete:
        ctx.exhaustive = False
    # ---- part 3
    cases = []
    for s in L.SYSTEMS:
        n = len(L.nonvanishing(s))
        for mask in sorted({minimal_mask(s), (1 << n) - 1}):
            for nv in (1, 2):
                for fk in (False, True):
                    cases.append({"kind": "elastdata", "system": s, "mask": mask, "nv": nv, "full_keys": fk})
                    if vanishing(s):      # the input lists vanishing components explicitly, as zeros
                        for z in ("zeros", "zero-one"):
                            cases.append({"kind": "elastdata", "system": s, "mask": mask, "nv": nv, "full_keys": fk, "z": z})
                cases.append({"kind": "elastdata", "system": s, "mask": mask, "nv": nv, "full_keys": False, "cwd": "dir"})
                cases.append({"kind": "elastdata", "system": s, "mask": mask, "nv": 5 if nv == 2 else nv, "full_keys": False, "ints": True})
                # per-volume dict key order (same key set, different insertion order at different volumes)
                if nv > 1:
                    for ko in KEYORDERS[1:]:
                        for z in (("none", "zeros") if vanishing(s) else ("none",)):
                            c = {"kind": "elastdata", "system": s, "mask": mask, "nv": nv, "full_keys": False, "keyorder": ko}
                            if z != "none":
                                c["z"] = z
                            cases.append(c)
                # value shape x drop_atol through the settings dict
                for drop in DROPS:
                    cases.append({"kind": "elastdata", "system": s, "mask": mask, "nv": nv, "full_keys": False, "shape": "dip", "drop": drop})
    ctx.run(MOD, "run_case", cases, part="elastdata")
    # ---- part 4 (mode B): shared settings objects
    import itertools
    depth = 3 if ctx.quick else 4
    cases = [{"kind": "history", "system": s, "history": list(h)}
             for s in L.SYSTEMS for k in range(1, depth + 1) for h in itertools.product(HISTORY_OPS, repeat=k)]
    ctx.run(MOD, "run_case", cases, part=f"shared-settings-histories-depth{depth}", states=len(cases),
            transitions=sum(len(c["history"]) for c in cases))
    # ---- part 5 (mode B): several fill_cij calls in one process (same set / other column order, other sets)
    odepth = 2 if ctx.quick else 3
    cases = []
    for s in L.SYSTEMS:
        _, ops = order_history_ops(s)
        for k in range(2, odepth + 1):
            hs = list(itertools.product(ops, repeat=k))
            # histories that present one set in two different orders first (their verdict does not depend on what the
            # worker process did before)
            hs.sort(key=lambda h: 0 if any(a[0] == b[0] and a[1] != b[1] for a in h for b in h) else 1)
            cases += [{"kind": "order-history", "system": s, "history": [list(op) for op in h]} for h in hs]
    ctx.run(MOD, "run_case", cases, part=f"column-order-histories-depth{odepth}", states=len(cases),
            transitions=sum(len(c["history"]) for c in cases))
    ctx.notes["column_order_history_alphabet"] = {"orders": list(COLORDERS), "subsets": ["minimal", "full"], "depth": odepth,
                                                  "histories": len(cases)}
    ctx.notes["history_alphabet"] = {"ops": list(HISTORY_OPS), "depth": depth, "histories_per_system": len(cases) // len(L.SYSTEMS)}
    ctx.notes["row_label_alphabet"] = list(ROWS)
    ctx.notes["column_type_alphabet"] = ["float64", "int64 (whole-number tables, all nine systems)"]
    ctx.notes["letter_case_alphabet"] = list(CASES)
    ctx.notes["per_volume_key_order_alphabet"] = list(KEYORDERS)


def selftest():
    ok = L.selftest()
    # the value generator gives distinct, non-integer, non-vanishing components that vary with volume
    for s in L.SYSTEMS:
        E = expected_tensor(s, 5)
        nvn = L.nonvanishing(s)
        vals = [round(float(E[j, 0]), 9) for j in L.invariant_basis(s)[1]]
        ok &= len(set(vals)) == len(vals)
        ok &= all(abs(v - round(v)) > 1e-3 for v in vals)
        ok &= all(numpy.abs(E[j]).max() > 1.0 and numpy.ptp(E[j]) > 0 for j in nvn)
        ok &= all(numpy.all(E[j] == 0) for j in range(21) if j not in nvn)
        Ei = expected_tensor(s, 3, ints=True)
        ok &= bool(numpy.all(Ei == numpy.round(Ei))) and all(numpy.abs(Ei[j]).max() >= 2 for j in nvn)
        ok &= minimal_mask(s) in sufficient_masks(s) or len(nvn) == L.dimension(s)
    ok &= [len(sufficient_masks(s)) for s in L.SYSTEMS] == [1, 1, 1, 81, 27, 4410, 630, 90, 343]
    # dip shape: the last parameter and the generated c66 of hexagonal/trigonal are 0.04 at exactly one volume, O(1)+ elsewhere
    for s in L.SYSTEMS:
        for nv in (2, 5):
            E = expected_tensor(s, nv, shape="dip")
            k = dip_row(nv)
            last = L.invariant_basis(s)[1][-1]
            ok &= abs(abs(E[last, k]) - DIP) < 1e-12 and all(abs(E[last, i]) >= 2.0 for i in range(nv) if i != k)
            ok &= E[last, 0] > 0 and (nv < 3 or E[last, nv - 1] < 0)
            if s in ("hexagonal", "trigonal6", "trigonal7"):
                c66 = L.INDEX["c66"]
                ok &= abs(E[c66, k] - DIP) < 1e-9 and all(abs(E[c66, i]) >= 2.0 for i in range(nv) if i != k)
            for drop in DROPS:
                expected_presence(E, drop)
        expected_presence(expected_tensor(s, 1, shape="dip"), 0.1)
    return bool(ok)
