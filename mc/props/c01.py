"""C01 — non-shear phonon terms are strain derivatives of F_ph (mode A: deviation lattice)."""
from collections import OrderedDict

import numpy

from mc import duck as D
from mc.explore import V, HarnessError

ID = "C01"
MOD = "mc.props.c01"

RTOL = 1e-7          # unit-bearing identity (DESIGN §5): CODATA vintage / 12-digit table constants
# Error model: zero-point part = (hc/2) x structure, so a constants error d gives exactly d*|ref| (+ rounding ~1e-16*S);
# thermal part: each mode term carries relative error ~Q*d (Q = hc w/kT <~ 40 while the term matters), so the
# bound is RTOL * S with S = sum over modes of max(1,Q) * |contribution| (>= |ref|).

DIMS = OrderedDict([
    ("shape", [[2, 1], [1, 1], [1, 2], [3, 1], [2, 2], [8, 10]]),
    ("weights", ["equal", "increasing", "scaled"]),
    ("wset", ["mid", "low", "edge"]),
    ("gset", ["distinct", "same", "zero"]),
    ("bset", ["distinct", "zero"]),
    ("tgrid", ["std", "zero", "low", "hot"]),
    ("vgrid", ["three", "one", "five"]),
    ("strain", ["const", "thirds", "extreme", "field"]),
    ("pkind", ["zero", "positive", "signed"]),
    ("gamma_fill", ["zeros", "garbage"]),
])


def spec_of(case):
    nq, na = case["shape"]
    s = dict(case)
    s.update(nq=nq, na=na, palette=16 if nq * na >= 20 else None)
    return s


def reference(laws, w, t, v):
    from mc.ref import fph_ref as F
    keys = ("P_zp", "A_zp", "P_th", "A_th", "dPdT", "SP_zp", "SA_zp", "SP_th", "SA_th", "SdPdT")
    out = {k: numpy.zeros((len(t), len(v))) for k in keys}
    for a, T in enumerate(t):
        for b, Vv in enumerate(v):
            d = F.free_energy_derivatives(laws, w, D.V0, float(T), float(Vv))
            for k in keys:
                out[k][a, b] = d[k]
    return out


def close(obs, ref, scale, rtol=RTOL, atol_scale=0.0):
    obs = numpy.asarray(obs, float)
    ref = numpy.broadcast_to(numpy.asarray(ref, float), obs.shape)
    tol = rtol * numpy.abs(ref) + atol_scale * numpy.abs(scale) + 1e-300
    bad = ~(numpy.abs(obs - ref) <= tol)
    if bad.any():
        idx = tuple(int(i) for i in numpy.argwhere(bad)[0])
        return False, idx, float(obs[idx]), float(ref[idx])
    return True, None, None, None


def run_case(case):
    from cij.core.phonon_contribution.nonshear import (
        LongitudinalElasticModulusPhononContribution as Long,
        OffDiagonalElasticModulusPhononContribution as Off,
    )
    spec = spec_of(case)
    duck, laws, w, t, v = D.build(spec)
    e = D.strain_field(case["strain"], v)
    ref = reference(laws, w, t, v)
    viol = []
    ratios = []
    nontrivial = bool(numpy.any(ref["A_zp"] != 0) and numpy.any(ref["A_th"] != 0))

    def chk(sig, obs, refv, scale, what, atol_scale):
        if not numpy.all(numpy.isfinite(numpy.asarray(obs, float))):
            viol.append(V(f"c01:nonfinite:{sig}", f"{what}: non-finite values (T grid {t.tolist()}, max freq {duck.freq_array.max():.0f} cm-1)"))
            return
        ok, idx, o, r = close(obs, refv, scale, RTOL, atol_scale)
        if not ok:
            viol.append(V(f"c01:mismatch:{sig}", f"{what}: at grid index {idx} observed {o!r}, free-energy reference {r!r} (rel {abs(o - r) / (abs(r) + 1e-300):.2e})"))

    comps = [(i, i) for i in range(3)] + [(i, j) for i in range(3) for j in range(3) if i != j]
    for (i, j) in comps:
        ei, ej = e[:, i], e[:, j]
        tag = "long" if i == j else "off"
        try:
            obj = (Long if i == j else Off)(duck, (ei, ej))
            zp = numpy.array(obj.zero_point_contribution, float)
            th = numpy.array(obj.thermal_contribution, float)
            val = numpy.array(obj.value_isothermal, float)
        except Exception as ex:
            viol.append(V(f"c01:raises:{tag}:{type(ex).__name__}", f"component ({i + 1},{j + 1}) raised {ex!r}"))
            continue
        if zp.shape != (len(v),) or th.shape != (len(t), len(v)) or val.shape != (len(t), len(v)):
            viol.append(V(f"c01:shape:{tag}", f"shapes zp {zp.shape} th {th.shape} val {val.shape}"))
            continue
        if i == j:
            r_zp = ref["A_zp"][0] / (5 * ei * ei) + ref["P_zp"][0] / (3 * ei)
            r_th = ref["A_th"] / (5 * ei * ei)[None, :] + ref["P_th"] / (3 * ei)[None, :]
            r_val = r_zp[None, :] + r_th
        else:
            r_zp = ref["A_zp"][0] / (15 * ei * ej)
            r_th = ref["A_th"] / (15 * ei * ej)[None, :]
            dp = duck.qha_calculator.volume_base.pressures - duck.static_p_array[None, :]
            r_val = r_zp[None, :] + r_th + dp
        if i == j:
            s_zp = ref["SA_zp"][0] / (5 * ei * ei) + ref["SP_zp"][0] / (3 * ei)
            s_th = ref["SA_th"] / (5 * ei * ei)[None, :] + ref["SP_th"] / (3 * ei)[None, :]
        else:
            s_zp = ref["SA_zp"][0] / (15 * ei * ej)
            s_th = ref["SA_th"] / (15 * ei * ej)[None, :]
        chk(f"{tag}:zero_point", zp, r_zp, s_zp, f"zero-point c{i + 1}{j + 1}", 1e-13)
        chk(f"{tag}:thermal", th, r_th, s_th, f"thermal c{i + 1}{j + 1}", RTOL)
        chk(f"{tag}:value", val, r_val, s_th + s_zp[None, :], f"isothermal c{i + 1}{j + 1}", RTOL)
        if numpy.all(numpy.isfinite(th)) and numpy.any(t == 0) and numpy.any(th[t == 0] != 0):
            viol.append(V(f"c01:thermal-nonzero-at-T0:{tag}", f"thermal part at T=0 is {th[t == 0].ravel()[:3]}"))
        if nontrivial and numpy.all(numpy.isfinite(zp)) and numpy.all(r_zp != 0):
            ratios += [float((zp / r_zp).min()), float((zp / r_zp).max())]
        if i != j and numpy.all(numpy.isfinite(val)):
            # metamorphic: pressure term is exactly (supplied total) - (supplied static)
            import copy
            for delta in (0.0, 3.25e-4, -7.5e-4):
                d2 = copy.copy(duck)
                vb = copy.copy(duck.qha_calculator.volume_base)
                vb.pressures = duck.static_p_array[None, :] + delta + numpy.zeros((len(t), len(v)))
                qc = copy.copy(duck.qha_calculator)
                qc.volume_base = vb
                d2.qha_calculator = qc
                v2 = numpy.array(Off(d2, (ei, ej)).value_isothermal, float)
                base = zp[None, :] + th
                if delta == 0.0:
                    if not numpy.array_equal(v2, base):
                        viol.append(V("c01:off:pressure-term-not-zero", f"with total == static pressure value differs from zero-point + thermal by {numpy.abs(v2 - base).max():.3e}"))
                else:
                    err = numpy.abs((v2 - base) - delta).max()
                    if not err <= 1e-12 * (numpy.abs(base).max() + abs(delta)):
                        viol.append(V("c01:off:pressure-term", f"adding {delta} to the total pressure changed the value by {float((v2 - base).ravel()[0])!r}"))
    out = {"viol": viol, "nontrivial": nontrivial,
           "outcome": ("trivial" if not nontrivial else "ok") if not viol else viol[0]["sig"]}
    if ratios:
        out["zp_ratio"] = [min(ratios), max(ratios)]
    return out


def canon(case):
    c = dict(case)
    nq, na = c["shape"]
    if nq == 1 and na == 1:        # nothing but Gamma acoustic modes: spectrum alphabets are irrelevant
        c.update(wset="mid", gset="distinct", bset="distinct", weights="equal")
    if nq == 1:
        c["weights"] = "equal"
    return c


def explore(ctx):
    ctx.rule = ("mode A: BFS over the deviation lattice of the listed alphabets; each configuration evaluates the 3 "
                "longitudinal and 6 ordered off-diagonal components (zero-point, thermal, isothermal) on a duck-typed "
                "calculator and compares with mpmath 40-digit derivatives of F_ph itself; non-trivial = zero-point and "
                "thermal A both non-zero somewhere (a spectrum with at least one non-acoustic mode and T>0 present or T=0 row checked)")
    ctx.assumptions = ["CODATA constants from scipy.constants", "mpmath numerical differentiation at 40 digits",
                       "analytic mode law ln w = ln w0 - g0 x - b x^2/2 covers 'arbitrary' gamma and V dgamma/dV pointwise"]
    dims = OrderedDict((k, list(v)) for k, v in DIMS.items())
    if ctx.quick:
        bound = 2
        cases, results = ctx.run_lattice(MOD, "run_case", dims, bound, part="lattice<=2", canon=canon)
    else:
        small = OrderedDict(dims)
        small["shape"] = [s for s in dims["shape"] if s != [8, 10]]
        cases, results = ctx.run_lattice(MOD, "run_case", small, None, part="small-shapes-full-product", canon=canon)
        c2, r2 = ctx.run_lattice(MOD, "run_case", dims, 3, part="all-shapes<=3", canon=canon)
        results = results + r2
    ratios = [r["zp_ratio"] for r in results if r.get("zp_ratio")]
    if ratios:
        lo = min(r[0] for r in ratios)
        hi = max(r[1] for r in ratios)
        ctx.notes["zero_point_obs_over_ref"] = [lo, hi]
        if hi - lo > 1e-10:
            ctx.violations.append(({"kind": "global-ratio"}, V("c01:zero-point-ratio-spread", f"zero-point observed/reference ratio varies from {lo!r} to {hi!r} across cases (should be one constant)"), MOD, "run_case"))
    ctx.notes["alphabets"] = {k: v for k, v in DIMS.items()}


def selftest():
    from mc.ref import fph_ref
    return fph_ref.selftest()
