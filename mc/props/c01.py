"""C01 — non-shear phonon terms are strain derivatives of F_ph (mode A: deviation lattice)."""
from collections import OrderedDict

import numpy

from mc import duck as D
from mc.explore import V, HarnessError

def seam_guard(ex):
    """an AttributeError raised BY THE DUCK (an attribute the duck-typed calculator does not carry) is a drift of the
    harness seam, not a property violation (DESIGN §12)"""
    if isinstance(ex, AttributeError) and "SimpleNamespace" in str(ex):
        raise HarnessError(f"duck-typed seam no longer matches the code: {ex}")


ID = "C01"
MOD = "mc.props.c01"

RTOL = 1e-7          # unit-bearing identity (DESIGN §5): CODATA vintage / 12-digit table constants
# Error model: zero-point part = (hc/2) x structure, so a constants error d gives exactly d*|ref| (+ rounding ~1e-16*S);
# thermal part: each mode term carries relative error ~Q*d (Q = hc w/kT <~ 40 while the term matters), so the
# bound is RTOL * S with S = sum over modes of max(1,Q) * |contribution| (>= |ref|).

DIMS = OrderedDict([
    ("shape", [[2, 1], [1, 1], [1, 2], [3, 1], [2, 2], [8, 10]]),
    ("weights", ["equal", "increasing", "scaled", "int"]),
    ("wset", ["mid", "low", "edge"]),
    ("gset", ["distinct", "same", "zero"]),
    ("bset", ["distinct", "zero"]),
    ("tgrid", ["std", "zero", "low", "hot", "desc", "mid0", "n8", "n16"]),
    ("vgrid", ["three", "one", "five", "n8", "n16", "ascending"]),
    ("strain", ["const", "thirds", "extreme", "field"]),
    ("pkind", ["zero", "positive", "signed"]),
    ("gamma_fill", ["zeros", "garbage"]),
])


def spec_of(case):
    nq, na = case["shape"]
    s = dict(case)
    s.update(nq=nq, na=na, palette=16 if nq * na >= 20 else None)
    return s


def reference(laws, w, t, v):
    from mc.ref import fph_ref as F
    keys = ("P_zp", "A_zp", "P_th", "A_th", "dPdT", "SP_zp", "SA_zp", "SP_th", "SA_th", "SdPdT")
    out = {k: numpy.zeros((len(t), len(v))) for k in keys}
    for a, T in enumerate(t):
        for b, Vv in enumerate(v):
            d = F.free_energy_derivatives(laws, w, D.V0, float(T), float(Vv))
            for k in keys:
                out[k][a, b] = d[k]
    return out


def close(obs, ref, scale, rtol=RTOL, atol_scale=0.0):
    obs = numpy.asarray(obs, float)
    ref = numpy.broadcast_to(numpy.asarray(ref, float), obs.shape)
    tol = rtol * numpy.abs(ref) + atol_scale * numpy.abs(scale) + 1e-300
    bad = ~(numpy.abs(obs - ref) <= tol)
    if bad.any():
        idx = tuple(int(i) for i in numpy.argwhere(bad)[0])
        return False, idx, float(obs[idx]), float(ref[idx])
    return True, None, None, None


def run_case(case):
    from cij.core.phonon_contribution.nonshear import (
        LongitudinalElasticModulusPhononContribution as Long,
        OffDiagonalElasticModulusPhononContribution as Off,
    )
    spec = spec_of(case)
    if case.get("_at") is not None:
        spec["_at"] = case["_at"]
    duck, laws, w, t, v = D.build(spec)
    duck_id = id(duck)
    e = D.strain_field(case["strain"], v)
    ref = reference(laws, w, t, v)
    viol = []
    ratios = []
    nontrivial = bool(numpy.any(ref["A_zp"] != 0) and numpy.any(ref["A_th"] != 0))

    def chk(sig, obs, refv, scale, what, atol_scale):
        if not numpy.all(numpy.isfinite(numpy.asarray(obs, float))):
            viol.append(V(f"c01:nonfinite:{sig}", f"{what}: non-finite values (T grid {t.tolist()}, max freq {duck.freq_array.max():.0f} cm-1)"))
            return
        ok, idx, o, r = close(obs, refv, scale, RTOL, atol_scale)
        if not ok:
            viol.append(V(f"c01:mismatch:{sig}", f"{what}: at grid index {idx} observed {o!r}, free-energy reference {r!r} (rel {abs(o - r) / (abs(r) + 1e-300):.2e})"))

    comps = [(i, i) for i in range(3)] + [(i, j) for i in range(3) for j in range(3) if i != j]
    for (i, j) in comps:
        ei, ej = e[:, i], e[:, j]
        tag = "long" if i == j else "off"
        try:
            obj = (Long if i == j else Off)(duck, (ei, ej))
            zp = numpy.array(obj.zero_point_contribution, float)
            th = numpy.array(obj.thermal_contribution, float)
            val = numpy.array(obj.value_isothermal, float)
        except Exception as ex:
            seam_guard(ex)
            viol.append(V(f"c01:raises:{tag}:{type(ex).__name__}", f"component ({i + 1},{j + 1}) raised {ex!r}"))
            continue
        if zp.shape != (len(v),) or th.shape != (len(t), len(v)) or val.shape != (len(t), len(v)):
            viol.append(V(f"c01:shape:{tag}", f"shapes zp {zp.shape} th {th.shape} val {val.shape}"))
            continue
        if i == j:
            r_zp = ref["A_zp"][0] / (5 * ei * ei) + ref["P_zp"][0] / (3 * ei)
            r_th = ref["A_th"] / (5 * ei * ei)[None, :] + ref["P_th"] / (3 * ei)[None, :]
            r_val = r_zp[None, :] + r_th
        else:
            r_zp = ref["A_zp"][0] / (15 * ei * ej)
            r_th = ref["A_th"] / (15 * ei * ej)[None, :]
            dp = duck.qha_calculator.volume_base.pressures - duck.static_p_array[None, :]
            r_val = r_zp[None, :] + r_th + dp
        if i == j:
            s_zp = ref["SA_zp"][0] / (5 * ei * ei) + ref["SP_zp"][0] / (3 * ei)
            s_th = ref["SA_th"] / (5 * ei * ei)[None, :] + ref["SP_th"] / (3 * ei)[None, :]
        else:
            s_zp = ref["SA_zp"][0] / (15 * ei * ej)
            s_th = ref["SA_th"] / (15 * ei * ej)[None, :]
        chk(f"{tag}:zero_point", zp, r_zp, s_zp, f"zero-point c{i + 1}{j + 1}", 1e-13)
        chk(f"{tag}:thermal", th, r_th, s_th, f"thermal c{i + 1}{j + 1}", RTOL)
        chk(f"{tag}:value", val, r_val, s_th + s_zp[None, :], f"isothermal c{i + 1}{j + 1}", RTOL)
        if numpy.all(numpy.isfinite(th)) and numpy.any(t == 0) and numpy.any(th[t == 0] != 0):
            viol.append(V(f"c01:thermal-nonzero-at-T0:{tag}", f"thermal part at T=0 is {th[t == 0].ravel()[:3]}"))
        if nontrivial and numpy.all(numpy.isfinite(zp)) and numpy.all(r_zp != 0):
            ratios += [float((zp / r_zp).min()), float((zp / r_zp).max())]
        if i != j and numpy.all(numpy.isfinite(val)):
            # metamorphic: pressure term is exactly (supplied total) - (supplied static)
            import copy
            for delta in (0.0, 3.25e-4, -7.5e-4):
                vb = copy.copy(duck.qha_calculator.volume_base)
                vb.pressures = duck.static_p_array[None, :] + delta + numpy.zeros((len(t), len(v)))
                qc = copy.copy(duck.qha_calculator)
                qc.volume_base = vb
                d2 = D.clone(duck, qha_calculator=qc)
                v2 = numpy.array(Off(d2, (ei, ej)).value_isothermal, float)
                base = zp[None, :] + th
                if delta == 0.0:
                    if not numpy.array_equal(v2, base):
                        viol.append(V("c01:off:pressure-term-not-zero", f"with total == static pressure value differs from zero-point + thermal by {numpy.abs(v2 - base).max():.3e}"))
                else:
                    err = numpy.abs((v2 - base) - delta).max()
                    if not err <= 1e-12 * (numpy.abs(base).max() + abs(delta)):
                        viol.append(V("c01:off:pressure-term", f"adding {delta} to the total pressure changed the value by {float((v2 - base).ravel()[0])!r}"))
    out = {"viol": viol, "nontrivial": nontrivial,
           "outcome": ("trivial" if not nontrivial else "ok") if not viol else viol[0]["sig"]}
    if ratios:
        out["zp_ratio"] = [min(ratios), max(ratios)]
    out["duck_id"] = duck_id
    return out


READS = ["zero_point_contribution", "thermal_contribution", "value_isothermal", "value_adiabatic", "isothermal_to_adiabatic"]
HIST_SPECS = [
    dict(shape=[2, 2], weights="increasing", wset="mid", gset="distinct", bset="distinct", tgrid="std", vgrid="three", pkind="positive", gamma_fill="zeros", cv="field"),
    dict(shape=[3, 1], weights="equal", wset="edge", gset="distinct", bset="zero", tgrid="mix", vgrid="five", pkind="signed", gamma_fill="garbage", cv="const"),
    dict(shape=[2, 2], weights="scaled", wset="low", gset="same", bset="distinct", tgrid="hot", vgrid="three", pkind="zero", gamma_fill="zeros", cv="field"),
]


def run_reads(case):
    """mode B: one contribution object, a sequence of property reads; every read must return what a fresh object returns
    for the same duck (bit for bit), and the final state must still satisfy the C01 identity (checked through run_case's
    oracle on fresh objects elsewhere)."""
    from cij.core.phonon_contribution.nonshear import (
        LongitudinalElasticModulusPhononContribution as Long,
        OffDiagonalElasticModulusPhononContribution as Off,
    )
    spec = spec_of(HIST_SPECS[case["spec"]])
    duck, laws, w, t, v = D.build(spec)
    e = D.strain_field("const", v)
    viol = []
    for cls, (i, j) in ((Long, (0, 0)), (Off, (0, 2))):
        fresh = {}
        try:
            for name in READS:
                fresh[name] = numpy.array(getattr(cls(duck, (e[:, i], e[:, j])), name), float)
            obj = cls(duck, (e[:, i], e[:, j]))
        except Exception as ex:
            seam_guard(ex)
            viol.append(V(f"c01:process-history:raises:{type(ex).__name__}", f"{cls.__name__} on a freshly built calculator-like object (this worker has evaluated and released others before): {ex!r}"))
            break
        for n, name in enumerate(case["ops"]):
            if name.startswith("fail-"):
                # a read that FAILS because an input is not usable yet (wrong-length static pressure / heat capacity), the
                # input is then repaired: the object must afterwards behave like a fresh one (the retry of a notebook cell)
                what, read = name.split(":")
                vb = duck.qha_calculator.volume_base
                saved = (duck.static_p_array, vb.heat_capacity)
                if what == "fail-static":
                    duck.static_p_array = numpy.zeros(len(v) + 3)
                else:
                    vb.heat_capacity = numpy.zeros((len(t) + 2, len(v) + 1))
                try:
                    getattr(obj, read)
                except Exception:
                    pass
                duck.static_p_array, vb.heat_capacity = saved
                continue
            try:
                got = numpy.array(getattr(obj, name), float)
            except Exception as ex:
                seam_guard(ex)
                viol.append(V(f"c01:read-order-dependence:raises:{type(ex).__name__}", f"{cls.__name__}: after reads {case['ops'][:n]}, reading {name} raised {ex!r}"))
                break
            if got.shape != fresh[name].shape or not numpy.array_equal(got, fresh[name], equal_nan=True):
                viol.append(V(f"c01:read-order-dependence:{cls.__name__[:4].lower()}:{name}",
                              f"{cls.__name__}: after reads {case['ops'][:n]}, {name} differs from a fresh object's value by {float(numpy.nanmax(numpy.abs(got - fresh[name]))) if got.shape == fresh[name].shape else 'shape'}"))
                break
    return {"viol": viol, "nontrivial": len(case["ops"]) > 1, "outcome": "reads-ok" if not viol else viol[0]["sig"]}


def run_sequence(case):
    """process history: several calculator-like objects built, used and released one after the other in one process (the
    next one is allocated right after the previous was dropped, so CPython tends to reuse its address); each must give the
    values of the free-energy reference for ITS OWN spectrum and grids."""
    import gc
    out = {"viol": [], "nontrivial": True, "outcome": "sequence-ok"}
    prev, reused = None, 0
    for n, idx in enumerate(case["order"]):
        c = dict(HIST_SPECS[idx], strain="const", _at=prev)     # ask for the address the released predecessor had
        r = run_case(c)
        gc.collect()
        reused += int(prev is not None and r.get("duck_id") == prev)
        prev = r.get("duck_id")
        out["address_reused"] = reused
        if r["viol"]:
            v0 = r["viol"][0]
            out["viol"].append(V("c01:process-history:" + v0["sig"].split(":", 1)[1], f"object #{n} of sequence {case['order']} (after {case['order'][:n]} were used and released): {v0['msg']}"))
            out["outcome"] = out["viol"][0]["sig"]
            break
    return out


LONG_T = [31, 32, 33, 63, 64, 65, 70, 95, 96, 97, 127, 128, 129, 130, 160, 200, 257]
LONG_V = [31, 64, 65, 70, 100, 129, 201, 401]


def run_long_axis(case):
    """axis-length dimension: a temperature (or volume) axis of `n` points, far longer than the lattice's grids (real runs
    use NT ~ 20-150 and NTV ~ 100-400).  Oracle: (i) row independence - every row/column of the result on the long grid
    equals what fresh objects return for the same points presented in chunks of <= 8 (grids of that size are compared with
    the free-energy reference point by point in the lattice part); (ii) the free-energy reference itself at the first two,
    the middle and the last three points of the long axis."""
    from cij.core.phonon_contribution.nonshear import (
        LongitudinalElasticModulusPhononContribution as Long,
        OffDiagonalElasticModulusPhononContribution as Off,
    )
    n, axis = case["n"], case["axis"]
    ad, pfx = bool(case.get("adiabatic")), case.get("prefix", "c01")      # C02 re-uses this case for the adiabatic values
    base = dict(HIST_SPECS[0])
    if axis == "T":
        grid = [2600.0 * (k / float(n)) ** 1.3 for k in range(n)]          # T = 0 first, strictly increasing
        base["tgrid"] = grid
    else:
        grid = [380.0 - 160.0 * k / float(n - 1) for k in range(n)]        # decreasing volumes, as qha lists them
        base["vgrid"] = grid
    spec = spec_of(base)
    duck, laws, w, t, v = D.build(spec)
    e = D.strain_field("field", v)
    viol = []
    comps = [(0, 0), (2, 2), (0, 1), (2, 1)]
    full = {}
    for (i, j) in comps:
        try:
            obj = (Long if i == j else Off)(duck, (e[:, i], e[:, j]))
            full[(i, j)] = (numpy.array(obj.zero_point_contribution, float), numpy.array(obj.thermal_contribution, float),
                            numpy.array(obj.value_isothermal, float))
            if ad:
                full[(i, j)] += (numpy.array(obj.value_adiabatic, float),)
        except Exception as ex:
            seam_guard(ex)
            viol.append(V(f"c01:long-axis:raises:{type(ex).__name__}", f"{axis} axis of {n} points: component ({i + 1},{j + 1}) raised {ex!r}"))
    if viol:
        return {"viol": viol, "nontrivial": True, "outcome": viol[0]["sig"]}
    for (i, j), (zp, th, val, *_ad) in full.items():
        if zp.shape != (len(v),) or th.shape != (len(t), len(v)) or val.shape != (len(t), len(v)):
            viol.append(V("c01:long-axis:shape", f"{axis} axis of {n} points: shapes zp {zp.shape} th {th.shape} val {val.shape}"))
        elif not (numpy.all(numpy.isfinite(th)) and numpy.all(numpy.isfinite(val)) and numpy.all(numpy.isfinite(zp))):
            viol.append(V("c01:long-axis:nonfinite", f"{axis} axis of {n} points: non-finite values in component ({i + 1},{j + 1})"))
    if viol:
        return {"viol": viol, "nontrivial": True, "outcome": viol[0]["sig"]}
    # (i) chunks of <= 8 points on fresh calculator-like objects
    for a in range(0, n, 8):
        sl = slice(a, min(n, a + 8))
        b2 = dict(base)
        b2["tgrid" if axis == "T" else "vgrid"] = grid[sl]
        d2, _, _, t2, v2 = D.build(spec_of(b2))
        for (i, j), (zp, th, val, *_ad) in full.items():
            es = e if axis == "T" else e[sl]
            o2 = (Long if i == j else Off)(d2, (es[:, i], es[:, j]))
            th2 = numpy.array(o2.thermal_contribution, float)
            val2 = numpy.array(o2.value_isothermal, float)
            zp2 = numpy.array(o2.zero_point_contribution, float)
            thf, valf, zpf = (th[sl], val[sl], zp) if axis == "T" else (th[:, sl], val[:, sl], zp[sl])
            trio = [("thermal", thf, th2), ("value", valf, val2), ("zero_point", zpf, zp2)]
            if ad:
                adv = numpy.array(o2.value_adiabatic, float)
                trio = [("adiabatic", _ad[0][sl] if axis == "T" else _ad[0][:, sl], adv),
                        ("adiabatic-gap", (_ad[0] - val)[sl] if axis == "T" else (_ad[0] - val)[:, sl], adv - val2)]
            for name, x, y in trio:
                sc = numpy.nanmax(numpy.abs(y)) + 1e-300 if name != "adiabatic-gap" else numpy.nanmax(numpy.abs(adv)) * 1e-3 + 1e-300
                if x.shape == y.shape and ad:
                    both_nan = numpy.isnan(x) & numpy.isnan(y)
                    x, y = numpy.where(both_nan, 0.0, x), numpy.where(both_nan, 0.0, y)
                if x.shape != y.shape or not numpy.all(numpy.abs(x - y) <= 1e-11 * sc):
                    bad = numpy.argwhere(~(numpy.abs(x - y) <= 1e-11 * sc))[0] if x.shape == y.shape else None
                    viol.append(V(f"{pfx}:long-axis:{axis}:{name}-depends-on-grid-length",
                                  f"{name} c{i + 1}{j + 1} on a {axis} axis of {n} points differs at points {a}..{sl.stop - 1} (first at {None if bad is None else bad.tolist()}: "
                                  f"{None if bad is None else float(x[tuple(bad)])!r}) from the same points evaluated as a grid of {sl.stop - a} ({None if bad is None else float(y[tuple(bad)])!r})"))
                    break
            if viol:
                break
        if viol:
            break
    # (ii) free-energy reference at selected points of the long axis
    if not viol and not ad:
        pick = sorted(set([0, 1, n // 2, n - 3, n - 2, n - 1]))
        tt, vv = (t[pick], v) if axis == "T" else (t, v[pick])
        ref = reference(laws, w, tt, vv)
        for (i, j), (zp, th, val, *_ad) in full.items():
            ee = e if axis == "T" else e[pick]
            ei, ej = ee[:, i], ee[:, j]
            if i == j:
                r_th = ref["A_th"] / (5 * ei * ei)[None, :] + ref["P_th"] / (3 * ei)[None, :]
                s_th = ref["SA_th"] / (5 * ei * ei)[None, :] + ref["SP_th"] / (3 * ei)[None, :]
            else:
                r_th = ref["A_th"] / (15 * ei * ej)[None, :]
                s_th = ref["SA_th"] / (15 * ei * ej)[None, :]
            obs = th[pick] if axis == "T" else th[:, pick]
            ok, idx, o, r = close(obs, r_th, s_th, RTOL, RTOL)
            if not ok:
                viol.append(V(f"c01:long-axis:{axis}:thermal-mismatch", f"thermal c{i + 1}{j + 1} on a {axis} axis of {n} points: at picked index {idx} (axis points {pick}) observed {o!r}, free-energy reference {r!r}"))
                break
    return {"viol": viol, "nontrivial": True, "outcome": "long-axis-ok" if not viol else viol[0]["sig"]}


def canon(case):
    c = dict(case)
    nq, na = c["shape"]
    if nq == 1 and na == 1:        # nothing but Gamma acoustic modes: spectrum alphabets are irrelevant
        c.update(wset="mid", gset="distinct", bset="distinct", weights="equal")
    if nq == 1:
        c["weights"] = "equal"
    return c


def explore(ctx):
    ctx.rule = ("mode A: BFS over the deviation lattice of the listed alphabets; each configuration evaluates the 3 "
                "longitudinal and 6 ordered off-diagonal components (zero-point, thermal, isothermal) on a duck-typed "
                "calculator and compares with mpmath 40-digit derivatives of F_ph itself; non-trivial = zero-point and "
                "thermal A both non-zero somewhere (a spectrum with at least one non-acoustic mode and T>0 present or T=0 row checked); "
                "mode B: all ordered sequences of <=3 (all 120 orders of 5 in thorough) property reads on one contribution object vs fresh "
                "objects; all ordered sequences of 2-3 calculator-like objects used and released one after the other in one process")
    ctx.assumptions = ["CODATA constants from scipy.constants", "mpmath numerical differentiation at 40 digits",
                       "analytic mode law ln w = ln w0 - g0 x - b x^2/2 covers 'arbitrary' gamma and V dgamma/dV pointwise"]
    dims = OrderedDict((k, list(v)) for k, v in DIMS.items())
    if ctx.quick:
        bound = 2
        cases, results = ctx.run_lattice(MOD, "run_case", dims, bound, part="lattice<=2", canon=canon)
        ctx.run_under(MOD, "run_case", cases[:1] + cases[7:10], ("-O",))
    else:
        small = OrderedDict(dims)
        small["shape"] = [s for s in dims["shape"] if s != [8, 10]]
        cases, results = ctx.run_lattice(MOD, "run_case", small, None, part="small-shapes-full-product", canon=canon)
        c2, r2 = ctx.run_lattice(MOD, "run_case", dims, 3, part="all-shapes<=3", canon=canon)
        results = results + r2
    import itertools
    seqs = [list(p) for L in (1, 2, 3) for p in itertools.permutations(READS, L)] + ([list(p) for p in itertools.permutations(READS, 5)] if not ctx.quick else
                                                                                      [READS[::-1], READS[2:] + READS[:2], ["value_adiabatic", "thermal_contribution", "zero_point_contribution", "value_isothermal"]])
    fails = ["fail-static:value_isothermal", "fail-static:value_adiabatic", "fail-cv:value_adiabatic", "fail-cv:isothermal_to_adiabatic"]
    seqs += [[f, r] for f in fails for r in READS] + [[r0, f, r] for f in fails for r0 in READS[:3] for r in READS[2:]]
    ctx.run(MOD, "run_reads", [{"spec": k, "ops": sq} for k in range(len(HIST_SPECS)) for sq in seqs], part="read-histories",
            transitions=sum(len(sq) for sq in seqs) * len(HIST_SPECS))   # incl. reads that fail on a not-yet-usable input and are retried
    orders = [list(p) for L in (2, 3) for p in itertools.permutations(range(len(HIST_SPECS)), L)] + [[0, 0], [1, 1, 1], [0, 1, 0], [2, 0, 2]]
    ctx.run(MOD, "run_sequence", [{"order": o} for o in orders], part="object-sequences", chunksize=1, transitions=sum(len(o) for o in orders))
    lt = LONG_T if ctx.quick else sorted(set(LONG_T + list(range(17, 201)) + [256, 258, 320, 384, 385, 512, 513]))
    lv = LONG_V if ctx.quick else sorted(set(LONG_V + list(range(17, 201)) + [256, 257, 400, 402, 512, 513]))
    ctx.run(MOD, "run_long_axis", [{"axis": "T", "n": n} for n in lt] + [{"axis": "V", "n": n} for n in lv], part="axis-lengths", chunksize=1)
    ctx.notes["axis_lengths"] = {"T": lt, "V": lv}
    ratios = [r["zp_ratio"] for r in results if r.get("zp_ratio")]
    if ratios:
        lo = min(r[0] for r in ratios)
        hi = max(r[1] for r in ratios)
        ctx.notes["zero_point_obs_over_ref"] = [lo, hi]
        if hi - lo > 1e-10:
            ctx.violations.append(({"kind": "global-ratio"}, V("c01:zero-point-ratio-spread", f"zero-point observed/reference ratio varies from {lo!r} to {hi!r} across cases (should be one constant)"), MOD, "run_case"))
    ctx.notes["alphabets"] = {k: v for k, v in DIMS.items()}


def selftest():
    from mc.ref import fph_ref
    return fph_ref.selftest()
