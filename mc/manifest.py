"""Regenerates /verif/MANIFEST.json from the table below (run: /venv/bin/python -m mc.manifest)."""
import json
import os
import subprocess

VERIF = os.path.dirname(os.path.dirname(os.path.abspath(__file__)))
IDS = ["C%02d" % i for i in range(1, 21)]

# id -> (level text, level note / trusted base, technique, design section)
CHECKS = {
 "C01": ("bounded-exhaustive exploration of the real non-shear contribution classes on a duck-typed calculator: BFS over the deviation lattice of 10 input alphabets (<=2 deviations quick; thorough: the FULL product on the five small shapes and <=3 deviations on all shapes), every configuration compared with 40-digit numerical derivatives of the free energy itself; mode B: all ordered sequences of <=3 (120 orders thorough) property reads on one contribution object vs fresh objects, and sequences of 2-3 calculator-like objects used and released in one process",
         "alphabets of analytic spectra (exact gamma, V dgamma/dV); CODATA constants from scipy; mpmath differentiation; values outside the alphabets are covered only through the formulas' structure",
         "deviation-bounded exhaustive enumeration of input alphabets on the implementation, oracle = mpmath derivatives of F_ph", "6 C01"),
 "C02": ("same lattice as C01 plus heat-capacity fields for all 9 ordered non-shear index pairs; all 15 shear keys through the real task list (full set, singletons, pairs) for adiabatic==isothermal bit-identity; C_V fields from 1e-11 to 4e-2; mode B: all sequences of <=3 states evaluated on ONE calculator-like object (T grid / spectrum / C_V replaced) and on objects released one after the other",
         "as C01; C_V is a supplied positive field", "deviation-bounded exhaustive enumeration + exhaustive key enumeration through the real task list", "6 C02"),
 "C03": ("complete over a basis: 15 shear keys x 4 strain fields x (21 unit tensors + 210 pairwise sums + 1 generic) with exact components from an independent einsum rotation, plus all 48 sign/column-order variants of the eigenframe; linear map => exact on a basis is exact everywhere; 6 strain fields incl. a hydrostatic row among anisotropic rows; unit and generic tensors also on numeric scales 1e-12, 1e-7, 1e9",
         "numpy einsum/LAPACK; frame taken from the implementation after independent validation", "exhaustive enumeration over a basis of the 21-dim tensor space x all keys", "6 C03"),
 "C04": ("explicit-state exploration of request histories on the real task list: all ordered requests of length <=2 (<=3 thorough), complements, 22 (+210) orders of the full set, all 6 axis relabellings, 5 strain fields; thorough: all 2^15 shear subsets with/without non-shear keys; per-key values compared across all histories before merging, against sam_ref, isotropy, dependency order; 7 strain fields incl. two equal fractions and e1=(e2+e3)/2; ONE task-list object resolved and calculated 2-3 times vs fresh lists",
         "duck-typed calculator; sam_ref reference recursion; 21! orders not enumerated (cone-independence premise checked per execution)", "history BFS (operation sequences) on the implementation with differential + reference oracles", "6 C04"),
 "C05": ("bounded-exhaustive exploration of the real Calculator on generated input directories: BFS over the deviation lattice of 9 data-set/configuration alphabets (<=2 deviations quick, <=3 thorough), every run compared key by key with an independent pipeline (own parsers, own V*c fit in Eulerian strain, own strain rule, own qha instance whose arrays must match bit for bit, sam_ref); level<=1 configurations re-run with the static table scaled (phonon part independent of static values); QHA fit orders 3-5, decoy same-named inputs in the cwd, static-table row orders; mode B: all ordered pairs (triples thorough) of 6 settings variants run in ONE process on the same files vs fresh interpreters",
         "qha trusted as a library; spectra polynomial in ln V so the interpolant is exact; finite-difference pieces accepted within twice the reference's own analytic-vs-grid difference", "deviation-bounded exhaustive enumeration of configurations on the implementation, oracle = independent reference pipeline", "6 C05"),
 "C06": ("complete product of 3 data sets x 3 temperature grids x 4 inside pressure grids: every modulus/compliance/average/velocity/volume at every (T,P) node against an independent spline along the isotherm, pressure round trip, exact conversion of cubic-in-P fields, attribute spellings select the right tensor; 51 overshooting grids (>=2x reach, and between the coldest and hottest isotherm's reach) must be rejected; every returned table re-verified after all others were requested (no shared buffer), sparse sampling strides, grids with P_MIN>0 overshooting by less than P_MIN",
         "qha's P(T,V), V(T,P) trusted; tolerance 25% of the local cell variation", "exhaustive enumeration of grid configurations x all quantities x all grid nodes on the implementation", "6 C06"),
 "C16": ("small-scope complete merge exploration: all 144^2 (user, default) dictionary pairs over {a,b}x{1,2} depth<=2 (21609x144 thorough) against a leaf-path reference, input snapshots, idempotence; every leaf subset of the shipped settings against the packaged defaults; 395 single-field perturbations of every documented field x 4 base files with verdicts transcribed from the statement/docs; YAML/JSON spellings; operation sequences (<=3) for module-state isolation; None and falsy scalars as ordinary leaves on both sides (746 496 pairs quick, 9.0 M thorough); every path of the shipped files set to 15 values one at a time",
         "verdict table transcribed by hand from the property statement and docs (not from the schema); cases the statement leaves open are executed but not asserted", "small-scope exhaustive enumeration of nested dictionaries and single-field perturbations + history BFS", "6 C16"),
 "C17": ("complete product of 27 phonon-file shapes x 4 value families x count variants through write_energy/read_energy with an independent parser; 1296 static-table layouts through read_elast_data; cij fill command round trip for 9 systems x number styles x presentations (1 deviation quick / full product thorough) incl. fill applied to its own output (depth 2); shipped files; over-determined slightly inconsistent tables against an own least-squares reference; mode-B histories {write X/Y to p, read p/q, fill, mutate} in unique / fixed / relative path modes for both readers",
         "io_ref parsers/writers; per-system dependent components hard-coded from Nye", "exhaustive enumeration of file shapes/layouts on the implementation + depth-2 command chains, oracle = independent parser", "6 C17"),
 "C19": ("extract: every request position class (nodes, both sides of midpoints, outside) x variable counts x -T/-P x header options on asymmetric non-square tables (every node and midpoint side along whole axes in thorough); file selection among all 51 documented names; extract-geotherm: 3 path kinds x 1/3/50 points x column layouts on bicubic (exact) and smooth (refinement ladder 21/41/81 with spline bound) tables; all 24 header orders of five 4-column geotherm families with case-colliding decoy columns; mode-B command histories over two result directories and a table rewrite in one process",
         "tables_ref writer byte-identical to qha's save_x_tp (selftest); spline error bound from the analytic derivatives", "exhaustive enumeration of request positions/layouts through the real CLI, oracle = analytic table functions", "6 C19"),
 "C20": ("evec_sort: all n! permutations x all 4^n phase vectors x 5 unitary bases x 7 perturbation kinds x 3 containers for n=2..4 (n=5 thorough), cyclic shifts and transpositions for n=12, 60; arbitrary orthonormal pairs incl. exact-zero overlaps for the 'always a permutation' clause; all 242 off-by-one dimension mismatches; disp2eig over bases x masses x scalings x shapes; evec_load over n_q x n_p with a distinct number in every slot; row norms over 24 decades and light/kg masses; input-immutability for six input presentations; all sequences of <=3 conversions on one array; load histories over rewritten and relative paths",
         "deterministic unitary bases and perturbations (no randomness); matdyn writer byte-identical to the shipped test files (selftest)", "exhaustive enumeration of permutations x phase vectors (bounded n) on the implementation", "6 C20"),
 "C07": ("complete product of 9 crystal-system tensor shapes x 3 magnitudes x zero-extras x 2 grids x 3 cell masses x 2 key orders on a duck calculator driving the real _calculate_compliances / CijVolumeBaseInterface, plus 24 real Calculators; at every positive-definite grid point K/G Voigt, Reuss, Hill vs C_iijj, C_ijij, S_iijj, S_ijij of the full fourth-rank tensor, bounds, s*c=1, rho v^2 identities in SI; all 4096 subsets of the twelve non-orthotropic components; all ordered sequences of <=2 (<=3) attribute reads (incl. 4-index names) on one interface vs fresh objects; ordered pairs/triples of real Calculators alive together",
         "tensor_ref (rotational invariants selftest); CODATA constants; stiffness values on the stated alphabets", "exhaustive enumeration of tensor-shape/grid/mass alphabets on the implementation, oracle = full fourth-rank tensor algebra", "6 C07"),
 "C11": ("full product of 24 (method, admissible order) pairs x n_V {6,7,8,12} (+{5,9,10} thorough) x 7 data laws (power law, polynomial in ln V of degree 1-5, Morse-like) x {inside, x1.2 extended grid} x shapes incl. square (3,3): exactness for power-law (and polynomial for lsq_poly) data against analytic triples, mutual consistency of the triple through integral identities, Gamma acoustic slots zero, no slot mixing, no NaN; mode plot n=0,1,2 through the real Calculator._interpolate_modes + ModePlotter with a recording axes",
         "analytic laws validated by 40-digit differentiation (selftest); quadrature on 2001 points with an a-posteriori bound", "exhaustive enumeration of interpolation configurations on the implementation, oracle = analytic triples and quadrature identities", "6 C11"),
 "C18": ("deviation lattice (<=2 quick, full product thorough: 3894 invocations) over mode x grid size x pressure range x sampling x static-table/system option x cell mass x 3 energy data sets x volume counts through the real run-static command; every printed cell (V, F, P, density, c_ij, VRH averages, v_p, v_s, v_phi) against an independent quadratic finite-strain fit with analytic derivative, hand unit factors and tensor_ref, with discretisation bounds from the reference's own derivatives; volume-block orders of INPUT01, row orders of INPUT02, --v-ratio values, explicit non-dyadic pressure requests",
         "static_ref (own fit, own inverse interpolation, own symmetry fill); bounds are Taylor remainders propagated through the spline", "deviation-bounded / full-product exhaustive enumeration of CLI configurations on the implementation", "6 C18"),
 "C12": ("deviation lattice over 24 (method, admissible order) pairs x 10 system settings x 5 temperature grids (DT 0.5..500 K, T_MIN>=0) x 3 component sets x 3 spectra x shapes x lattice block, every configuration schema-validated and run through the real Calculator (<=2 deviations quick; full product of the 5 core dimensions thorough): dtype float64, finite isothermal everywhere, adiabatic where C_V>0 or T=0, averages/velocities where positive definite, zero gap at T=0, low-T limit",
         "well-formed synthetic inputs; positive definiteness by Cholesky of the reported stiffness", "deviation-bounded / full-product exhaustive enumeration of valid configurations on the implementation", "6 C12"),
 "C13": ("metamorphic exhaustive enumeration on 3 base data sets: all orders of q-points 2..n, mode orders (all n! thorough; generators quick), weight scales, static column orders (all for 3; transpositions+rotations+reversal for 9/13), upper case, static row orders and phonon volume-block orders (all 120 thorough); every re-presented run compared with the base run on every modulus on both grids and on K, G, v_p, V(T,P); volume-block reorder: same numbers or an error; a 300-q-point base, one base per documented interpolator for the volume-block clause, weight scale factors 1e-12..1e9",
         "equal to rounding = 1e-9 of scale; acoustic modes identified by position are not moved", "exhaustive enumeration of permutation groups (bounded size) as re-presentations of the same data, differential oracle", "6 C13"),
 "C14": ("subprocess space: cij run under PYTHONHASHSEED {0,1,2}/{0..15,random} x 5 working-directory contents x 3 data sets, byte comparison with golden runs; history space: all valid operation sequences of depth <=3 (<=4 thorough) over {new A/B, read(x,p), write(x), fill, cfg} on real objects in long-lived workers + all 35 interleavings of two calculators' operation lists; every write byte-identical to golden, every read bit-identical to a fresh process and to itself, module-level state digests constant, fill idempotent; reads of both pressure-base tensors, data sets writing the same properties in different units, run-static and cij fill as earlier commands in the process, runs started from another directory next to decoy inputs",
         "goldens from fresh interpreters; hash seeds and cwd contents are finite menus; pint caches excluded from the state digest", "history BFS over operation sequences + all order-preserving interleavings of two operation lists on the implementation; subprocess enumeration of hash seeds x cwd contents", "6 C14"),
 "C15": ("complete product of 4 grids x 3 component sets x 2 bases: every keyword and alias of the writer rules written through the real ResultsWriter and re-read by an independent parser: file names, row/column labels on the requested grids in GPa / A^3, values = in-memory arrays in the documented unit, aliases byte-identical, adiabatic vs isothermal selection, one file per component, unit and file-name overrides, write_output() section handling; 6 grids incl. DT_SAMPLE != DT; all ordered sequences of <=2 (<=3) requests from a 10-letter alphabet through ONE writer, request objects unchanged, also after the same objects were written on the other base",
         "expected names/units transcribed from the documented table; CODATA unit factors", "exhaustive enumeration of keywords x bases x grids on the implementation, oracle = independent parser + in-memory results", "6 C15"),
 "C08": ("part 1 decided exactly: for each of the 9 systems the Laue rotation group is closed by BFS from exact generators over Q(sqrt3) (orders 1/2/4/4/8/3/6/12/24), every group element x every basis vector of the relations' null space (inclusion) and the Reynolds average of each of the 21 unit tensors against every packaged relation (reverse inclusion), dimensions 21/13/9/7/6/7/6/5/3; part 2: fill_cij on every sufficient subset of the non-vanishing components (all 5584 in thorough; 4 small systems complete + boundary layers in quick) x n_V {1,2,5} returns the invariant tensor; apply_symetry_on_elast_data on minimal/full sets; row-label presentations (default/reversed/offset index); value shapes with a parameter crossing zero x drop_atol {1e-8, 0.1, 1.0}; vanishing components listed as zeros; mode-B histories over shared settings-dict objects",
         "sympy exact arithmetic; sufficiency decided by rank of the coordinate projection of the invariant subspace (laue_ref), independent of fill_cij", "explicit-state closure of finite groups + exhaustive subset enumeration on the implementation, exact linear-algebra oracle", "6 C08"),
 "C09": ("refusal <=> (insufficient and not ignore_rank) or (inconsistent and not ignore_residuals) over every subset of the non-vanishing components of 8 systems (thorough: 483456 fills; quick: small systems complete + boundary layers) x 4 flag combinations x {consistent, inconsistent below/above tolerance}; presentation deviation lattice (dtype, case, column order, extra columns, cwd contents incl. directory named like the system and user-written relations file, drop_atol) <=2 (<=3 thorough); the cij fill command; depth-3 chains fill/CLI; on acceptance: movement and relation bounds, pass-through, drop rule, presentation independence; supplied vanishing components (zeros / one non-zero / complete 21-column tables) crossed with flags, through fill_cij and the CLI; row-label and value-shape dimensions",
         "laue_ref sufficiency oracle; perturbations >= 8x away from the tolerance under both readings of 'residual'; triclinic subsets limited to |S| 19..21", "exhaustive subset x flag enumeration + deviation lattice + depth-3 operation chains on the implementation", "6 C09"),
 "C10": ("complete enumeration of the finite domain (81 tuples, 36 Voigt pairs, all spellings, 81x81 equality pairs, out-of-range neighbours) with the orbit graph explored by BFS; decides the property outright because the domain is finite; numpy integer spellings; 694 out-of-range neighbours",
         "reference orbits from voigt_ref (union of generator images); CPython hashing", "exhaustive enumeration of the finite index domain + BFS of the orbit graph against a reference quotient", "6 C10"),
}
PENDING_REASON = "check not built yet (work in progress; planned per DESIGN.md §6)"


# alphabets / history operations added in the later seeding rounds (DESIGN.md §13.4, rounds 3-6); the authoritative
# enumeration rule of each check is the `rule` string in its evidence file
ADDENDA = {
 "C01": " Later rounds added: T grids descending / with T = 0 inside / of lengths 7-16, integer and zero weights, reads that fail on a not-yet-usable input and are retried, a run of selected cases in an interpreter started with -O; the calculator-like object is a real Calculator created without __init__.",
 "C02": " Later rounds added: the gap of the non-shear keys as delivered by the real task list for six strain fields incl. un-normalised ones; -O run.",
 "C03": " Later rounds added: strain arrays of 0 (bare triple) to 4 rows, integer dtype, un-normalised triples, five dictionary layouts, target keys built by the public classmethods from numpy integers, float32/float16 storage of the known components, all ordered pairs of solver objects fed from one dictionary.",
 "C04": " Later rounds added: un-normalised and integer strain fields, volume grids of 1/3/5 points, one task-list object resolved repeatedly; -O run.",
 "C05": " Later rounds added dimensions: QHA fit order 4/5, working directory with decoy inputs, row orders, formula units, integer / zero weights, negative linear compressibility, tables with the symmetry of a system that is not requested (explicit zero columns), five spellings of the lattice-block header incl. trailing columns, number format of the P= V= E= headers, static table tabulated at its own volumes; -O run.",
 "C06": " Later rounds added: square (T,V) grids, static_only runs, grids whose top/bottom lies in the last/first volume interval, overshoot by less than P_MIN, sparse sampling, overshoot x output sections; -O run.",
 "C07": " Later rounds added: all 4096 component subsets, read histories, cell masses 1-24000 g/mol in four notations, nearly singular positive-definite tensors, runs under -O; the file-less calculator is a real Calculator object.",
 "C10": " Later rounds added: numpy-integer and classmethod spellings (all attributes compared), two-argument rejects with two-digit arguments, the whole domain repeated under -O.",
 "C12": " Later rounds added: 39 method/order pairs, volume counts, weights, QHA order, pressure grids incl. the largest admissible NTV, non-dyadic temperature steps, header number formats, wiring comparison with interpolate_modes for the configured method/order; a refusal of an enumerated configuration is a violation.",
 "C13": " Later rounds added bases: dense q-mesh, one per interpolation method for volume-block orders, repeated branches, coinciding q-point labels, trigonal table without requested system; weight scales 1e-12..1e9.",
 "C14": " Later rounds added: cwd situations incl. decoy inputs, interpreter started with -O / locale C / narrow terminal, a data set with keys in another letter case under eight hash seeds; history operations run-static, cij fill, refused construction, input files rewritten in place, fill with the residual check off; invariants: working directory and process-wide library options (pandas, numpy, decimal, locale) unchanged after every operation.",
 "C15": " Later rounds added: grids with DT_SAMPLE != DT, fractional T_MIN, descending pressures; every keyword and alias through the settings file in four forms; writer objects with packaged and user rules kept alive together; a table contradicting its system with the residual check off; request objects compared after writing.",
}


def main():
    done = [i for i in IDS if i in CHECKS and os.path.exists(os.path.join(VERIF, "mc", "props", i.lower() + ".py"))]
    try:
        commits = subprocess.run(["git", "-C", "/repo", "log", "--format=%h %s", "15cbc51..HEAD"], capture_output=True, text=True).stdout.strip().splitlines()
    except Exception:
        commits = []
    man = {
        "version": 1,
        "setup_cmd": "./setup.sh",
        "hooks": {
            "guard": "CIJ_VERIF",
            "enable": "no source hooks: cij is pure Python and every check imports it from /repo's working tree (sys.path[0]=$VERIF_REPO, default /repo, asserted); CIJ_VERIF=1 is exported by ./check but read by no line of /repo",
            "baseline_off_cmd": "cd /repo && /venv/bin/python -m pytest -ra -q -p no:cacheprovider --timeout=900 --continue-on-collection-errors",
            "source_commits": [],
            "add_only": True,
        },
        "engines": [{
            "name": "mc", "path": "mc/", "serves_properties": done,
            "kind_free_text": "hand-written explicit-state / bounded-exhaustive explorer in Python driving the real cij code: deviation-lattice BFS over finite alphabets (mode A) and history BFS over operation sequences on real objects (mode B), with independent reference models (mc/ref)"}],
        "checks": [],
        "not_applicable": [],
        "notes": "All checks: ./check <ID> --tier quick|thorough; exit 0/1(VIOLATION)/2(HARNESS-ERROR). Unguarded fix: commits in /repo (genuine defects repaired): " + "; ".join(commits) + ". See DESIGN.md and known_findings.json.",
    }
    for i in done:
        t = CHECKS[i]
        man["checks"].append({
            "property_id": i, "quick_cmd": f"./check {i} --tier quick", "thorough_cmd": f"./check {i} --tier thorough",
            "evidence_file": f"evidence/{i}.json", "replay_cmd_template": f"./check {i} --replay {{path}}", "engine": "mc",
            "level_claimed": {"category": "model_checking", "text": t[0] + ADDENDA.get(i, ""), "design_ref": "DESIGN.md §" + t[3]},
            "level_note": t[1], "technique": t[2]})
    for i in IDS:
        if i not in done:
            man["not_applicable"].append({"property_id": i, "reason": PENDING_REASON})
    if not man["not_applicable"]:
        del man["not_applicable"]
    import jsonschema
    with open("/root/.vp/MANIFEST.schema.json") as fp:
        jsonschema.validate(man, json.load(fp))
    with open(os.path.join(VERIF, "MANIFEST.json"), "w") as fp:
        json.dump(man, fp, indent=1)
    print("MANIFEST.json written:", len(done), "checks,", len(man.get("not_applicable", [])), "pending")


if __name__ == "__main__":
    main()
